package main

import (
	"fmt"
	"go/token"
	"go/types"

	"golang.org/x/tools/go/ssa"
)

// optionSliceType: []Option (v2) or []Metadata (lib) of the package.
func optionSliceType(pkg *ssa.Package, elem string) types.Type {
	t := pkg.Type(elem)
	if t == nil {
		infra("%s: type %s not found", pkg.Pkg.Path(), elem)
	}
	return types.NewSlice(t.Type())
}

// presentation-only callees: their options select rendering, not comparison.
var renderOnly = map[string]bool{"Json": true, "Yaml": true, "Render": true, "RenderPatch": true, "RenderMerge": true, "MarshalJSON": true}

// ruleOptFwd: comparison options are forwarded, never dropped.
//
// In every function F of pkg that owns exactly one value O of the option
// slice type — a parameter, or the option list returned by (Path).next() —
// every call to a function of the same package that takes an option slice
// (other than the presentation-only renderers) must pass O itself.
func ruleOptFwd(w *World, r *Report, pkg *ssa.Package, tag, elem string, scope func(fn *ssa.Function) bool, exempt map[string]string) {
	ruleOptFwdFrom(w, r, pkg, pkg, tag, elem, scope, exempt)
}

// ruleOptFwdFrom: callers are the functions of callerPkg, callees the
// option-taking functions of pkg (the library).
func ruleOptFwdFrom(w *World, r *Report, callerPkg, pkg *ssa.Package, tag, elem string, scope func(fn *ssa.Function) bool, exempt map[string]string) {
	rule := "R-OPTFWD"
	if tag == "lib" {
		rule += "(lib)"
	}
	if callerPkg != pkg {
		rule += "(cli)"
	}
	optT := optionSliceType(pkg, elem)
	for _, fn := range w.FuncsOf(callerPkg) {
		if fn.Parent() != nil {
			continue // closures are visited with their parent
		}
		if scope != nil && !scope(fn) {
			continue
		}
		own := ownOptions(fn, optT)
		if own == nil {
			continue
		}
		r.Fn(fnName(fn))
		ord := map[string]int{}
		withClosures(fn, func(f *ssa.Function) {
			for _, b := range f.Blocks {
				for _, in := range b.Instrs {
					c, ok := in.(ssa.CallInstruction)
					if !ok {
						continue
					}
					idx, callee := optionArgIndex(c, pkg, optT)
					if idx < 0 {
						// a helper of the package that is given no options at all but compares / diffs /
						// hashes on the caller's behalf: whatever it calls that takes options gets none
						// (seeded change C05-c: a shared "replace unless equal" helper calling Equals bare)
						if g := staticCallee(c); g != nil && g.Blocks != nil && fnPkg(g) == pkg.Pkg && callerPkg == pkg && g.Parent() == nil && diffSide(fn) {
							if _, isClosure := c.Common().Value.(*ssa.MakeClosure); !isClosure {
								for _, site := range optionlessCalls(g, pkg, optT, 0, map[*ssa.Function]bool{fn: true}) {
									k := fmt.Sprintf("%s→%s→%s", fnName(fn), g.Name(), site.callee)
									ord[k]++
									if ord[k] > 1 {
										continue
									}
									if why, ok := exempt[k]; ok {
										r.Ok(rule, k, w.Pos(site.pos), "exempt by name: "+why)
										continue
									}
									r.Bad(rule, k, w.Pos(site.pos), fmt.Sprintf("%s is called by %s, which was given options (%s), but takes none and calls %s: the callee decides without the options the caller was asked about", g.Name(), fnName(fn), valueName(own), site.callee))
								}
							}
						}
						continue
					}
					ord[callee]++
					key := fmt.Sprintf("%s→%s", fnName(fn), callee)
					if ord[callee] > 1 {
						key = fmt.Sprintf("%s#%d", key, ord[callee])
					}
					pos := w.Pos(c.Pos())
					if why, ok := exempt[key]; ok {
						r.Ok(rule, key, pos, "exempt by name: "+why)
						continue
					}
					if _, fromNext := own.(*ssa.Extract); fromNext && !own.(*ssa.Extract).Block().Dominates(c.Block()) {
						continue // options not yet obtained on this path
					}
					arg := c.Common().Args[idx]
					if sameOptions(arg, own) {
						r.Ok(rule, key, pos, "passes the caller's own options "+valueName(own))
					} else {
						r.Bad(rule, key, pos, fmt.Sprintf("passes %s instead of the caller's options (%s): the callee decides a different equivalence than the caller was asked for", valueName(strip(arg)), valueName(own)))
					}
				}
			}
		})
	}
}

// ownOptions: the unique option-slice value F was given: a parameter of that
// type, else the option list returned by a call to next() on a path.
func ownOptions(fn *ssa.Function, optT types.Type) ssa.Value {
	var cands []ssa.Value
	for _, p := range fn.Params {
		if types.Identical(p.Type(), optT) {
			cands = append(cands, p)
		}
	}
	if len(cands) == 1 {
		return cands[0]
	}
	if len(cands) > 1 {
		return nil
	}
	allInstrs(fn, func(in ssa.Instruction) {
		ex, ok := in.(*ssa.Extract)
		if !ok || !types.Identical(ex.Type(), optT) {
			return
		}
		if c, ok := ex.Tuple.(*ssa.Call); ok {
			if cf := staticCallee(c); cf != nil && (cf.Name() == "next" || nextShaped(cf)) && usedValue(ex) {
				cands = append(cands, ex)
			}
		}
	})
	if len(cands) == 1 {
		return cands[0]
	}
	return nil
}

// optionArgIndex: index (into Common().Args) of the option-slice argument of
// a call to a same-package option-taking callee; -1 if not such a call.
func optionArgIndex(c ssa.CallInstruction, pkg *ssa.Package, optT types.Type) (int, string) {
	com := c.Common()
	var sig *types.Signature
	name := ""
	off := 0
	if com.IsInvoke() {
		if com.Method.Pkg() != pkg.Pkg && !(com.Method.Exported() && methodOfPkgInterface(com, pkg)) {
			return -1, ""
		}
		sig = com.Method.Type().(*types.Signature)
		name = "invoke." + com.Method.Name()
		if renderOnly[com.Method.Name()] {
			return -1, ""
		}
	} else {
		sf := staticCallee(c)
		if sf == nil {
			return -1, ""
		}
		if _, isClosure := com.Value.(*ssa.MakeClosure); isClosure {
			return -1, ""
		}
		if fnPkg(sf) != pkg.Pkg {
			return -1, ""
		}
		o := origin(sf)
		if renderOnly[o.Name()] {
			return -1, ""
		}
		sig = sf.Signature
		name = fnName(o)
		if sig.Recv() != nil {
			off = 1
		}
	}
	for i := 0; i < sig.Params().Len(); i++ {
		if types.Identical(sig.Params().At(i).Type(), optT) {
			if i+off < len(com.Args) {
				return i + off, name
			}
		}
	}
	return -1, ""
}

func methodOfPkgInterface(com *ssa.CallCommon, pkg *ssa.Package) bool {
	n := namedOf(com.Value.Type())
	return n != nil && n.Obj().Pkg() == pkg.Pkg
}

// sameOptions: arg is own itself (through loads of single-store locals).
func sameOptions(arg, own ssa.Value) bool {
	a := strip(arg)
	if a == own {
		return true
	}
	root, sel := accessPath(a)
	if root == own && len(sel) == 0 {
		return true
	}
	// a load of the cell a parameter was spilled to because a closure
	// captures it: every store into that cell, in the function and all its
	// closures, stores own
	u, ok := a.(*ssa.UnOp)
	if !ok || u.Op != token.MUL {
		return false
	}
	cell := closureCell(u.X)
	alloc, ok := cell.(*ssa.Alloc)
	if !ok {
		return false
	}
	top := alloc.Parent()
	n, good := 0, true
	withClosures(top, func(f *ssa.Function) {
		allInstrs(f, func(in ssa.Instruction) {
			if st, ok := in.(*ssa.Store); ok && closureCell(st.Addr) == ssa.Value(alloc) {
				n++
				if strip(st.Val) != own {
					good = false
				}
			}
		})
	})
	return n >= 1 && good
}

// closureCell resolves a free variable to the value bound to it where the
// closure is made (repeatedly, for nested closures).
func closureCell(v ssa.Value) ssa.Value {
	for depth := 0; depth < 6; depth++ {
		fv, ok := v.(*ssa.FreeVar)
		if !ok {
			return v
		}
		fn := fv.Parent()
		idx := -1
		for i, f := range fn.FreeVars {
			if f == fv {
				idx = i
			}
		}
		parent := fn.Parent()
		if parent == nil || idx < 0 {
			return v
		}
		var bound ssa.Value
		allInstrs(parent, func(in ssa.Instruction) {
			if mc, ok := in.(*ssa.MakeClosure); ok && mc.Fn == ssa.Value(fn) && idx < len(mc.Bindings) {
				bound = mc.Bindings[idx]
			}
		})
		if bound == nil {
			return v
		}
		v = bound
	}
	return v
}

func usedValue(v ssa.Value) bool {
	if v.Referrers() == nil {
		return false
	}
	for _, ref := range *v.Referrers() {
		if _, dbg := ref.(*ssa.DebugRef); !dbg {
			return true
		}
	}
	return false
}

// nextShaped: a method of the path type with no parameters and three results
// (element, options, rest) — Path.next under whatever name.
func nextShaped(fn *ssa.Function) bool {
	sig := fn.Signature
	if sig.Recv() == nil || sig.Params().Len() != 0 || sig.Results().Len() != 3 {
		return false
	}
	rn := typeName(sig.Recv().Type())
	return rn == "Path" || rn == "path"
}


type optSite struct {
	callee string
	pos    token.Pos
}

// optionlessCalls: the calls to option-taking functions of pkg made by g — a function that has no
// option list of its own — and by the option-less package functions it calls in turn.
func optionlessCalls(g *ssa.Function, pkg *ssa.Package, optT types.Type, depth int, seen map[*ssa.Function]bool) []optSite {
	if depth > 2 || seen[g] {
		return nil
	}
	seen[g] = true
	for _, p := range g.Params {
		if types.Identical(p.Type(), optT) {
			return nil
		}
	}
	if ownOptions(g, optT) != nil {
		return nil
	}
	var out []optSite
	withClosures(g, func(f *ssa.Function) {
		allInstrs(f, func(in ssa.Instruction) {
			c, ok := in.(ssa.CallInstruction)
			if !ok {
				return
			}
			if idx, callee := optionArgIndex(c, pkg, optT); idx >= 0 {
				// a comparison with a fixed sentinel (n.Equals(voidNode{})) has nothing options could change
				for _, a := range append([]ssa.Value{c.Common().Value}, c.Common().Args...) {
					if mi, ok := a.(*ssa.MakeInterface); ok {
						if _, isConst := mi.X.(*ssa.Const); isConst {
							return
						}
					}
				}
				out = append(out, optSite{callee, c.Pos()})
				return
			}
			if h := staticCallee(c); h != nil && h.Blocks != nil && fnPkg(h) == pkg.Pkg && h.Parent() == nil {
				out = append(out, optionlessCalls(h, pkg, optT, depth+1, seen)...)
			}
		})
	})
	return out
}
