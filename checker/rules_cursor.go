package main

import (
	"fmt"
	"go/token"
	"sort"
	"strings"

	"golang.org/x/tools/go/ssa"
)

// ruleCursor — R-CURSOR (C01 "index bookkeeping that makes each hunk's index
// valid after all earlier hunks have been applied"; C06/C07 through the same
// hunks; C03 because generated hunks are what strict patching is judged on).
//
// The hunk walk of the list diff (the function the list diff reaches that
// calls itself with the rest of both lists) keeps a path cursor P next to a
// cursor B into the second list. A hunk emitted for position k of the walk is
// applied to a document in which everything before it already looks like the
// second list, so the index it must carry is
//
//	P = pathIndex + B            (Δ := P − pathIndex − B = 0)
//
// at every place the cursor is *used*: the index handed to the recursive call
// together with b[B:], and the path of a nested diff. The rule identifies P
// and B from the recursive call itself (the argument in the PathIndex slot is
// a load of P, the argument in the slot of the second list is b[load B:]),
// and then runs a small abstract interpretation over the function's CFG:
//
//	state = (Δ ∈ {−4..4, ⊤},  B ∈ {0..4, ⊤},  endA, endB ∈ {true,false,?})
//
// kept as a *set* of states per block (so that the correlation "Δ went astray
// only on the path on which both lists are exhausted" survives the joins).
// Stores `P = P ± c`, `B = B ± c` move Δ by constants, any other store sends
// it to ⊤; endA / endB are the predicates `cursor == len(list)` (inline or as
// a closure that returns exactly that), learnt on branch edges, forgotten when
// the cursor is stored, and used to prune branches they decide. At each use
// of P every state that reaches it must have Δ = 0.
//
// Nothing is executed; the domain has finite height; a walk organised
// differently (no self call, cursors not in this shape) gets "no claim".
func ruleCursor(w *World, r *Report, pkg *ssa.Package, tag string) {
	const rule = "R-CURSOR"
	decline := func(why string) {
		r.Ok(rule, tag+":list-walk", "-", why+": this rule makes no claim (not decided)")
	}
	fnDiff := w.MethodOpt(pkg, "jsonList", "diff")
	if fnDiff == nil {
		decline("no jsonList.diff")
		return
	}
	// the walk: package functions reached by static calls from the list diff that call themselves
	var walk *ssa.Function
	var selfCalls []*ssa.Call
	{
		seen := map[*ssa.Function]bool{fnDiff: true}
		work := []*ssa.Function{fnDiff}
		for len(work) > 0 && walk == nil {
			f := work[0]
			work = work[1:]
			var calls []*ssa.Call
			allInstrs(f, func(in ssa.Instruction) {
				c, ok := in.(*ssa.Call)
				if !ok {
					return
				}
				sf := staticCallee(c)
				if sf == nil {
					return
				}
				if sf == f {
					calls = append(calls, c)
				}
				if sf.Blocks != nil && sf.Parent() == nil && fnPkg(sf) == pkg.Pkg && !seen[sf] {
					seen[sf] = true
					work = append(work, sf)
				}
			})
			if len(calls) > 0 && f != fnDiff {
				walk, selfCalls = f, calls
			}
		}
	}
	if walk == nil || walk.Signature.Recv() == nil {
		decline("the list diff reaches no method that calls itself with the rest of the lists")
		return
	}
	fn := walk
	r.Fn(fnName(fn))
	// parameter slots
	kP, kB := -1, -1
	for i, p := range fn.Params {
		if i == 0 {
			continue
		}
		if typeName(p.Type()) == "PathIndex" {
			if kP >= 0 {
				decline("two PathIndex parameters")
				return
			}
			kP = i
		}
		if p.Type() == fn.Params[0].Type() {
			if kB >= 0 {
				decline("two parameters of the list type")
				return
			}
			kB = i
		}
	}
	if kP < 0 || kB < 0 {
		decline("the walk has no (PathIndex, second list) parameters")
		return
	}
	loadOf := func(v ssa.Value) *ssa.Alloc {
		v = strip(v)
		u, ok := v.(*ssa.UnOp)
		if !ok || u.Op != token.MUL {
			return nil
		}
		al, _ := u.X.(*ssa.Alloc)
		if al == nil || al.Parent() != fn {
			return nil
		}
		return al
	}
	// a list value: the parameter itself or a load of the cell it was spilled into
	paramCell := map[*ssa.Alloc]*ssa.Parameter{}
	for _, p := range fn.Params {
		for _, ref := range *p.Referrers() {
			if st, ok := ref.(*ssa.Store); ok && st.Val == ssa.Value(p) {
				if al, ok := st.Addr.(*ssa.Alloc); ok {
					paramCell[al] = p
				}
			}
		}
	}
	// all stores to a cell, in fn and in its closures
	storesTo := func(cell *ssa.Alloc) (inFn []*ssa.Store, inClosures map[*ssa.Function]bool) {
		inClosures = map[*ssa.Function]bool{}
		withClosures(fn, func(g *ssa.Function) {
			allInstrs(g, func(in ssa.Instruction) {
				st, ok := in.(*ssa.Store)
				if !ok || closureCell(st.Addr) != ssa.Value(cell) {
					return
				}
				if g == fn {
					inFn = append(inFn, st)
				} else {
					inClosures[g] = true
				}
			})
		})
		return
	}
	listParamOf := func(v ssa.Value) *ssa.Parameter {
		v = strip(v)
		if p, ok := v.(*ssa.Parameter); ok {
			return p
		}
		if u, ok := v.(*ssa.UnOp); ok && u.Op == token.MUL {
			cell := closureCell(u.X)
			if al, ok := cell.(*ssa.Alloc); ok {
				if p := paramCell[al]; p != nil {
					st, _ := storesTo(al)
					if len(st) == 1 {
						return p
					}
				}
			}
		}
		return nil
	}
	var cellP, cellB, cellA *ssa.Alloc
	for _, sc := range selfCalls {
		args := sc.Call.Args
		if len(args) != len(fn.Params) {
			decline("self call with an unexpected argument list")
			return
		}
		p := loadOf(args[kP])
		var bCell, aCell *ssa.Alloc
		if sl, ok := strip(args[kB]).(*ssa.Slice); ok && sl.High == nil && sl.Low != nil && listParamOf(sl.X) == fn.Params[kB] {
			bCell = loadOf(sl.Low)
		}
		if sl, ok := strip(args[0]).(*ssa.Slice); ok && sl.High == nil && sl.Low != nil && listParamOf(sl.X) == fn.Params[0] {
			aCell = loadOf(sl.Low)
		}
		if p == nil || bCell == nil || aCell == nil {
			decline("the recursive call does not pass (load P, a[load A:], b[load B:])")
			return
		}
		if cellP != nil && (cellP != p || cellB != bCell || cellA != aCell) {
			decline("recursive calls disagree on the cursors")
			return
		}
		cellP, cellB, cellA = p, bCell, aCell
	}
	if cellP == cellB || cellP == cellA || cellA == cellB {
		decline("cursors coincide")
		return
	}
	// cells must be touched only by loads, stores and closure bindings
	for _, c := range []*ssa.Alloc{cellP, cellB, cellA} {
		for _, ref := range *c.Referrers() {
			switch ref.(type) {
			case *ssa.UnOp, *ssa.Store, *ssa.MakeClosure, *ssa.DebugRef:
			default:
				decline("a cursor's address escapes")
				return
			}
			if st, ok := ref.(*ssa.Store); ok && st.Addr != ssa.Value(c) {
				decline("a cursor's address is stored")
				return
			}
		}
	}
	_, pCl := storesTo(cellP)
	_, bCl := storesTo(cellB)
	_, aCl := storesTo(cellA)
	if len(pCl) > 0 || len(bCl) > 0 {
		decline("the path cursor or the second list's cursor is advanced inside a closure (the walk's steps are not in the walk function itself)")
		return
	}
	// closures that (transitively) store a cursor / load P
	closures := []*ssa.Function{}
	withClosures(fn, func(g *ssa.Function) {
		if g != fn {
			closures = append(closures, g)
		}
	})
	type eff struct{ stP, stB, stA, ldP bool }
	effs := map[*ssa.Function]*eff{}
	for _, g := range closures {
		e := &eff{stP: pCl[g], stB: bCl[g], stA: aCl[g]}
		allInstrs(g, func(in ssa.Instruction) {
			if u, ok := in.(*ssa.UnOp); ok && u.Op == token.MUL && closureCell(u.X) == ssa.Value(cellP) {
				e.ldP = true
			}
		})
		effs[g] = e
	}
	for changed := true; changed; {
		changed = false
		for _, g := range closures {
			allInstrs(g, func(in ssa.Instruction) {
				c, ok := in.(ssa.CallInstruction)
				if !ok {
					return
				}
				if h := staticCallee(c); h != nil && effs[h] != nil && h != g {
					a, b := effs[g], effs[h]
					n := eff{a.stP || b.stP, a.stB || b.stB, a.stA || b.stA, a.ldP || b.ldP}
					if n != *a {
						*a = n
						changed = true
					}
				}
			})
		}
	}
	// predicate summaries: a closure that returns exactly `cursor == len(list)`
	const (
		pNone = iota
		pEndA
		pEndB
	)
	var predOfValue func(v ssa.Value) (int, bool) // (which, positive)
	predOfValue = func(v ssa.Value) (int, bool) {
		bo, ok := v.(*ssa.BinOp)
		if !ok {
			return pNone, false
		}
		pos := true
		switch bo.Op {
		case token.EQL, token.GEQ:
		case token.NEQ, token.LSS:
			pos = false
		default:
			return pNone, false
		}
		side := func(cur, ln ssa.Value) int {
			u, ok := strip(cur).(*ssa.UnOp)
			if !ok || u.Op != token.MUL {
				return pNone
			}
			cell, _ := closureCell(u.X).(*ssa.Alloc)
			c, ok := isBuiltinCall(strip(ln), "len")
			if !ok || cell == nil {
				return pNone
			}
			lp := listParamOf(c.Call.Args[0])
			switch {
			case cell == cellA && lp == fn.Params[0]:
				return pEndA
			case cell == cellB && lp == fn.Params[kB]:
				return pEndB
			}
			return pNone
		}
		if k := side(bo.X, bo.Y); k != pNone {
			return k, pos
		}
		// `len(list) - cursor == 0` (benign ZA-r4): the same predicate written as a difference
		if bo.Op == token.EQL || bo.Op == token.NEQ {
			for _, pr := range [][2]ssa.Value{{bo.X, bo.Y}, {bo.Y, bo.X}} {
				if z, ok := constInt(pr[1]); ok && z == 0 {
					if sub, ok := stripInt(pr[0]).(*ssa.BinOp); ok && sub.Op == token.SUB {
						if k := side(sub.Y, sub.X); k != pNone {
							return k, pos
						}
						if k := side(sub.X, sub.Y); k != pNone {
							return k, pos
						}
					}
				}
			}
		}
		if bo.Op == token.EQL || bo.Op == token.NEQ {
			if k := side(bo.Y, bo.X); k != pNone {
				return k, pos
			}
		}
		return pNone, false
	}
	predOfClosure := func(g *ssa.Function) (int, bool) {
		if g == nil || len(g.Params) != 0 || effs[g] == nil {
			return pNone, false
		}
		rets := returnsOf(g)
		if len(rets) != 1 || len(rets[0].Results) != 1 || len(g.Blocks) != 1 {
			return pNone, false
		}
		return predOfValue(rets[0].Results[0])
	}
	// ------------------------------------------------------------ abstract interpretation
	const top = 99
	type state struct {
		d, b   int
		ea, eb int8 // 0 unknown, 1 true, 2 false
	}
	clamp := func(x int) int {
		if x == top || x > 4 || x < -4 {
			return top
		}
		return x
	}
	pParam := fn.Params[kP]
	// transfer of one instruction; use(in) is called before the instruction's own effect
	step := func(s state, in ssa.Instruction) state {
		switch x := in.(type) {
		case *ssa.Store:
			cell, _ := x.Addr.(*ssa.Alloc)
			if cell != cellP && cell != cellB && cell != cellA {
				return s
			}
			// value: load(cell) ± const, the load in the same block with no store to the cell in between
			delta, isInc := 0, false
			if bo, ok := strip(x.Val).(*ssa.BinOp); ok && (bo.Op == token.ADD || bo.Op == token.SUB) {
				var ld *ssa.UnOp
				var c int64
				var okc bool
				if l, ok := strip(bo.X).(*ssa.UnOp); ok && l.Op == token.MUL && l.X == ssa.Value(cell) {
					ld = l
					c, okc = constInt(bo.Y)
				} else if l, ok := strip(bo.Y).(*ssa.UnOp); ok && l.Op == token.MUL && l.X == ssa.Value(cell) && bo.Op == token.ADD {
					ld = l
					c, okc = constInt(bo.X)
				}
				if ld != nil && okc && ld.Block() == x.Block() {
					clean := true
					seenLd := false
					for _, i2 := range x.Block().Instrs {
						if i2 == ssa.Instruction(ld) {
							seenLd = true
							continue
						}
						if i2 == ssa.Instruction(x) {
							break
						}
						if seenLd {
							if st2, ok := i2.(*ssa.Store); ok && st2.Addr == ssa.Value(cell) {
								clean = false
							}
							if c2, ok := i2.(ssa.CallInstruction); ok {
								if h := staticCallee(c2); h != nil && effs[h] != nil {
									e := effs[h]
									if (cell == cellP && e.stP) || (cell == cellB && e.stB) || (cell == cellA && e.stA) {
										clean = false
									}
								}
							}
						}
					}
					if clean && c >= -4 && c <= 4 {
						delta, isInc = int(c), true
						if bo.Op == token.SUB {
							delta = -delta
						}
					}
				}
			}
			switch cell {
			case cellP:
				switch {
				case isInc:
					if s.d != top {
						s.d = clamp(s.d + delta)
					}
				case strip(x.Val) == ssa.Value(pParam):
					if s.b != top {
						s.d = clamp(-s.b)
					} else {
						s.d = top
					}
				default:
					s.d = top
				}
			case cellB:
				s.eb = 0
				if c, ok := isBuiltinCall(stripInt(x.Val), "len"); ok && listParamOf(c.Call.Args[0]) == ssa.Value(fn.Params[kB]) {
					// `bCursor = len(b)`: the rest of the second list taken in one step (benign B-r2)
					s.eb = 1
				}
				if isInc {
					if s.d != top {
						s.d = clamp(s.d - delta)
					}
					if s.b != top {
						s.b = clamp(s.b + delta)
					}
				} else {
					s.d, s.b = top, top
				}
			case cellA:
				s.ea = 0
				if c, ok := isBuiltinCall(stripInt(x.Val), "len"); ok && listParamOf(c.Call.Args[0]) == ssa.Value(fn.Params[0]) {
					s.ea = 1
				}
			}
			return s
		case ssa.CallInstruction:
			if h := staticCallee(x); h != nil && effs[h] != nil {
				e := effs[h]
				if e.stP || e.stB {
					s.d, s.b, s.eb = top, top, 0
				}
				if e.stA {
					s.ea = 0
				}
			}
			return s
		}
		return s
	}
	// the value of a branch condition under a state: 1 true, 2 false, 0 unknown; and which predicate it tests
	var evalCond func(v ssa.Value, s state) (val int8, which int, positive bool)
	evalCond = func(v ssa.Value, s state) (int8, int, bool) {
		which, pos := pNone, false
		if c, ok := v.(*ssa.Call); ok {
			which, pos = predOfClosure(staticCallee(c))
		} else {
			which, pos = predOfValue(v)
		}
		if which == pNone {
			return 0, pNone, false
		}
		cur := s.ea
		if which == pEndB {
			cur = s.eb
		}
		if cur == 0 {
			return 0, which, pos
		}
		if !pos {
			cur = 3 - cur
		}
		return cur, which, pos
	}
	in := map[*ssa.BasicBlock]map[state]bool{}
	add := func(b *ssa.BasicBlock, s state) bool {
		if in[b] == nil {
			in[b] = map[state]bool{}
		}
		if in[b][s] {
			return false
		}
		in[b][s] = true
		return true
	}
	// the cursors' zero values: P is undefined (⊤) until it is assigned pathIndex, B starts at 0
	add(fn.Blocks[0], state{d: top, b: 0})
	work := []*ssa.BasicBlock{fn.Blocks[0]}
	steps := 0
	for len(work) > 0 {
		blk := work[len(work)-1]
		work = work[:len(work)-1]
		steps++
		if steps > 20000 {
			r.Unk(rule, tag+":"+canonFnName(fn)+":fixpoint", w.Pos(fn.Pos()), "the cursor analysis did not converge")
			return
		}
		for s := range in[blk] {
			cur := s
			for _, ins := range blk.Instrs {
				cur = step(cur, ins)
			}
			cond, onT, onF, isIf := branchEdges(blk)
			if !isIf {
				for _, succ := range blk.Succs {
					if add(succ, cur) {
						work = append(work, succ)
					}
				}
				continue
			}
			val, which, pos := evalCond(cond, cur)
			for _, e := range []struct {
				edge Edge
				want int8
			}{{onT, 1}, {onF, 2}} {
				if val != 0 && val != e.want {
					continue // infeasible under this state
				}
				ns := cur
				if which != pNone {
					truth := e.want
					if !pos {
						truth = 3 - truth
					}
					if which == pEndA {
						ns.ea = truth
					} else {
						ns.eb = truth
					}
				}
				if add(e.edge.To(), ns) {
					work = append(work, e.edge.To())
				}
			}
		}
	}
	// ------------------------------------------------------------ obligations at the uses of P
	type use struct {
		in   ssa.Instruction
		what string
	}
	var uses []use
	for _, blk := range fn.Blocks {
		for _, ins := range blk.Instrs {
			switch x := ins.(type) {
			case *ssa.UnOp:
				if x.Op != token.MUL || x.X != ssa.Value(cellP) {
					continue
				}
				// a load that only feeds the cursor's own increment is not a use
				onlyInc := true
				var visit func(v ssa.Value, depth int)
				visit = func(v ssa.Value, depth int) {
					if v.Referrers() == nil || depth > 4 {
						onlyInc = false
						return
					}
					for _, ref := range *v.Referrers() {
						switch y := ref.(type) {
						case *ssa.DebugRef:
						case *ssa.Store:
							if y.Addr != ssa.Value(cellP) {
								onlyInc = false
							}
						case *ssa.BinOp:
							visit(y, depth+1)
						case *ssa.Convert:
							visit(y, depth+1)
						case *ssa.ChangeType:
							visit(y, depth+1)
						default:
							onlyInc = false
						}
					}
				}
				visit(x, 0)
				if !onlyInc {
					what := "read of the path cursor"
					for _, sc := range selfCalls {
						if u, ok := strip(sc.Call.Args[kP]).(*ssa.UnOp); ok && u == x {
							what = "index handed to the recursive call"
						}
					}
					uses = append(uses, use{ins, what})
				}
			case ssa.CallInstruction:
				if h := staticCallee(x); h != nil && effs[h] != nil && effs[h].ldP {
					what := "call of a closure that reads the path cursor"
					if v := x.Value(); v != nil && v.Referrers() != nil {
						for _, ref := range *v.Referrers() {
							if c2, ok := ref.(ssa.CallInstruction); ok {
								what = "path handed to " + calleeFullName(c2)
							} else if _, ok := ref.(*ssa.Store); ok {
								what = "path stored into a hunk"
							}
						}
					}
					uses = append(uses, use{ins, what})
				}
			}
		}
	}
	if len(uses) == 0 {
		decline("no use of the path cursor found")
		return
	}
	fnTag := tag + "." + canonFnName(fn)
	for i, u := range uses {
		blk := u.in.Block()
		var bad []string
		n := 0
		for s := range in[blk] {
			cur := s
			for _, ins := range blk.Instrs {
				if ins == u.in {
					break
				}
				cur = step(cur, ins)
			}
			n++
			if cur.d != 0 {
				d := "unknown"
				if cur.d != top {
					d = fmt.Sprintf("%+d", cur.d)
				}
				pr := func(x int8) string { return [...]string{"?", "true", "false"}[x] }
				bad = append(bad, fmt.Sprintf("Δ=%s (endA=%s, endB=%s)", d, pr(cur.ea), pr(cur.eb)))
			}
		}
		key := fmt.Sprintf("%s:path-cursor-use#%d(%s)", fnTag, i+1, u.what)
		switch {
		case n == 0:
			r.Ok(rule, key, w.Pos(u.in.Pos()), "unreachable under the cursor analysis")
		case len(bad) == 0:
			r.Ok(rule, key, w.Pos(u.in.Pos()), fmt.Sprintf("in all %d abstract states reaching this use the path cursor equals pathIndex + (elements of the second list passed)", n))
		default:
			sort.Strings(bad)
			r.Bad(rule, key, w.Pos(u.in.Pos()), "the path cursor is used where it need not equal pathIndex + the number of elements of the second list already passed — the index of the next hunk (or the path of the nested diff) is then not valid in the document as it is after the earlier hunks: "+strings.Join(bad, "; "))
		}
	}
	// the before-context handed on is the element of the second list just passed: b[B-1]
	for _, sc := range selfCalls {
		for k, p := range fn.Params {
			if k == 0 || k == kB || !isJsonNodeIface(p.Type()) {
				continue
			}
			key := fnTag + ":previous-element"
			arg := strip(sc.Call.Args[k])
			u, ok := arg.(*ssa.UnOp)
			if !ok || u.Op != token.MUL {
				r.Ok(rule, key, w.Pos(sc.Pos()), "the element handed on as context is not a plain element read: no claim (not decided)")
				continue
			}
			ia, ok := u.X.(*ssa.IndexAddr)
			if !ok {
				r.Ok(rule, key, w.Pos(sc.Pos()), "the element handed on as context is not a plain element read: no claim (not decided)")
				continue
			}
			good := false
			if listParamOf(ia.X) == fn.Params[kB] {
				if bo, ok := strip(ia.Index).(*ssa.BinOp); ok && bo.Op == token.SUB {
					if c, okc := constInt(bo.Y); okc && c == 1 && loadOf(bo.X) == cellB {
						good = true
					}
				}
			}
			r.Check(good, rule, key, w.Pos(sc.Pos()),
				"the walk hands on b[B-1] — the last element of the result so far — as the next hunk's before-context",
				"the element handed on as the next hunk's before-context is not b[B-1], the element of the second list that precedes the next position in the patched document")
		}
	}
}

func isJsonNodeIface(t interface{ String() string }) bool {
	return strings.HasSuffix(t.String(), ".JsonNode")
}
