package wit
import ("testing"; jd "github.com/josephburnett/jd/v2")
func rd(s string) jd.JsonNode { n,err:=jd.ReadJsonString(s); if err!=nil {panic(err)}; return n }
func TestD2(t *testing.T){
  a,b:=rd(`{"a":1.0}`),rd(`{"a":1.05}`)
  if a.Equals(b,jd.Precision(0.1)) != (len(a.Diff(b,jd.Precision(0.1)))==0) { t.Errorf("precision: equals/diff disagree") }
  a,b=rd(`[[1,2]]`),rd(`[[2,1]]`)
  if a.Equals(b,jd.SET,jd.MERGE) != (len(a.Diff(b,jd.SET,jd.MERGE))==0) { t.Errorf("set+merge: equals/diff disagree") }
  if a.Equals(b,jd.MULTISET,jd.MERGE) != (len(a.Diff(b,jd.MULTISET,jd.MERGE))==0) { t.Errorf("mset+merge: equals/diff disagree") }
  a,b=rd(`[{"id":[1,2],"v":1}]`),rd(`[{"id":[1,2],"v":2}]`)
  d:=a.Diff(b,jd.SetKeys("id"))
  r,err:=a.Patch(d)
  if err!=nil { t.Fatalf("setkeys own diff does not apply: %v\n%v",err,d.Render()) }
  if !r.Equals(b,jd.SetKeys("id")) { t.Errorf("setkeys roundtrip: %v", r.Json()) }
}
