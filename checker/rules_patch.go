package main

import (
	"fmt"
	"go/token"
	"go/types"
	"strings"

	"golang.org/x/tools/go/ssa"
)

// patchFamily is the set of functions that carry a hunk down to the place it
// edits: the implementations of jsonNodeInternals.patch, the shared leaf
// function patch() and the driver patchAll(). Roles are read from the
// parameter names of the interface method, i.e. from the API the repository
// itself declares.
type patchFamily struct {
	w       *World
	pkg     *ssa.Package
	tag     string // "v2" or "lib"
	roles   []string
	iface   *types.Interface
	methods []*ssa.Function
	leaf    *ssa.Function
	driver  *ssa.Function
	member  map[*ssa.Function]bool
}

func newPatchFamily(w *World, pkg *ssa.Package, tag string) *patchFamily {
	pf := &patchFamily{w: w, pkg: pkg, tag: tag, member: map[*ssa.Function]bool{}}
	it := pkg.Type("jsonNodeInternals")
	if it == nil {
		infra("%s: interface jsonNodeInternals not found", tag)
	}
	iface, ok := it.Type().Underlying().(*types.Interface)
	if !ok {
		infra("%s: jsonNodeInternals is not an interface", tag)
	}
	pf.iface = iface
	var m *types.Func
	for i := 0; i < iface.NumMethods(); i++ {
		if methodIs(iface.Method(i), "patch") {
			m = iface.Method(i)
		}
	}
	if m == nil {
		infra("%s: jsonNodeInternals.patch not found", tag)
	}
	sig := m.Type().(*types.Signature)
	// roles are positions in the interface signature; the canonical names
	// are labels (a maintainer may rename the parameters)
	switch sig.Params().Len() {
	case 7:
		pf.roles = []string{"pathBehind", "pathAhead", "before", "oldValues", "newValues", "after", "strategy"}
	case 5:
		pf.roles = []string{"pathBehind", "pathAhead", "oldValues", "newValues", "strategy"}
	default:
		infra("%s: jsonNodeInternals.patch has %d parameters; 7 (v2) or 5 (v1) expected", tag, sig.Params().Len())
	}
	for i, role := range pf.roles {
		want := "[]"
		switch role {
		case "pathBehind", "pathAhead":
			want = "ath"
		case "strategy":
			want = "patchStrategy"
		}
		if !strings.Contains(sig.Params().At(i).Type().String(), want) {
			infra("%s: parameter %d of jsonNodeInternals.patch has type %s, which does not fit role %s", tag, i, sig.Params().At(i).Type(), role)
		}
	}
	for _, n := range w.Implementers(pkg, "jsonNodeInternals") {
		fn := w.MethodOpt(pkg, n.Obj().Name(), "patch")
		if fn == nil || fn.Blocks == nil {
			infra("%s: %s has no patch method body", tag, n.Obj().Name())
		}
		pf.methods = append(pf.methods, fn)
		pf.member[fn] = true
	}
	pf.leaf = w.Func(pkg, "patch")
	pf.driver = w.Func(pkg, "patchAll")
	pf.member[pf.leaf] = true
	if len(pf.leaf.Params) != len(pf.roles)+1 {
		infra("%s: patch() has %d parameters, expected node + %d roles", tag, len(pf.leaf.Params), len(pf.roles))
	}
	return pf
}

func (pf *patchFamily) roleIndex(role string) int {
	for i, r := range pf.roles {
		if r == role {
			return i
		}
	}
	return -1
}

// roleParam: F's own parameter of the given role (methods and leaf have one
// leading non-role parameter: receiver / node).
func (pf *patchFamily) roleParam(fn *ssa.Function, role string) *ssa.Parameter {
	i := pf.roleIndex(role)
	if i < 0 || !pf.member[fn] || len(fn.Params) != len(pf.roles)+1 {
		return nil
	}
	return fn.Params[i+1]
}

// functions: methods + leaf (not the driver).
func (pf *patchFamily) functions() []*ssa.Function {
	out := append([]*ssa.Function{}, pf.methods...)
	return append(out, pf.leaf)
}

type patchCall struct {
	in     *ssa.Function
	call   ssa.CallInstruction
	args   []ssa.Value // aligned with roles
	callee string      // "invoke" or callee name
	key    string
}

// familyCalls lists the calls inside fn whose target is a patch-family
// function (static leaf call, static method call, or interface invoke).
func (pf *patchFamily) familyCalls(fn *ssa.Function) []patchCall {
	var out []patchCall
	ord := map[string]int{}
	withClosures(fn, func(f *ssa.Function) {
		for _, b := range f.Blocks {
			for _, in := range b.Instrs {
				c, ok := in.(ssa.CallInstruction)
				if !ok {
					continue
				}
				com := c.Common()
				var args []ssa.Value
				callee := ""
				if com.IsInvoke() {
					if !methodIs(com.Method, "patch") || com.Method.Pkg() != pf.pkg.Pkg {
						continue
					}
					args = com.Args
					callee = "invoke.patch"
				} else if sf := staticCallee(c); sf != nil && pf.member[sf] {
					args = com.Args[1:]
					callee = fnName(sf)
				} else {
					continue
				}
				if len(args) != len(pf.roles) {
					continue
				}
				ord[callee]++
				key := fmt.Sprintf("%s→%s", fnName(fn), callee)
				if ord[callee] > 1 {
					key = fmt.Sprintf("%s#%d", key, ord[callee])
				}
				out = append(out, patchCall{in: f, call: c, args: args, callee: callee, key: key})
			}
		}
	})
	return out
}

func (pf *patchFamily) strategyConst(name string) *ssa.NamedConst {
	c, _ := pf.pkg.Members[name].(*ssa.NamedConst)
	if c == nil {
		infra("%s: constant %s not found", pf.tag, name)
	}
	return c
}

// ruleFWD: expectations are forwarded through every recursive patch call.
func ruleFWD(w *World, r *Report, pf *patchFamily, roles []string) {
	const rule = "R-FWD"
	rname := rule
	if pf.tag == "lib" {
		rname = rule + "(lib)"
	}
	for _, fn := range pf.functions() {
		r.Fn(fnName(fn))
		for _, pc := range pf.familyCalls(fn) {
			for _, role := range roles {
				ri := pf.roleIndex(role)
				if ri < 0 {
					continue
				}
				key := fmt.Sprintf("%s[%s]", pc.key, role)
				pos := w.Pos(pc.call.Pos())
				own := pf.roleParam(fn, role)
				arg := strip(pc.args[ri])
				ok, why := false, ""
				switch {
				case arg == ssa.Value(own):
					ok, why = true, "argument is the caller's own parameter "+own.Name()
				case role == "pathAhead" && isRestOfNext(arg, own):
					ok, why = true, "argument is the rest returned by next() on the caller's pathAhead"
				case role == "strategy" && constGuardedByParam(pc.call, arg, own):
					ok, why = true, "constant strategy under a dominating test that the caller's strategy equals it"
				default:
					why = fmt.Sprintf("slot %s receives %s instead of the caller's parameter %s: the callee cannot check or use what the caller was given", role, valueName(arg), own.Name())
				}
				r.Check(ok, rname, key, pos, why, why)
			}
		}
	}
	// driver: slots are the fields of the ranged hunk
	ruleFWDDriver(w, r, pf, roles, rname)
}

func isRestOfNext(arg ssa.Value, own *ssa.Parameter) bool {
	ex, ok := arg.(*ssa.Extract)
	if !ok {
		return false
	}
	c, ok := ex.Tuple.(*ssa.Call)
	if !ok {
		return false
	}
	fn := staticCallee(c)
	if fn == nil || fn.Signature.Recv() == nil || !(fn.Name() == "next" || nextShaped(fn)) {
		return false
	}
	if ex.Index != fn.Signature.Results().Len()-1 {
		return false
	}
	return strip(c.Call.Args[0]) == ssa.Value(own)
}

// constGuardedByParam: arg is a constant K and the call is dominated by the
// edge on which `param == K` is known.
func constGuardedByParam(call ssa.CallInstruction, arg ssa.Value, param *ssa.Parameter) bool {
	k, ok := arg.(*ssa.Const)
	if !ok || k.Value == nil {
		return false
	}
	fn := call.Parent()
	for _, b := range fn.Blocks {
		cond, t, f, ok := branchEdges(b)
		if !ok {
			continue
		}
		bo, ok := cond.(*ssa.BinOp)
		if !ok || (bo.Op != token.EQL && bo.Op != token.NEQ) {
			continue
		}
		var other ssa.Value
		if strip(bo.X) == ssa.Value(param) {
			other = bo.Y
		} else if strip(bo.Y) == ssa.Value(param) {
			other = bo.X
		} else {
			continue
		}
		oc, ok := other.(*ssa.Const)
		if !ok || oc.Value == nil || oc.Value.ExactString() != k.Value.ExactString() {
			continue
		}
		e := t
		if bo.Op == token.NEQ {
			e = f
		}
		if edgeDominates(e, call.Block()) {
			return true
		}
	}
	return false
}

func ruleFWDDriver(w *World, r *Report, pf *patchFamily, roles []string, rname string) {
	fn := pf.driver
	r.Fn(fnName(fn))
	fieldFor := map[string]string{"pathAhead": "Path", "before": "Before", "after": "After"}
	if pf.tag == "v2" {
		fieldFor["oldValues"], fieldFor["newValues"] = "Remove", "Add"
	} else {
		fieldFor["oldValues"], fieldFor["newValues"] = "OldValues", "NewValues"
	}
	dparam := fn.Params[1]
	for _, pc := range pf.familyCalls(fn) {
		pos := w.Pos(pc.call.Pos())
		for _, role := range roles {
			ri := pf.roleIndex(role)
			if ri < 0 {
				continue
			}
			key := fmt.Sprintf("%s[%s]", pc.key, role)
			arg := pc.args[ri]
			if role == "strategy" {
				ok, why := driverStrategy(pf, arg, dparam)
				r.Check(ok, rname, key, pos, why, why)
				continue
			}
			field, has := fieldFor[role]
			if !has {
				continue
			}
			root, sel := accessPath(arg)
			want := "[]." + field
			ok := root == ssa.Value(dparam) && selString(sel) == want
			r.Check(ok, rname, key, pos,
				fmt.Sprintf("slot %s receives field %s of the hunk being applied", role, field),
				fmt.Sprintf("slot %s receives %s%s instead of field %s of the ranged hunk", role, valueName(root), selString(sel), field))
		}
	}
}

// driverStrategy: v2: a phi of the two strategy constants where the merge
// constant arrives only over the edge on which hunk.Metadata.Merge is true;
// lib: the result of getPatchStrategy on the hunk's path.
func driverStrategy(pf *patchFamily, arg ssa.Value, dparam *ssa.Parameter) (bool, string) {
	arg = strip(arg)
	if pf.tag == "lib" {
		c, ok := arg.(*ssa.Call)
		if ok {
			if fn := staticCallee(c); fn != nil && pf.w.fnIs(fn, "getPatchStrategy") && len(c.Call.Args) == 1 {
				root, sel := accessPath(c.Call.Args[0])
				if root == ssa.Value(dparam) && selString(sel) == "[].Path" {
					return true, "strategy is getPatchStrategy() of the hunk's own path"
				}
			}
		}
		return false, "strategy handed to the first patch call is not derived from the hunk's path metadata"
	}
	phi, ok := arg.(*ssa.Phi)
	if !ok {
		return false, "strategy handed to the first patch call is not selected by the hunk's Merge flag"
	}
	merge := pf.strategyConst("mergePatchStrategy").Value.Value.ExactString()
	strict := pf.strategyConst("strictPatchStrategy").Value.Value.ExactString()
	sawMerge, sawStrict := false, false
	for i, e := range phi.Edges {
		c, ok := e.(*ssa.Const)
		if !ok || c.Value == nil {
			return false, "strategy is not a choice between the two strategy constants"
		}
		pred := phi.Block().Preds[i]
		// edge on which hunk.Metadata.Merge is true / false
		onMerge := false
		known := false
		for _, b := range phi.Parent().Blocks {
			cond, t, f, ok := branchEdges(b)
			if !ok {
				continue
			}
			root, sel := accessPath(cond)
			if root != ssa.Value(dparam) || selString(sel) != "[].Metadata.Merge" {
				continue
			}
			if edgeDominatesOrIs(t, pred, phi.Block()) {
				onMerge, known = true, true
			} else if edgeDominatesOrIs(f, pred, phi.Block()) {
				onMerge, known = false, true
			}
		}
		if !known {
			return false, "strategy choice is not controlled by the hunk's Metadata.Merge flag"
		}
		switch c.Value.ExactString() {
		case merge:
			if !onMerge {
				return false, "merge strategy is selected on the edge where Metadata.Merge is false"
			}
			sawMerge = true
		case strict:
			if onMerge {
				return false, "strict strategy is selected on the edge where Metadata.Merge is true"
			}
			sawStrict = true
		default:
			return false, "strategy constant is neither merge nor strict"
		}
	}
	if sawMerge && sawStrict {
		return true, "merge strategy exactly when the hunk's Metadata.Merge flag is set"
	}
	return false, "strategy does not distinguish merge hunks from strict hunks"
}

// edgeDominatesOrIs: the phi edge pred→blk is taken only after edge e.
func edgeDominatesOrIs(e Edge, pred, blk *ssa.BasicBlock) bool {
	if e.From == pred && e.To() == blk {
		return true
	}
	return edgeDominates(e, pred)
}

// rulePatchResult: the outcome of a nested patch is consumed.
func rulePatchResult(w *World, r *Report, pf *patchFamily, scope func(*ssa.Function) bool) {
	rule := "R-PATCHRESULT"
	if pf.tag == "lib" {
		rule += "(lib)"
	}
	ea := newErrAnalysis(w)
	fns := append(pf.functions(), pf.driver)
	for _, fn := range fns {
		if scope != nil && !scope(fn) {
			continue
		}
		r.Fn(fnName(fn))
		for _, pc := range pf.familyCalls(fn) {
			pos := w.Pos(pc.call.Pos())
			val, ok := pc.call.(*ssa.Call)
			if !ok {
				r.Bad(rule, pc.key, pos, "nested patch is started with go/defer: its outcome cannot be consumed")
				continue
			}
			var errEx, nodeEx *ssa.Extract
			for _, ref := range *val.Referrers() {
				if ex, ok := ref.(*ssa.Extract); ok {
					if ex.Index == 1 {
						errEx = ex
					} else if ex.Index == 0 {
						nodeEx = ex
					}
				}
			}
			if errEx == nil && nodeEx == nil {
				if why, ok := libPatchExempt[pc.key]; ok && pf.tag == "lib" {
					r.Ok(rule, pc.key, pos, "exempt by name: "+why)
					continue
				}
				r.Bad(rule, pc.key, pos, "both the patched node and the error of the nested patch are discarded: a failure inside is reported as success and the result is lost")
				continue
			}
			okErr, whyErr := false, "error of the nested patch is discarded"
			if errEx != nil {
				for _, ref := range *errEx.Referrers() {
					switch u := ref.(type) {
					case *ssa.Return:
						if u.Results[len(u.Results)-1] == ssa.Value(errEx) {
							okErr, whyErr = true, "error is returned to the caller"
						}
					case *ssa.BinOp:
						if (u.Op == token.NEQ || u.Op == token.EQL) && (isNilConst(u.X) || isNilConst(u.Y)) {
							for _, r2 := range *u.Referrers() {
								iff, ok := r2.(*ssa.If)
								if !ok {
									continue
								}
								fail := iff.Block().Succs[0]
								if u.Op == token.EQL {
									fail = iff.Block().Succs[1]
								}
								if ea.errorOnly(fail) {
									okErr, whyErr = true, "error is tested against nil and the failing side only returns errors"
								} else {
									whyErr = "error is tested but the failing side can still return success"
								}
							}
						}
					}
				}
			}
			okNode := false
			if nodeEx != nil {
				for _, ref := range *nodeEx.Referrers() {
					if _, dbg := ref.(*ssa.DebugRef); !dbg {
						okNode = true
					}
				}
			}
			switch {
			case okErr && okNode:
				r.Ok(rule, pc.key, pos, whyErr+"; patched node is used")
			case !okErr:
				r.Bad(rule, pc.key, pos, whyErr)
			default:
				r.Bad(rule, pc.key, pos, "patched node returned by the nested patch is never used")
			}
		}
	}
}

// ruleNotIgnored — a hunk is never silently ignored: a patch function that
// reports success and hands back the very node it was given (not a new
// value, not the outcome of a nested patch) must have written into that node
// on the way (element store, map update, delete). Returning the untouched
// input means the hunk had no effect although no error is reported.
func ruleNotIgnored(w *World, r *Report, pf *patchFamily, scope func(*ssa.Function) bool) {
	rule := "R-NOTIGNORED"
	if pf.tag == "lib" {
		rule += "(lib)"
	}
	for _, fn := range pf.functions() {
		if scope != nil && !scope(fn) {
			continue
		}
		own := fn.Params[0]
		isOwn := func(v ssa.Value) bool { return strip(v) == ssa.Value(own) }
		// writes into the node
		var writes []*ssa.BasicBlock
		allInstrs(fn, func(in ssa.Instruction) {
			switch x := in.(type) {
			case *ssa.Store:
				if ia, ok := x.Addr.(*ssa.IndexAddr); ok && isOwn(ia.X) {
					writes = append(writes, x.Block())
				}
			case *ssa.MapUpdate:
				if isOwn(x.Map) {
					writes = append(writes, x.Block())
				}
			case ssa.CallInstruction:
				if b, ok := x.Common().Value.(*ssa.Builtin); ok && b.Name() == "delete" && isOwn(x.Common().Args[0]) {
					writes = append(writes, x.Block())
				}
			}
		})
		k := 0
		for _, ret := range returnsOf(fn) {
			if !isNilErrReturn(ret) || !isOwn(ret.Results[0]) {
				continue
			}
			k++
			r.Fn(fnName(fn))
			// every path to this return passes a write: the union of the write
			// blocks cuts the return off from the entry
			cut := EdgeSet{}
			for _, wb := range writes {
				for _, p := range wb.Preds {
					for j, sc := range p.Succs {
						if sc == wb {
							cut[Edge{p, j}] = true
						}
					}
				}
			}
			written := false
			for _, wb := range writes {
				if wb == ret.Block() {
					written = true
				}
			}
			if !written && len(cut) > 0 && cutsOff(fn, cut, ret.Block()) {
				written = true
			}
			if !written && mergeEmptyObjectNoOp(w, pf, fn, ret) {
				r.Ok(rule, fmt.Sprintf("%s:returns-input#%d", fnName(fn), k), w.Pos(ret.Pos()),
					"the node is handed back unchanged only under merge strategy and only where the hunk's value is known to be an empty object: merging {} into an object changes nothing (RFC 7386, MergePatch(T, {}) = T)")
				continue
			}
			if why, ok := libPatchExempt[fmt.Sprintf("%s:returns-input#%d", fnName(fn), k)]; ok && pf.tag == "lib" {
				r.Ok(rule, fmt.Sprintf("%s:returns-input#%d", fnName(fn), k), w.Pos(ret.Pos()), "exempt by name: "+why)
				continue
			}
			r.Check(written, rule, fmt.Sprintf("%s:returns-input#%d", fnName(fn), k), w.Pos(ret.Pos()),
				"the node handed back on success was written into on every path to this return",
				"success is reported and the very node that was passed in is handed back without having been written into on some path: the hunk is silently ignored")
		}
	}
}

// libPatchExempt: v1 constructs that break a patch rule without breaking what
// C17 promises (the round trip of v1's own diffs; C17 does not promise that
// bad patches are rejected). One line of reason each.
var libPatchExempt = map[string]string{
	"lib.(jsonSet).patch→invoke.patch":    "the keyed member of a v1 set is always a jsonObject (a map): its patch mutates it in place and returns the same map, so dropping the result loses nothing on v1's own diffs; the dropped error only matters for foreign patches, which C17 does not quantify over (the v2 twin is known finding K3 of C08)",
	"lib.(jsonSet).patch:returns-input#1": "same site: the member object was patched in place by the nested call",
}

// mergeEmptyObjectNoOp: the return lies behind (a) an edge on which the
// strategy is known to be merge and (b) the true edge of `len(x) == 0` where x
// is the hunk's new value asserted (comma-ok or plain) to a map type — the one
// hunk whose effect on an object is "no change".
func mergeEmptyObjectNoOp(w *World, pf *patchFamily, fn *ssa.Function, ret *ssa.Return) bool {
	newP := pf.roleParam(fn, "newValues")
	if newP == nil || pf.roleParam(fn, "strategy") == nil {
		return false
	}
	x := &expectCtx{w: w, pf: pf, fn: fn, d: NewDeriv(w, fn), ea: newErrAnalysis(w), lps: loopsOf(fn)}
	behindMerge := false
	for e := range x.mergeEdges() {
		if edgeDominates(e, ret.Block()) {
			behindMerge = true
		}
	}
	if !behindMerge {
		return false
	}
	for _, b := range fn.Blocks {
		cond, tE, _, ok := branchEdges(b)
		if !ok || !edgeDominates(tE, ret.Block()) {
			continue
		}
		bo, ok := cond.(*ssa.BinOp)
		if !ok || bo.Op != token.EQL {
			continue
		}
		k, okK := constInt(bo.Y)
		c, okL := isBuiltinCall(strip(bo.X), "len")
		if !okK || k != 0 || !okL {
			continue
		}
		v := strip(c.Call.Args[0])
		if ex, ok := v.(*ssa.Extract); ok && ex.Index == 0 {
			v = ex.Tuple
		}
		ta, ok := v.(*ssa.TypeAssert)
		if !ok {
			continue
		}
		if _, isMap := ta.AssertedType.Underlying().(*types.Map); !isMap {
			continue
		}
		if x.d.HasRoot(ta.X, newP) {
			return true
		}
	}
	return false
}
