#!/bin/bash
# usage: seedcheck.sh <seed-dir> <property> [more properties...]
# Confirms a seeded change on a scratch copy of /repo (suite passes, demo fails
# with the change and passes without), then runs the property's check on it.
SEED=$1; shift
export GOFLAGS=-mod=mod GOPROXY=off
unset GOSUMDB GOTOOLCHAIN GOWORK
S=$(mktemp -d /tmp/seedchk.XXXXXX)
trap 'rm -rf $S' EXIT
rsync -a --exclude .git /repo/ $S/
cd $S
demos=$(ls $SEED | grep '_test.go$')
place_demo() { for d in $demos; do
   # directory named in NOTES.md for this file (relative to the worktree), else by package clause
   dir=$(grep -o "[A-Za-z0-9_./-]*$d" $SEED/NOTES.md | grep / | head -1 | sed -e "s|^/tmp/wt/[A-Z0-9]*/||" -e "s|^/tmp/seed/[^ ]*||" -e "s|/$d$||")
   case "$dir" in v2|v2/jd|lib|.|"") ;; *) dir="";; esac
   if [ -z "$dir" ]; then
     if grep -q '^package main' $SEED/$d; then
       if grep -q 'v2\.\|jd/v2"' $SEED/$d && ! grep -q 'jd/lib"' $SEED/$d; then dir=v2/jd; else dir=.; fi
     elif grep -q 'josephburnett/jd/lib"' $SEED/$d; then dir=.
     else dir=v2; fi
   fi
   cp $SEED/$d $S/$dir/; done; }
run_demo() { (cd $S && go test -count=1 -run 'Seed|seed|Demo|demo|ZZ|Zz' ./... 2>&1; cd $S/v2 && go test -count=1 -run 'Seed|seed|Demo|demo|ZZ|Zz' ./... 2>&1) | grep -v 'no test files\|web/ui\|build constraints\|^FAIL$' ; }
place_demo
for extra in $(ls $SEED | grep -v '_test.go$\|NOTES.md\|patch.diff'); do cp -r $SEED/$extra $S/v2/ 2>/dev/null; cp -r $SEED/$extra $S/v2/jd/ 2>/dev/null; cp -r $SEED/$extra $S/ 2>/dev/null; done
echo "--- demo WITHOUT change"; run_demo | tail -6
for d in $demos; do rm -f $S/$d $S/v2/$d $S/lib/$d $S/v2/jd/$d; done
git init -q . 2>/dev/null; git apply $SEED/patch.diff || { echo "PATCH DOES NOT APPLY"; exit 3; }
echo "--- suite WITH change"; /verif/scripts/baseline.sh $S | tail -4
place_demo
echo "--- demo WITH change"; run_demo | tail -8
for d in $demos; do rm -f $S/$d $S/v2/$d $S/lib/$d $S/v2/jd/$d; done
for p in "$@"; do echo "--- check $p on changed tree"; /verif/bin/jdlint -property $p -root $S -json | python3 -c "
import sys,json
base=set()
try:
    base=set(tuple(x) for x in json.load(open('/tmp/baseline_bad_$p.json')))
except Exception: pass
for l in sys.stdin:
    if l.startswith('{'):
        d=json.loads(l)
        new=[o for o in (d['bad'] or []) if (o['rule'],o['construct']) not in base]
        print('obligations',d['obligations'],'bad',len(d['bad'] or []),'NEW',len(new))
        for o in new: print('   NEW [%s] %s @ %s: %s'%(o['rule'],o['construct'],o['pos'],o['why'][:160]))
    else: print(l.rstrip())
"; done
