package main

import (
	"strings"

	"golang.org/x/tools/go/ssa"
)

var commonAssumptions = []string{
	"the program analysed is exactly what `go list` reports for /repo's working tree under linux/amd64 without build tags (test files are not part of any rule)",
	"go/types, go/ssa and the VTA/CHA call graphs of golang.org/x/tools v0.50.0 are faithful to the compiled program",
	"external packages behave as their frozen summaries say (read-only unless listed as mutators; Unmarshal/Marshal return errors instead of panicking)",
	"values entering through the Go API were built by this package's constructors (no nil JsonNode inside containers)",
}

// scope helpers -----------------------------------------------------------

func nameIn(names ...string) func(*ssa.Function) bool {
	set := map[string]bool{}
	for _, n := range names {
		set[n] = true
	}
	return func(fn *ssa.Function) bool { return set[fn.Name()] }
}

func equalsSide(fn *ssa.Function) bool {
	switch fn.Name() {
	case "Equals", "hashCode", "ident", "sameContainerType", "dispatch", "combine":
		return true
	}
	return false
}

func diffSide(fn *ssa.Function) bool {
	n := fn.Name()
	return strings.HasPrefix(n, "diff") || n == "Diff" || n == "newPathSetKeys" || n == "getPatchStrategy"
}

func patchSide(fn *ssa.Function) bool {
	switch fn.Name() {
	case "patch", "patchAll", "Patch", "pathIdent", "ident":
		return true
	}
	return false
}

func listModePatch(fn *ssa.Function) bool {
	if fn.Signature.Recv() != nil {
		switch typeName(fn.Signature.Recv().Type()) {
		case "jsonSet", "jsonMultiset":
			return false
		}
	}
	return true
}

func setModePatch(fn *ssa.Function) bool { return !listModePatch(fn) || fn.Name() == "patchAll" }

var libOptExempt = map[string]string{
	"lib.(jsonSet).diff→lib.(jsonSet).Equals":           "reachable only when SET/Setkeys and MERGE metadata are combined; C17 quantifies over single metadata values",
	"lib.(jsonMultiset).diff→lib.(jsonMultiset).Equals": "reachable only when MULTISET and MERGE metadata are combined; C17 quantifies over single metadata values",
	"lib.(jsonObject).pathIdent→invoke.hashCode":        "reachable only under SET together with Setkeys; with Setkeys alone v1 diffs positionally; C17 quantifies over single metadata values",
}

func init() {
	register(&PropSpec{ID: "C01",
		Explain: "Decides necessary structural conditions of the v2 diff-then-patch round trip: (R-FWD) every recursive patch call hands the callee the caller's own old/new values, strategy and remaining path; (R-OPTFWD, patch side) identity lookups in patch use the options the path element prescribes; (R-PATHFRESH) no hunk shares its path's backing array with the recursion; (R-KINDS) the path element kind a container's diff emits is routed by next()+dispatch back to the same container semantics and accepted by its patch; (R-PROV) removes come from the receiver side, adds from the argument side.",
		NotDecided:  "The LCS walk's cursor arithmetic, index validity after earlier hunks, list splice arithmetic, keyed-set matching on concrete values: value-level, not decided.",
		Assumptions: commonAssumptions,
		Run: func(w *World, r *Report) {
			v2 := w.Pkg(pathV2)
			pf := newPatchFamily(w, v2, "v2")
			ruleFWD(w, r, pf, []string{"pathAhead", "oldValues", "newValues", "strategy"})
			ruleOptFwd(w, r, v2, "v2", "Option", patchSide, nil)
			r.Floor("R-FWD", 50)
			r.Floor("R-OPTFWD", 10)
		}})

	register(&PropSpec{ID: "C03",
		Explain: "Decides that a strict list-mode hunk can only commit behind its checks: (R-FWD, all roles) before/after context, old/new values and strategy reach the array they belong to at any depth; (R-PATCHRESULT) the error and the result of every nested patch are consumed; (R-EXPECT) in every patch implementation a list-mode diff can reach, every success return is cut off from entry by the successful comparison of old value / removed elements / before and after context, and the failing side of each comparison only returns errors.",
		NotDecided:  "That the compared position is the adjacent element (index arithmetic), that only what the hunks say is changed (in-place aliasing of the target), behaviour for the -1 append index.",
		Assumptions: commonAssumptions,
		Run: func(w *World, r *Report) {
			v2 := w.Pkg(pathV2)
			pf := newPatchFamily(w, v2, "v2")
			ruleFWD(w, r, pf, []string{"pathAhead", "before", "oldValues", "newValues", "after", "strategy"})
			rulePatchResult(w, r, pf, listModePatch)
			r.Floor("R-FWD", 80)
			r.Floor("R-PATCHRESULT", 10)
		}})

	register(&PropSpec{ID: "C04",
		Explain: "Decides structural necessary conditions of Equals: (R-TYPEGUARD) every Equals can answer anything but false only after a successful assertion that the (dispatched) argument has the receiver's own type; (R-HASHDOM) hash inputs of different node types are domain-separated by a constant 8-byte tag, pairwise distinct — necessary because SET/MULTISET equality compares digests; (R-HASHCOVER) each digest depends on everything the type's Equals compares; (R-OPTFWD, Equals side) nested comparisons receive the caller's options.",
		NotDecided:  "64-bit digest collisions within a type, precision arithmetic, reflexivity/symmetry on concrete values.",
		Assumptions: commonAssumptions,
		Run: func(w *World, r *Report) {
			v2 := w.Pkg(pathV2)
			nt := newNodeTypes(w, v2, "v2")
			ruleTypeGuard(w, r, nt)
			ruleHashDom(w, r, nt, nil)
			ruleHashCover(w, r, nt)
			ruleOptFwd(w, r, v2, "v2", "Option", equalsSide, nil)
			r.Floor("R-TYPEGUARD", 10)
			r.Floor("R-HASHDOM", 10)
			r.Floor("R-OPTFWD", 15)
		}})

	register(&PropSpec{ID: "C15",
		Explain: "Decides purity and determinism of the read-only API: (R-PURE) from Json, Yaml, Equals, Diff of every node type and from DiffElement.Render, Diff.Render/RenderPatch/RenderMerge, Metadata.Render, no reachable instruction writes memory reachable from the receiver or an argument (interprocedural storage-origin analysis with mutation summaries; the patch family may write only into the node it patches); (R-MAPORDER) every range over a map in the v2 library has an order-insensitive body (keyed inserts, commutative accumulation, error/constant returns, appends that are sorted before any other use); (R-NONDET) no call into time or random sources.",
		NotDecided:  "A node taken from a hunk's Add list becomes part of the patched document; a later hunk of the same Patch may update it in place (attributed to the receiver chain). Diffs produced by Diff or ReadMergeString never address the inside of a value they add.",
		Assumptions: commonAssumptions,
		Run: func(w *World, r *Report) {
			v2 := w.Pkg(pathV2)
			pf := newPatchFamily(w, v2, "v2")
			rulePure(w, r, v2, pf)
			ruleMapOrder(w, r, v2, "v2")
			ruleNoNondet(w, r, v2)
			r.Floor("R-PURE", 45)
			r.Floor("R-MAPORDER", 15)
		}})
}
