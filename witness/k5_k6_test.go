package wit

// K5, K6 (C12): the root of a JSON Merge Patch document. Both are pinned by the
// suite (TestReadMerge, FuzzJd merge legs) and therefore known findings, not fixes.
// F-C12 (fixed in 880949c): nested {} over an existing object.

import (
	"testing"

	jd "github.com/josephburnett/jd/v2"
)

func applyMerge(t *testing.T, target, patch string) string {
	t.Helper()
	n, err := jd.ReadJsonString(target)
	if err != nil {
		t.Fatal(err)
	}
	d, err := jd.ReadMergeString(patch)
	if err != nil {
		t.Fatal(err)
	}
	out, err := n.Patch(d)
	if err != nil {
		t.Fatal(err)
	}
	return out.Json()
}

func TestK5RootEmptyObjectOverNonObject(t *testing.T) {
	for _, target := range []string{`1`, `[1]`, `"x"`} {
		if got := applyMerge(t, target, `{}`); got != `{}` {
			t.Errorf("K5: MergePatch(%s, {}) = {} per RFC 7386, jd gives %s", target, got)
		}
	}
}

func TestK6RootNull(t *testing.T) {
	if got := applyMerge(t, `{"x":1}`, `null`); got != `null` {
		t.Errorf("K6: MergePatch({\"x\":1}, null) = null per RFC 7386, jd gives %q", got)
	}
}

func TestFixedNestedEmptyObject(t *testing.T) {
	if got := applyMerge(t, `{"a":{"b":1}}`, `{"a":{}}`); got != `{"a":{"b":1}}` {
		t.Errorf("MergePatch({\"a\":{\"b\":1}}, {\"a\":{}}) = {\"a\":{\"b\":1}} per RFC 7386, jd gives %s", got)
	}
	if got := applyMerge(t, `{"a":1}`, `{"a":{}}`); got != `{"a":{}}` {
		t.Errorf("non-object member must be replaced by {}: got %s", got)
	}
}
