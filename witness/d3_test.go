package wit
import ("testing"; jd "github.com/josephburnett/jd/v2")
func TestD3(t *testing.T){
  a,b:=rd(`[1]`),rd(`[1,2,3,4]`)
  d:=a.Diff(b)
  p1,_:=d.RenderPatch(); p2,_:=d.RenderPatch()
  if p1!=p2 { t.Errorf("RenderPatch not idempotent:\n%v\n%v",p1,p2) }
  a,b=rd(`{"a":1,"b":2}`),rd(`{"b":2}`)
  d=a.Diff(b,jd.MERGE)
  r1:=d.Render(); d.RenderMerge(); r2:=d.Render()
  if r1!=r2 { t.Errorf("RenderMerge changed the diff:\n%v\n%v",r1,r2) }
  seen:=map[string]bool{}
  for i:=0;i<200;i++ { m,_:=jd.ReadMergeString(`{"a":1,"b":2,"c":3,"d":{"e":1,"f":2}}`); seen[m.Render()]=true }
  if len(seen)!=1 { t.Errorf("ReadMergeString nondeterministic: %d renderings",len(seen)) }
}
