#!/bin/bash
# usage: seedcheck.sh <seed-dir> <property> [more properties...]
# Confirms a seeded change on a scratch copy of /repo (suite passes, demo fails
# with the change and passes without), then runs the property's check on it.
SEED=$1; shift
export GOFLAGS=-mod=mod GOPROXY=off
unset GOSUMDB GOTOOLCHAIN GOWORK
S=$(mktemp -d /tmp/seedchk.XXXXXX)
trap 'rm -rf $S' EXIT
rsync -a --exclude .git /repo/ $S/
cd $S
demos=$(ls $SEED | grep '_test.go$')
place_demo() { for d in $demos; do
   dir=$(python3 - "$SEED" "$d" <<'PY'
import re,sys,os
seed,d=sys.argv[1],sys.argv[2]
notes=open(os.path.join(seed,'NOTES.md')).read() if os.path.exists(os.path.join(seed,'NOTES.md')) else ''
src=open(os.path.join(seed,d)).read()
cand=None
# round 8 onwards: the demonstration says on its first lines which directory it belongs to
for line in src.splitlines()[:15]:
    m=re.search(r'(?:[Cc]opy|[Pp]lace|[Pp]ut|belongs|[Dd]irectory)[^\n]*?(?:into|in|to|under|:)\s+(?:the\s+)?[`"\']?(v2/jd|v2|lib|\.)[`"\']?/?(?=[\s,;)]|$)', line)
    if m:
        cand=m.group(1); break
if cand is None:
  lines=[l for l in notes.splitlines() if d in l]+[l for l in notes.splitlines() if re.search(r'\b[Cc]opy\b', l)]+[l for l in src.splitlines()[:12] if 'opy' in l]
  for line in lines:
        m=re.search(r'/tmp/wt/[A-Za-z0-9]+((?:/[A-Za-z0-9_]+)*)/?', line)
        if m:
            sub=m.group(1).strip('/')
            if sub.endswith('.go') or os.path.basename(sub).startswith('zz') or os.path.basename(sub)==d[:-3]: sub=os.path.dirname(sub)
            if sub in ('','v2','v2/jd','lib'):
                cand=sub or '.'
                break
        m=re.search(r'`((?:v2/jd|v2|lib))/?`', line)
        if m: cand=m.group(1); break
if cand is None:
    if re.search(r'^package main', src, re.M):
        cand='v2/jd' if 'jd/v2"' in src and 'jd/lib"' not in src else '.'
    elif 'josephburnett/jd/lib"' in src: cand='.'
    else: cand='v2'
print(cand)
PY
)
   cp $SEED/$d $S/$dir/; done; }
TESTRE=$(cat $(for d in $demos; do echo $SEED/$d; done) 2>/dev/null | grep -o '^func Test[A-Za-z0-9_]*' | sed 's/func //' | sort -u | paste -sd'|')
[ -z "$TESTRE" ] && TESTRE='Seed|seed|Demo|demo'
run_demo() { (cd $S && go test -count=1 -run "^($TESTRE)\$" ./... 2>&1; cd $S/v2 && go test -count=1 -run "^($TESTRE)\$" ./... 2>&1) | grep -v 'no test files\|web/ui\|build constraints\|^FAIL$' ; }
place_demo
for extra in $(ls $SEED | grep -v '_test.go$\|NOTES.md\|patch.diff'); do cp -r $SEED/$extra $S/v2/ 2>/dev/null; cp -r $SEED/$extra $S/v2/jd/ 2>/dev/null; cp -r $SEED/$extra $S/ 2>/dev/null; done
echo "--- demo WITHOUT change"; run_demo | tail -6
for d in $demos; do rm -f $S/$d $S/v2/$d $S/lib/$d $S/v2/jd/$d; done
git init -q . 2>/dev/null; git apply $SEED/patch.diff || { echo "PATCH DOES NOT APPLY"; exit 3; }
echo "--- suite WITH change"; /verif/scripts/baseline.sh $S | tail -4
place_demo
echo "--- demo WITH change"; run_demo | tail -8
for d in $demos; do rm -f $S/$d $S/v2/$d $S/lib/$d $S/v2/jd/$d; done
for p in "$@"; do echo "--- check $p on changed tree"; ${JDLINT:-/verif/bin/jdlint} -property $p -root $S -json | python3 -c "
import sys,json
base=set()
try:
    base=set(tuple(x) for x in json.load(open('/tmp/baseline_bad_$p.json')))
except Exception: pass
for l in sys.stdin:
    if l.startswith('{'):
        d=json.loads(l)
        new=[o for o in (d['bad'] or []) if (o['rule'],o['construct']) not in base]
        print('obligations',d['obligations'],'bad',len(d['bad'] or []),'NEW',len(new))
        for o in new: print('   NEW [%s] %s @ %s: %s'%(o['rule'],o['construct'],o['pos'],o['why'][:160]))
    else: print(l.rstrip())
"; done
