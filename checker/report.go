package main

import (
	"crypto/sha1"
	"encoding/json"
	"fmt"
	"os"
	"path/filepath"
	"sort"
	"strings"
)

type Status string

const (
	OK        Status = "discharged"
	Violated  Status = "violated"
	Undecided Status = "undecided"
)

// Ob is one proof obligation: a rule instantiated on one construct of the
// program. Key identifies the construct without line numbers.
type Ob struct {
	Rule   string         `json:"rule"`
	Key    string         `json:"construct"`
	Pos    string         `json:"pos"`
	Status Status         `json:"status"`
	Why    string         `json:"why"`
	Detail map[string]any `json:"detail,omitempty"`
}

type Report struct {
	Property string
	Obs      []Ob
	Funcs    map[string]bool
	Notes    []string
	Controls map[string]map[string]bool
	seen     map[string]bool
}

func NewReport(prop string) *Report {
	return &Report{Property: prop, Funcs: map[string]bool{}, Controls: map[string]map[string]bool{}, seen: map[string]bool{}}
}

func (r *Report) add(rule, key, pos string, st Status, why string, detail map[string]any) {
	k := rule + "\x00" + key
	if r.seen[k] {
		// the same construct may be reached twice (two instances of a generic,
		// two scopes); keep the worst status
		for i := range r.Obs {
			if r.Obs[i].Rule == rule && r.Obs[i].Key == key {
				if r.Obs[i].Status == OK && st != OK {
					r.Obs[i] = Ob{rule, key, pos, st, why, detail}
				}
				return
			}
		}
	}
	r.seen[k] = true
	r.Obs = append(r.Obs, Ob{rule, key, pos, st, why, detail})
}

func (r *Report) Ok(rule, key, pos, why string) { r.add(rule, key, pos, OK, why, nil) }
func (r *Report) Bad(rule, key, pos, why string) {
	r.add(rule, key, pos, Violated, why, nil)
}
func (r *Report) Unk(rule, key, pos, why string) {
	r.add(rule, key, pos, Undecided, why, nil)
}
func (r *Report) Check(cond bool, rule, key, pos, okWhy, badWhy string) {
	if cond {
		r.Ok(rule, key, pos, okWhy)
	} else {
		r.Bad(rule, key, pos, badWhy)
	}
}
func (r *Report) Fn(name string) { r.Funcs[name] = true }
func (r *Report) Note(format string, a ...any) {
	r.Notes = append(r.Notes, fmt.Sprintf(format, a...))
}

func (r *Report) Count(rule string) int {
	n := 0
	for _, o := range r.Obs {
		if o.Rule == rule {
			n++
		}
	}
	return n
}

// Expect records a violation if an obligation that was confirmed by reading
// the code is no longer produced by the rule (a check that vanished).
func (r *Report) Expect(rule string, keys ...string) {
	for _, k := range keys {
		if !r.seen[rule+"\x00"+k] {
			r.Bad(rule, k, "-", "expected instance of the rule was not found in the program (the construct that carried this obligation is gone)")
		}
	}
}

// Floor: the rule must have matched at least n constructs.
func (r *Report) Floor(rule string, n int) {
	if c := r.Count(rule); c < n {
		r.Bad(rule, fmt.Sprintf("instance-floor(%d)", n), "-",
			fmt.Sprintf("rule matched %d constructs, fewer than the %d confirmed by hand: constructs that carried obligations have disappeared", c, n))
	}
}

// ---------------------------------------------------------------- findings

type Finding struct {
	Property string `json:"property"`
	Rule     string `json:"rule"`
	Key      string `json:"construct"`
	What     string `json:"what"`
	Witness  string `json:"witness,omitempty"`
	Commit   string `json:"commit,omitempty"`
}

type Findings struct {
	Known []Finding `json:"known"`
	Fixed []Finding `json:"fixed"`
}

func loadFindings(path string) Findings {
	var f Findings
	b, err := os.ReadFile(path)
	if err != nil {
		infra("known findings file: %v", err)
	}
	if err := json.Unmarshal(b, &f); err != nil {
		infra("known findings file: %v", err)
	}
	return f
}

// ---------------------------------------------------------------- evidence

type Evidence struct {
	PropertyID  string         `json:"property_id"`
	Tier        string         `json:"tier"`
	Seed        int            `json:"seed"`
	Level       string         `json:"level"`
	Coverage    map[string]any `json:"coverage"`
	Assumptions []string       `json:"assumptions"`
	WallS       float64        `json:"wall_s"`
	Violations  int            `json:"violations"`
}

func keyHash(s string) string {
	h := sha1.Sum([]byte(s))
	return fmt.Sprintf("%x", h[:5])
}

func sanitize(s string) string {
	return strings.Map(func(r rune) rune {
		if r >= 'a' && r <= 'z' || r >= 'A' && r <= 'Z' || r >= '0' && r <= '9' || r == '-' {
			return r
		}
		return '_'
	}, s)
}

type Outcome struct {
	Violations []Ob
	Known      []Ob
}

// Finish matches violations against the known findings, writes evidence and
// replay files, prints the protocol lines and returns the exit status.
func (r *Report) Finish(spec *PropSpec, tier string, seed int, wall float64, verifDir string, extra map[string]any, quiet bool) int {
	fnd := loadFindings(filepath.Join(verifDir, "known_findings.json"))
	var viol, known []Ob
	nOK := 0
	sort.SliceStable(r.Obs, func(i, j int) bool {
		if r.Obs[i].Rule != r.Obs[j].Rule {
			return r.Obs[i].Rule < r.Obs[j].Rule
		}
		return r.Obs[i].Key < r.Obs[j].Key
	})
	for _, o := range r.Obs {
		if o.Status == OK {
			nOK++
			continue
		}
		isKnown := false
		for _, k := range fnd.Known {
			if k.Property == r.Property && k.Rule == o.Rule && k.Key == o.Key {
				isKnown = true
				if !quiet {
					fmt.Printf("KNOWN-FINDING: property=%s rule=%s construct=%s %s\n", r.Property, o.Rule, o.Key, k.What)
				}
			}
		}
		if isKnown {
			known = append(known, o)
		} else {
			viol = append(viol, o)
		}
	}
	counts := map[string]int{}
	for _, o := range r.Obs {
		counts[o.Rule]++
	}
	// samples: first obligation of each rule plus all non-OK ones
	var samples []any
	seenRule := map[string]int{}
	for _, o := range r.Obs {
		if o.Status != OK || seenRule[o.Rule] < 2 {
			samples = append(samples, o)
			seenRule[o.Rule]++
		}
	}
	if len(samples) > 60 {
		samples = samples[:60]
	}
	fns := make([]string, 0, len(r.Funcs))
	for f := range r.Funcs {
		fns = append(fns, f)
	}
	sort.Strings(fns)
	cov := map[string]any{
		"explanation":         spec.Explain,
		"not_decided":         spec.NotDecided,
		"obligations":         len(r.Obs),
		"discharged":          nOK,
		"known_findings":      len(known),
		"violations":          len(viol),
		"evaluations":         len(r.Obs),
		"distinct_nontrivial": len(r.seen),
		"rule":                "one obligation per (rule, program construct) found by the rule in the type-checked SSA of /repo's working tree; distinct = distinct (rule,construct) keys; every obligation is tied to a real construct, none is vacuous",
		"rule_instances":      counts,
		"functions_analysed":  fns,
		"samples":             samples,
		"controls":            r.Controls,
		"notes":               r.Notes,
		"checker_cmd":         fmt.Sprintf("bin/jdlint -property %s -tier %s", r.Property, tier),
		"trusted_base":        trustedBase,
	}
	for k, v := range extra {
		cov[k] = v
	}
	ev := Evidence{PropertyID: r.Property, Tier: tier, Seed: seed, Level: "other", Coverage: cov,
		Assumptions: spec.Assumptions, WallS: wall, Violations: len(viol)}
	if !quiet {
		os.MkdirAll(filepath.Join(verifDir, "evidence"), 0o755)
		b, _ := json.MarshalIndent(ev, "", " ")
		if err := os.WriteFile(filepath.Join(verifDir, "evidence", r.Property+".json"), b, 0o644); err != nil {
			infra("write evidence: %v", err)
		}
	}
	if len(viol) == 0 {
		if !quiet {
			fmt.Printf("OK property=%s tier=%s obligations=%d discharged=%d known_findings=%d\n", r.Property, tier, len(r.Obs), nOK, len(known))
		}
		return 0
	}
	os.MkdirAll(filepath.Join(verifDir, "replay"), 0o755)
	for _, o := range viol {
		name := fmt.Sprintf("%s-%s-%s.json", r.Property, sanitize(o.Rule), keyHash(o.Rule+"\x00"+o.Key))
		p := filepath.Join(verifDir, "replay", name)
		b, _ := json.MarshalIndent(map[string]any{"property": r.Property, "obligation": o,
			"replay": fmt.Sprintf("bin/jdlint -replay %s", p)}, "", " ")
		os.WriteFile(p, b, 0o644)
		fmt.Printf("  %s [%s] %s @ %s: %s\n", o.Status, o.Rule, o.Key, o.Pos, o.Why)
		fmt.Printf("VIOLATION property=%s replay=%s\n", r.Property, p)
	}
	return 1
}

var trustedBase = []string{
	"go1.26.8 go/types and golang.org/x/tools v0.50.0 go/packages, go/ssa, callgraph/vta",
	"the Go compiler's bounds-check elimination (prove pass) where rule R-PANIC imports its verdicts",
	"frozen summaries of external packages (encoding/json, gopkg.in/yaml.v2 v2.4.0, go-openapi/jsonpointer, yudai/golcs, fmt, sort, strings, bytes)",
}

// Only runs f against a scratch report and keeps the obligations keep accepts:
// a rule family is attached to a property with exactly the clauses that are
// necessary conditions of that property.
func (r *Report) Only(keep func(o Ob) bool, f func(sub *Report)) {
	sub := NewReport(r.Property)
	f(sub)
	for _, o := range sub.Obs {
		if keep(o) {
			r.add(o.Rule, o.Key, o.Pos, o.Status, o.Why, o.Detail)
		}
	}
	for k := range sub.Funcs {
		r.Funcs[k] = true
	}
	r.Notes = append(r.Notes, sub.Notes...)
}
