package main

import (
	"fmt"
	"go/constant"
	"go/token"
	"go/types"
	"strings"

	"golang.org/x/tools/go/ssa"
)

// ruleTolerance — R-TOLERANCE (C04: "numbers within eps under Precision(eps)").
//
// In the Equals of the numeric node type (the JsonNode implementation whose
// underlying type is a float) every floating-point comparison is looked at
// together with the backward slice of its operands over float values. The
// tolerance test must compare the plain distance of the two numbers with the
// plain option value: the slice may contain subtraction/addition, negation,
// math.Abs, conversions, phis, the option's field and the constant 0 — and
// nothing else. Multiplication, division, remainder, rounding or any other
// call, or a non-zero constant, rescale the tolerance: some pair farther apart
// than eps is accepted or some pair within eps rejected. At least one
// comparison must depend on both numbers and on the precision option.
func ruleTolerance(w *World, r *Report, nt *nodeTypes) {
	const rule = "R-TOLERANCE"
	n := 0
	for _, t := range nt.names {
		fn := nt.method(t, "Equals")
		recv := fn.Params[0]
		b, ok := recv.Type().Underlying().(*types.Basic)
		if !ok || b.Info()&types.IsFloat == 0 {
			continue
		}
		n++
		r.Fn(fnName(fn))
		key := fmt.Sprintf("%s.(%s).Equals", nt.tag, t)
		reads := optionKindsRead(fn)
		if len(reads) == 0 {
			r.Bad(rule, key+":reads-precision", w.Pos(fn.Pos()), "the numeric Equals consults no option: Precision(eps) has no effect on number equality")
			continue
		}
		fns := map[*ssa.Function]bool{fn: true}
		// in-package helpers handed float values
		for changed := true; changed; {
			changed = false
			for f := range fns {
				allInstrs(f, func(in ssa.Instruction) {
					c, ok := in.(*ssa.Call)
					if !ok {
						return
					}
					sf := staticCallee(c)
					if sf == nil || sf.Pkg != nt.pkg || sf.Blocks == nil || fns[sf] {
						return
					}
					if o := sf.Origin(); o != nil && (o.Name() == "getOption" || o.Name() == "checkOption") {
						return
					}
					for _, a := range c.Call.Args {
						if isFloat(a.Type()) {
							fns[sf] = true
							changed = true
						}
					}
				})
			}
		}
		type sliceInfo struct {
			bad       []string
			recv, arg bool
			opt       bool
		}
		var slice func(v ssa.Value, si *sliceInfo, seen map[ssa.Value]bool, depth int)
		slice = func(v ssa.Value, si *sliceInfo, seen map[ssa.Value]bool, depth int) {
			if v == nil || seen[v] || depth > 40 {
				return
			}
			seen[v] = true
			switch x := v.(type) {
			case *ssa.Const:
				if x.Value != nil && (x.Value.Kind() == constant.Float || x.Value.Kind() == constant.Int) {
					if f, _ := constant.Float64Val(constant.ToFloat(x.Value)); f != 0 {
						si.bad = append(si.bad, "constant "+x.Value.ExactString())
					}
				}
			case *ssa.Parameter:
				if x == recv {
					si.recv = true
				} else if x.Parent() == fn {
					si.arg = true
				} else {
					// helper parameter: follow the call sites inside the analysed set
					for f := range fns {
						allInstrs(f, func(in ssa.Instruction) {
							c, ok := in.(*ssa.Call)
							if !ok || staticCallee(c) != x.Parent() {
								return
							}
							for i, p := range x.Parent().Params {
								if p == x && i < len(c.Call.Args) {
									slice(c.Call.Args[i], si, seen, depth+1)
								}
							}
						})
					}
				}
			case *ssa.Phi:
				for _, e := range x.Edges {
					slice(e, si, seen, depth+1)
				}
			case *ssa.BinOp:
				switch x.Op {
				case token.SUB, token.ADD:
				default:
					si.bad = append(si.bad, "operator "+x.Op.String()+" at "+w.Pos(x.Pos()))
				}
				slice(x.X, si, seen, depth+1)
				slice(x.Y, si, seen, depth+1)
			case *ssa.UnOp:
				if x.Op == token.MUL { // load
					if fa, ok := x.X.(*ssa.FieldAddr); ok {
						si.opt = si.opt || fromOption(fa.X)
						return
					}
					if al, ok := x.X.(*ssa.Alloc); ok {
						for _, ref := range *al.Referrers() {
							if st, ok := ref.(*ssa.Store); ok && st.Addr == al {
								slice(st.Val, si, seen, depth+1)
							}
						}
						return
					}
				}
				slice(x.X, si, seen, depth+1)
			case *ssa.Field:
				si.opt = si.opt || fromOption(x.X)
			case *ssa.Convert:
				slice(x.X, si, seen, depth+1)
			case *ssa.ChangeType:
				slice(x.X, si, seen, depth+1)
			case *ssa.Extract:
				if ta, ok := x.Tuple.(*ssa.TypeAssert); ok {
					slice(ta.X, si, seen, depth+1)
					return
				}
				if c, ok := x.Tuple.(*ssa.Call); ok {
					slice(c, si, seen, depth+1)
				}
			case *ssa.TypeAssert:
				slice(x.X, si, seen, depth+1)
			case *ssa.MakeInterface:
				slice(x.X, si, seen, depth+1)
			case *ssa.Call:
				name := calleeFullName(x)
				sf := staticCallee(x)
				switch {
				case name == "math.Abs":
					for _, a := range x.Call.Args {
						slice(a, si, seen, depth+1)
					}
				case sf != nil && sf.Origin() != nil && (sf.Origin().Name() == "getOption" || sf.Origin().Name() == "checkOption"):
					si.opt = true
				case sf != nil && fns[sf]:
					for _, ret := range returnsOf(sf) {
						for _, rv := range ret.Results {
							if isFloat(rv.Type()) {
								slice(rv, si, seen, depth+1)
							}
						}
					}
				default:
					if name == "" {
						name = valueName(x)
					}
					si.bad = append(si.bad, "call of "+name+" at "+w.Pos(x.Pos()))
					for _, a := range x.Call.Args {
						slice(a, si, seen, depth+1)
					}
				}
			}
		}
		full := 0
		for f := range fns {
			allInstrs(f, func(in ssa.Instruction) {
				bo, ok := in.(*ssa.BinOp)
				if !ok || !isFloat(bo.X.Type()) {
					return
				}
				switch bo.Op {
				case token.LSS, token.LEQ, token.GTR, token.GEQ, token.EQL, token.NEQ:
				default:
					return
				}
				si := &sliceInfo{}
				seen := map[ssa.Value]bool{}
				slice(bo.X, si, seen, 0)
				slice(bo.Y, si, seen, 0)
				if !(si.recv || si.arg) {
					return // a test on the option value alone
				}
				ckey := fmt.Sprintf("%s:compare#%d", key, full)
				if si.recv && si.arg && si.opt {
					full++
				}
				r.Check(len(si.bad) == 0, rule, ckey, w.Pos(bo.Pos()),
					"the numbers' distance is compared with the precision without rescaling (only +, -, negation, math.Abs, constant 0)",
					"the tolerance comparison is rescaled or rounded ("+strings.Join(si.bad, "; ")+"): some pair of numbers farther apart than eps is accepted, or one within eps rejected")
			})
		}
		r.Check(full > 0, rule, key+":distance-vs-precision", w.Pos(fn.Pos()),
			"a comparison depends on both numbers and on the precision option",
			"no comparison in the numeric Equals depends on both numbers and the precision option")
	}
	if n == 0 {
		r.Bad(rule, nt.tag+":numeric-node", "-", "no JsonNode implementation with a floating-point underlying type found")
	}
}

func isFloat(t types.Type) bool {
	b, ok := t.Underlying().(*types.Basic)
	return ok && b.Info()&types.IsFloat != 0
}

// fromOption: v is (a local holding) the result of getOption/checkOption.
func fromOption(v ssa.Value) bool {
	seen := map[ssa.Value]bool{}
	var rec func(v ssa.Value, d int) bool
	rec = func(v ssa.Value, d int) bool {
		if v == nil || seen[v] || d > 10 {
			return false
		}
		seen[v] = true
		switch x := v.(type) {
		case *ssa.Extract:
			return rec(x.Tuple, d+1)
		case *ssa.Call:
			sf := staticCallee(x)
			return sf != nil && sf.Origin() != nil && (sf.Origin().Name() == "getOption" || sf.Origin().Name() == "checkOption")
		case *ssa.Alloc:
			for _, ref := range *x.Referrers() {
				if st, ok := ref.(*ssa.Store); ok && st.Addr == x && rec(st.Val, d+1) {
					return true
				}
			}
		case *ssa.UnOp:
			return rec(x.X, d+1)
		case *ssa.Phi:
			for _, e := range x.Edges {
				if rec(e, d+1) {
					return true
				}
			}
		case *ssa.TypeAssert:
			return rec(x.X, d+1)
		case *ssa.ChangeType:
			return rec(x.X, d+1)
		case *ssa.FieldAddr:
			return rec(x.X, d+1)
		case *ssa.Field:
			return rec(x.X, d+1)
		}
		return false
	}
	return rec(v, 0)
}
