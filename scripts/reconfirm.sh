#!/bin/bash
# usage: reconfirm.sh <seed-dir>... — suite passes with the change, demo fails with it and passes without; prints one line each
for d in "$@"; do
  d=$(realpath $d); id=$(basename $d); p=${id%%-*}
  o=$(/verif/scripts/seedcheck.sh $d $p 2>&1)
  wo=$(echo "$o" | sed -n '/--- demo WITHOUT change/,/--- suite WITH change/p')
  su=$(echo "$o" | sed -n '/--- suite WITH change/,/--- demo WITH change/p')
  wi=$(echo "$o" | sed -n '/--- demo WITH change/,/--- check/p')
  s_ok=no; echo "$su" | grep -q "not passing now 0" && s_ok=yes
  wo_ok=no; (echo "$wo" | grep -q "^ok" && ! echo "$wo" | grep -q "FAIL") && wo_ok=yes
  wi_fail=no; echo "$wi" | grep -q "FAIL" && wi_fail=yes
  news=$(echo "$o" | grep -c "   NEW \[")
  echo "$id suite_ok=$s_ok demo_passes_without=$wo_ok demo_fails_with=$wi_fail NEW=$news $(echo "$o" | grep -m1 '   NEW \[' | cut -c1-90)"
done
