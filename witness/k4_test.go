package wit
import ("testing"; jd "github.com/josephburnett/jd/v2")
func TestK4(t *testing.T){
  // a context test that looks at a different array than the one edited
  p:=`[{"op":"test","path":"/a/0","value":1},{"op":"add","path":"/b/1","value":2}]`
  d,err:=jd.ReadPatchString(p)
  if err!=nil { return } // stricter than the RFC is fine
  r,err:=rd(`{"a":[9],"b":[1]}`).Patch(d)
  if err==nil { t.Errorf("RFC 6902 fails (test /a/0 == 1 is false) but jd applied it: %v", r.Json()) }
  // own output still reads and applies
  a,b:=rd(`{"x":[1,2,3],"y":[1]}`),rd(`{"x":[1,4,3],"y":[1,5]}`)
  ps,_:=a.Diff(b).RenderPatch()
  d,err=jd.ReadPatchString(ps); if err!=nil {t.Fatal(err)}
  r,err=a.Patch(d); if err!=nil || !r.Equals(b) { t.Errorf("own patch: %v %v",err,ps) }
}
