package main

import (
	"fmt"
	"go/constant"
	"go/token"
	"go/types"
	"sort"
	"strings"

	"golang.org/x/tools/go/ssa"
)

// R-AUTOMATON — the native reader is a finite automaton: extract its
// transition / flush / field-effect table from the SSA of readDiff by
// evaluating one loop iteration under every (state constant, header
// character) pair with assumption-pruned reachability, extract the writer's
// line grammar from DiffElement.Render the same way, and check that every
// hunk sequence the writer can emit (restricted to the shapes C02 names) is
// accepted with exactly one flush per hunk and the right field effect per
// line.

// pruned reachability -----------------------------------------------------

// known returns (value, true) when the assumptions determine cond.
type condOracle func(cond ssa.Value) (bool, bool)

// reachPruned: blocks reachable from `from`, not following edges the oracle
// rules out, not entering `stop`; returns the set and the edges into stop.
func reachPruned(from *ssa.BasicBlock, known condOracle, stop *ssa.BasicBlock) (map[*ssa.BasicBlock]bool, []Edge) {
	// narrowing: boolean phis (hoisted or short-circuit conditions) are decided
	// from the incoming edges that are feasible in the previous, larger, reach set
	reach, backs, _ := reachNarrowed(from, known, stop)
	return reach, backs
}

// reachNarrowed also returns the oracle extended by the decided boolean phis.
func reachNarrowed(from *ssa.BasicBlock, known condOracle, stop *ssa.BasicBlock) (map[*ssa.BasicBlock]bool, []Edge, condOracle) {
	reach, backs := reachPruned1(from, known, stop)
	ext := known
	for iter := 0; iter < 4; iter++ {
		prev := reach
		ext = func(cond ssa.Value) (bool, bool) {
			if v, k := known(cond); k {
				return v, true
			}
			return phiBool(cond, known, prev, 0)
		}
		r2, b2 := reachPruned1(from, ext, stop)
		if len(r2) == len(reach) && len(b2) == len(backs) {
			return r2, b2, ext
		}
		reach, backs = r2, b2
	}
	return reach, backs, ext
}

// phiBool: value of a boolean phi when all incoming edges that are feasible
// (predecessor in reach, branch towards the phi's block not ruled out) agree.
func phiBool(v ssa.Value, known condOracle, reach map[*ssa.BasicBlock]bool, depth int) (bool, bool) {
	phi, ok := v.(*ssa.Phi)
	if !ok || depth > 3 {
		return false, false
	}
	if b, isB := phi.Type().Underlying().(*types.Basic); !isB || b.Kind() != types.Bool {
		return false, false
	}
	var val, have bool
	for i, e := range phi.Edges {
		pred := phi.Block().Preds[i]
		if !reach[pred] {
			continue
		}
		if iff, isIf := pred.Instrs[len(pred.Instrs)-1].(*ssa.If); isIf {
			if cv, k := evalCond(iff.Cond, known); k {
				want := pred.Succs[0]
				if !cv {
					want = pred.Succs[1]
				}
				if want != phi.Block() {
					continue
				}
			}
		}
		var ev, ek bool
		if c, isC := constBool(e); isC {
			ev, ek = c, true
		} else if x, k := evalCond(e, known); k {
			ev, ek = x, true
		} else if x, k := phiBool(e, known, reach, depth+1); k {
			ev, ek = x, true
		}
		if !ek {
			return false, false
		}
		if have && ev != val {
			return false, false
		}
		val, have = ev, true
	}
	return val, have
}

func reachPruned1(from *ssa.BasicBlock, known condOracle, stop *ssa.BasicBlock) (map[*ssa.BasicBlock]bool, []Edge) {
	seen := map[*ssa.BasicBlock]bool{from: true}
	var backs []Edge
	work := []*ssa.BasicBlock{from}
	for len(work) > 0 {
		b := work[len(work)-1]
		work = work[:len(work)-1]
		feas := []bool{true, true}
		if iff, ok := b.Instrs[len(b.Instrs)-1].(*ssa.If); ok {
			if v, k := evalCond(iff.Cond, known); k {
				feas[0], feas[1] = v, !v
			}
		}
		for i, s := range b.Succs {
			if i < 2 && !feas[i] {
				continue
			}
			if s == stop {
				backs = append(backs, Edge{b, i})
				continue
			}
			if !seen[s] {
				seen[s] = true
				work = append(work, s)
			}
		}
	}
	return seen, backs
}

// withFacts extends an oracle by the guard-fact dataflow: a condition that
// contradicts what is known at its own block (e.g. len(x) < 0) is decided.
func withFacts(fn *ssa.Function, known condOracle) condOracle {
	fs := NewFacts(fn, nil)
	condBlock := map[ssa.Value]*ssa.BasicBlock{}
	for _, b := range fn.Blocks {
		if iff, ok := b.Instrs[len(b.Instrs)-1].(*ssa.If); ok {
			c := iff.Cond
			for {
				u, ok := c.(*ssa.UnOp)
				if !ok || u.Op != token.NOT {
					break
				}
				c = u.X
			}
			condBlock[c] = b
		}
	}
	return func(cond ssa.Value) (bool, bool) {
		if v, k := known(cond); k {
			return v, true
		}
		b := condBlock[cond]
		if b == nil {
			return false, false
		}
		st, reach := fs.At(b)
		if !reach {
			return false, false
		}
		_, okT := fs.applyCond(st, cond, true)
		_, okF := fs.applyCond(st, cond, false)
		if okT && !okF {
			return true, true
		}
		if okF && !okT {
			return false, true
		}
		return false, false
	}
}

func evalCond(cond ssa.Value, known condOracle) (bool, bool) {
	neg := false
	for {
		u, ok := cond.(*ssa.UnOp)
		if !ok || u.Op != token.NOT {
			break
		}
		cond = u.X
		neg = !neg
	}
	if v, k := known(cond); k {
		return v != neg, true
	}
	return false, false
}

// reader ------------------------------------------------------------------

type lineEffect struct {
	Field string // Before / Remove / Add / After / "" for none
	Kind  string // void | payload | reset | path | metadata
}

type transition struct {
	Reject   bool
	Next     int64
	Flushes  int
	Effects  []lineEffect
	Problems []string
}

type readerTable struct {
	states  []int64
	headers []string
	tr      map[int64]map[string]*transition
	end     map[int64]*transition // end of input: Reject / Flushes
	allowed map[int64]map[string]bool
}

func (tr *transition) String() string {
	if tr.Reject {
		return "reject"
	}
	var ef []string
	for _, e := range tr.Effects {
		ef = append(ef, e.Field+":"+e.Kind)
	}
	return fmt.Sprintf("->%d flush=%d [%s]", tr.Next, tr.Flushes, strings.Join(ef, ","))
}

func extractReader(w *World, pkg *ssa.Package) (*readerTable, []string) {
	fn := w.Func(pkg, "readDiff")
	h := newHunkType(pkg)
	ea := newErrAnalysis(w)
	var problems []string
	// the line loop: the loop whose header holds an int phi all of whose
	// non-self incoming values are constants (the state)
	var loop *Loop
	var statePhi, diffPhi *ssa.Phi
	for _, l := range loopsOf(fn) {
		for _, in := range l.Header.Instrs {
			phi, ok := in.(*ssa.Phi)
			if !ok {
				continue
			}
			if b, ok := phi.Type().Underlying().(*types.Basic); ok && b.Kind() == types.Int {
				// leaves of the phi web (through phis of continue/post blocks) are all constants
				consts := map[int64]bool{}
				allConst := true
				seen := map[ssa.Value]bool{}
				var leaves func(v ssa.Value)
				leaves = func(v ssa.Value) {
					if seen[v] {
						return
					}
					seen[v] = true
					if p, ok := v.(*ssa.Phi); ok {
						for _, e := range p.Edges {
							leaves(e)
						}
						return
					}
					if k, ok := constInt(v); ok {
						consts[k] = true
						return
					}
					allConst = false
				}
				leaves(phi)
				if allConst && len(consts) >= 3 {
					loop, statePhi = l, phi
				}
			}
		}
	}
	if loop == nil {
		infra("R-AUTOMATON: cannot find the reader's state variable (an int phi of constants at a loop header in readDiff)")
	}
	for _, in := range loop.Header.Instrs {
		if phi, ok := in.(*ssa.Phi); ok && types.Identical(phi.Type(), fn.Signature.Results().At(0).Type()) {
			diffPhi = phi
		}
	}
	_ = diffPhi // the result may also live in a captured cell; flushes are counted as sites
	// the pending element: local DiffElement
	var de *ssa.Alloc
	allInstrs(fn, func(in ssa.Instruction) {
		if a, ok := in.(*ssa.Alloc); ok && types.Identical(a.Type().(*types.Pointer).Elem(), h.named) {
			de = a
		}
	})
	if de == nil {
		infra("R-AUTOMATON: no local DiffElement in readDiff")
	}
	flush := flushSites(fn, de, fn.Signature.Results().At(0).Type())
	if len(flush) == 0 {
		infra("R-AUTOMATON: no site appends the pending element to the result in readDiff")
	}
	// header: the one-character prefix slice of the line, either held in a
	// cell (when a closure captures it) or used as a plain value
	var headerCell, errCell *ssa.Alloc
	var headerVal *ssa.Slice
	var allow *ssa.Function
	allInstrs(fn, func(in ssa.Instruction) {
		switch x := in.(type) {
		case *ssa.Slice:
			if x.High == nil {
				return
			}
			if k, ok := constInt(x.High); !ok || k != 1 {
				return
			}
			if x.Low != nil {
				if k, ok := constInt(x.Low); !ok || k != 0 {
					return
				}
			}
			if b, ok := x.X.Type().Underlying().(*types.Basic); !ok || b.Info()&types.IsString == 0 {
				return
			}
			headerVal = x
			for _, ref := range *x.Referrers() {
				if st, ok := ref.(*ssa.Store); ok && st.Val == ssa.Value(x) {
					if a, ok := st.Addr.(*ssa.Alloc); ok {
						headerCell = a
					}
				}
			}
		case *ssa.MakeClosure:
			for _, b := range x.Bindings {
				if a, ok := b.(*ssa.Alloc); ok && isErrorType(a.Type().(*types.Pointer).Elem()) {
					errCell = a
					allow = x.Fn.(*ssa.Function)
				}
			}
		}
	})
	if headerVal == nil {
		infra("R-AUTOMATON: cannot identify the line header (a one-character prefix of the line) in readDiff")
	}
	isHeaderLoad := func(v ssa.Value) bool {
		if v == ssa.Value(headerVal) {
			return true
		}
		u, ok := v.(*ssa.UnOp)
		return ok && headerCell != nil && u.Op == token.MUL && u.X == ssa.Value(headerCell)
	}
	// the transition validator, idiom B: membership of the header in a constant
	// table indexed by the state — slices.Contains(table[state], header) or
	// strings.Contains(table[state], header)
	var memberCall *ssa.Call
	var memberSets map[int64]map[string]bool
	if allow == nil {
		allInstrs(fn, func(in ssa.Instruction) {
			c, ok := in.(*ssa.Call)
			if !ok || len(c.Call.Args) != 2 || !isHeaderLoad(c.Call.Args[1]) {
				return
			}
			name := calleeFullName(c)
			byChar := false
			switch {
			case strings.HasPrefix(name, "slices.Contains"):
			case name == "strings.Contains":
				byChar = true
			case isMembershipHelper(staticCallee(c)):
			default:
				return
			}
			sets := stateTable(c.Call.Args[0], statePhi, byChar)
			if sets != nil {
				memberCall, memberSets = c, sets
			}
		})
	}
	if allow == nil && memberCall == nil {
		infra("R-AUTOMATON: cannot identify the transition validator in readDiff (neither a closure storing into an error cell nor a membership test of the header in a table indexed by the state)")
	}
	// idiom A: the allow closure is a membership test: its only store is a non-nil
	// error into the error cell, and the early return is guarded by
	// element == header
	if allow != nil {
		okAllow := false
		nStores := 0
		allInstrs(allow, func(in ssa.Instruction) {
			if st, ok := in.(*ssa.Store); ok {
				if _, isFree := st.Addr.(*ssa.FreeVar); !isFree {
					return
				}
				nStores++
				if c, ok := st.Val.(*ssa.Call); ok && calleeFullName(c) == "fmt.Errorf" {
					okAllow = true
				}
			}
		})
		if !okAllow || nStores != 1 {
			problems = append(problems, "the transition validator closure is no longer a plain membership test (one store of fmt.Errorf into the error cell)")
		}
	}
	// state constants
	stateSet := map[int64]bool{}
	{
		seen := map[ssa.Value]bool{}
		var leaves func(v ssa.Value)
		leaves = func(v ssa.Value) {
			if seen[v] {
				return
			}
			seen[v] = true
			if p, ok := v.(*ssa.Phi); ok {
				for _, e := range p.Edges {
					leaves(e)
				}
				return
			}
			if k, ok := constInt(v); ok {
				stateSet[k] = true
			}
		}
		leaves(statePhi)
	}
	allInstrs(fn, func(in ssa.Instruction) {
		if bo, ok := in.(*ssa.BinOp); ok && (bo.Op == token.EQL || bo.Op == token.NEQ) && bo.X == ssa.Value(statePhi) {
			if k, ok := constInt(bo.Y); ok {
				stateSet[k] = true
			}
		}
	})
	rt := &readerTable{tr: map[int64]map[string]*transition{}, end: map[int64]*transition{}, allowed: map[int64]map[string]bool{}}
	for k := range stateSet {
		rt.states = append(rt.states, k)
	}
	sort.Slice(rt.states, func(i, j int) bool { return rt.states[i] < rt.states[j] })
	// header alphabet: constants compared with the header + "other"
	hset := map[string]bool{}
	allInstrs(fn, func(in ssa.Instruction) {
		if bo, ok := in.(*ssa.BinOp); ok && bo.Op == token.EQL && isHeaderLoad(bo.X) {
			if s, ok := constString(bo.Y); ok {
				hset[s] = true
			}
		}
	})
	// allowed sets per state: the allow(...) call reachable under state == s
	for _, s := range rt.states {
		rt.allowed[s] = nil
	}
	// body entry: the block that computes the header
	bodyEntry := headerVal.Block()
	for h2 := range hset {
		rt.headers = append(rt.headers, h2)
	}
	sort.Strings(rt.headers)
	rt.headers = append(rt.headers, "?") // any other character
	for _, s := range rt.states {
		s := s
		stateKnown := withFacts(fn, func(cond ssa.Value) (bool, bool) {
			if bo, ok := cond.(*ssa.BinOp); ok && (bo.Op == token.EQL || bo.Op == token.NEQ) && bo.X == ssa.Value(statePhi) {
				if k, ok := constInt(bo.Y); ok {
					return (k == s) == (bo.Op == token.EQL), true
				}
			}
			// a predicate of the package applied to the state (a method on a named state type)
			if c, ok := cond.(*ssa.Call); ok && len(c.Call.Args) == 1 && strip(c.Call.Args[0]) == ssa.Value(statePhi) {
				if sf := staticCallee(c); sf != nil && sf.Blocks != nil && fnPkg(sf) == pkg.Pkg {
					if v, ok := evalIntPredicate(sf, s); ok {
						return v, true
					}
				}
			}
			return false, false
		})
		// which allow call is reachable for this state (before the error test)
		reach, _ := reachPruned(bodyEntry, stateKnown, loop.Header)
		var allowedSet map[string]bool
		if memberCall != nil {
			allowedSet = memberSets[s]
			if allowedSet == nil {
				allowedSet = map[string]bool{}
			}
			if !reach[memberCall.Block()] {
				allowedSet = nil // the membership test is not on this state's path: nothing is rejected by it
			}
		}
		for b := range reach {
			for _, in := range b.Instrs {
				c, ok := in.(*ssa.Call)
				if !ok || allow == nil {
					continue
				}
				if mc, ok := c.Call.Value.(*ssa.MakeClosure); !ok || mc.Fn != ssa.Value(allow) {
					continue
				}
				// only calls in the validation switch: those dominated by a state test… all of them are
				set := map[string]bool{}
				if sl, ok := c.Call.Args[0].(*ssa.Slice); ok {
					if a, ok := sl.X.(*ssa.Alloc); ok {
						for _, ref := range *a.Referrers() {
							if ia, ok := ref.(*ssa.IndexAddr); ok {
								for _, r2 := range *ia.Referrers() {
									if st, ok := r2.(*ssa.Store); ok {
										if str, ok := constString(st.Val); ok {
											set[str] = true
										}
									}
								}
							}
						}
					}
				}
				if allowedSet == nil {
					allowedSet = set
				} else {
					for k := range set {
						allowedSet[k] = true
					}
				}
			}
		}
		rt.allowed[s] = allowedSet
		rt.tr[s] = map[string]*transition{}
		for _, hd := range rt.headers {
			hd := hd
			rejectedByAllow := allowedSet != nil && !allowedSet[hd]
			known := func(cond ssa.Value) (bool, bool) {
				if v, k := stateKnown(cond); k {
					return v, true
				}
				if memberCall != nil && cond == ssa.Value(memberCall) {
					return !rejectedByAllow, true
				}
				if bo, ok := cond.(*ssa.BinOp); ok && (bo.Op == token.EQL || bo.Op == token.NEQ) {
					if isHeaderLoad(bo.X) {
						if str, ok := constString(bo.Y); ok {
							return (str == hd) == (bo.Op == token.EQL), true
						}
					}
					// transitionErr != nil
					if u, ok := bo.X.(*ssa.UnOp); ok && errCell != nil && u.Op == token.MUL && u.X == ssa.Value(errCell) && isNilConst(bo.Y) {
						return rejectedByAllow == (bo.Op == token.NEQ), true
					}
				}
				return false, false
			}
			tr := &transition{}
			reach, backs := reachPruned(bodyEntry, known, loop.Header)
			if len(backs) == 0 {
				tr.Reject = true
				// every reachable return must be an error
				for b := range reach {
					if ret, ok := b.Instrs[len(b.Instrs)-1].(*ssa.Return); ok && !ea.isErrorReturn(ret) {
						tr.Problems = append(tr.Problems, "a non-error return is reachable inside the line loop")
					}
				}
				rt.tr[s][hd] = tr
				continue
			}
			nexts := map[int64]bool{}
			flushes := map[int]bool{}
			nf, amb := countFlushSites(flush, bodyEntry, known, loop.Header, nil)
			if amb != "" {
				tr.Problems = append(tr.Problems, amb)
			}
			flushes[nf] = true
			for _, e := range backs {
				pi := -1
				for j, p := range loop.Header.Preds {
					if p == e.From {
						pi = j
					}
				}
				if pi < 0 {
					continue
				}
				var resolve func(v ssa.Value, depth int)
				resolve = func(v ssa.Value, depth int) {
					if v == ssa.Value(statePhi) {
						nexts[s] = true
						return
					}
					if k, ok := constInt(v); ok {
						nexts[k] = true
						return
					}
					if p, ok := v.(*ssa.Phi); ok && depth < 4 {
						for i, e := range p.Edges {
							pred := p.Block().Preds[i]
							if !reach[pred] {
								continue
							}
							if iff, isIf := pred.Instrs[len(pred.Instrs)-1].(*ssa.If); isIf {
								if cv, k := evalCond(iff.Cond, known); k {
									want := pred.Succs[0]
									if !cv {
										want = pred.Succs[1]
									}
									if want != p.Block() {
										continue
									}
								}
							}
							resolve(e, depth+1)
						}
						return
					}
					tr.Problems = append(tr.Problems, "next state is not a constant")
				}
				resolve(statePhi.Edges[pi], 0)
			}
			if len(nexts) != 1 || len(flushes) != 1 {
				tr.Problems = append(tr.Problems, fmt.Sprintf("transition is not a function of (state, header): next states %v, flush counts %v", nexts, flushes))
			}
			for k := range nexts {
				tr.Next = k
			}
			for k := range flushes {
				tr.Flushes = k
			}
			// field effects: stores into the pending element in blocks on a path to the back edge
			canBack := map[*ssa.BasicBlock]bool{}
			for _, e := range backs {
				canBack[e.From] = true
			}
			changed := true
			for changed {
				changed = false
				for b := range reach {
					if canBack[b] {
						continue
					}
					for _, sc := range b.Succs {
						if canBack[sc] && reach[sc] {
							canBack[b] = true
							changed = true
						}
					}
				}
			}
			var blocks []*ssa.BasicBlock
			for b := range reach {
				if canBack[b] {
					blocks = append(blocks, b)
				}
			}
			sort.Slice(blocks, func(i, j int) bool { return blocks[i].Index < blocks[j].Index })
			for _, b := range blocks {
				for _, in := range b.Instrs {
					st, ok := in.(*ssa.Store)
					if !ok {
						continue
					}
					fa, ok := st.Addr.(*ssa.FieldAddr)
					if !ok || fa.X != ssa.Value(de) {
						continue
					}
					tr.Effects = append(tr.Effects, classifyEffect(h, fa, st.Val, de))
				}
			}
			rt.tr[s][hd] = tr
		}
		// end of input
		endBlock := (*ssa.BasicBlock)(nil)
		for _, sc := range loop.Header.Succs {
			if !loop.Blocks[sc] {
				endBlock = sc
			}
		}
		et := &transition{}
		if endBlock != nil {
			reach, _ := reachPruned(endBlock, stateKnown, nil)
			okRet := 0
			counts := map[int]bool{}
			for b := range reach {
				ret, ok := b.Instrs[len(b.Instrs)-1].(*ssa.Return)
				if !ok || ea.isErrorReturn(ret) {
					continue
				}
				// success or data-error; count flushes on the success value
				if isNilErrReturn(ret) {
					okRet++
					nf, amb := countFlushSites(flush, endBlock, stateKnown, nil, ret.Block())
					if amb != "" {
						et.Problems = append(et.Problems, amb)
					}
					et.Flushes = nf
					counts[et.Flushes] = true
				}
			}
			if len(counts) > 1 {
				et.Problems = append(et.Problems, fmt.Sprintf("end of input in state %d can flush %v times depending on data", s, counts))
			}
			et.Reject = okRet == 0
		}
		rt.end[s] = et
	}
	return rt, problems
}

// countFlushes: how many append(diff, element) separate v from the loop phi.
func countFlushes(v ssa.Value, diffPhi *ssa.Phi, known condOracle, seen map[ssa.Value]bool) int {
	return countFlushesIn(v, diffPhi, known, nil, seen)
}

func countFlushesIn(v ssa.Value, diffPhi *ssa.Phi, known condOracle, reach map[*ssa.BasicBlock]bool, seen map[ssa.Value]bool) int {
	v = strip(v)
	if v == ssa.Value(diffPhi) {
		return 0
	}
	if seen[v] {
		return 0
	}
	seen[v] = true
	switch x := v.(type) {
	case *ssa.Call:
		if b, ok := x.Call.Value.(*ssa.Builtin); ok && b.Name() == "append" {
			return 1 + countFlushesIn(x.Call.Args[0], diffPhi, known, reach, seen)
		}
	case *ssa.Phi:
		// inner phi (if/else join): take the edge whose predecessor is feasible
		best := -1
		for i, e := range x.Edges {
			pred := x.Block().Preds[i]
			feasible := true
			// the edge pred -> block is infeasible if pred ends in a known condition pointing elsewhere
			if iff, ok := pred.Instrs[len(pred.Instrs)-1].(*ssa.If); ok {
				if val, k := evalCond(iff.Cond, known); k {
					want := pred.Succs[0]
					if !val {
						want = pred.Succs[1]
					}
					if want != x.Block() {
						feasible = false
					}
				}
			}
			if reach != nil && !reach[pred] {
				feasible = false
			}
			if !feasible || !predFeasible(pred, known, map[*ssa.BasicBlock]bool{}) {
				continue
			}
			n := countFlushesIn(e, diffPhi, known, reach, seen)
			if n > best {
				best = n
			}
		}
		if best >= 0 {
			return best
		}
	}
	return 0
}

// predFeasible: block b can be entered under the oracle (some predecessor
// edge into it is not ruled out), looking one level up.
func predFeasible(b *ssa.BasicBlock, known condOracle, seen map[*ssa.BasicBlock]bool) bool {
	if seen[b] || len(b.Preds) == 0 {
		return true
	}
	seen[b] = true
	for _, p := range b.Preds {
		ok := true
		if iff, isIf := p.Instrs[len(p.Instrs)-1].(*ssa.If); isIf {
			if val, k := evalCond(iff.Cond, known); k {
				want := p.Succs[0]
				if !val {
					want = p.Succs[1]
				}
				if want != b {
					ok = false
				}
			}
		}
		if ok {
			return true
		}
	}
	return false
}

func classifyEffect(h *hunkType, fa *ssa.FieldAddr, val ssa.Value, de *ssa.Alloc) lineEffect {
	name := ""
	for n, i := range h.fields {
		if i == fa.Field {
			name = n
		}
	}
	val = strip(val)
	switch name {
	case "Path":
		return lineEffect{"Path", "path"}
	case "Metadata":
		return lineEffect{"Metadata", "metadata"}
	}
	if isEmptySlice(val) {
		return lineEffect{name, "reset"}
	}
	if c, ok := val.(*ssa.Call); ok {
		if b, ok := c.Call.Value.(*ssa.Builtin); ok && b.Name() == "append" && len(c.Call.Args) == 2 {
			// base must be the same field of the pending element
			baseOK := false
			if ld, ok := strip(c.Call.Args[0]).(*ssa.UnOp); ok && ld.Op == token.MUL {
				if bfa, ok := ld.X.(*ssa.FieldAddr); ok && bfa.X == ssa.Value(de) && bfa.Field == fa.Field {
					baseOK = true
				}
			}
			el := singleVariadicOfSlice(c.Call.Args[1])
			kind := "unknown"
			if el != nil {
				el = strip(el)
				switch y := el.(type) {
				case *ssa.Const:
					if typeName(y.Type()) == "voidNode" {
						kind = "void"
					}
				case *ssa.Extract:
					if cc, ok := y.Tuple.(*ssa.Call); ok && y.Index == 0 {
						if sf := staticCallee(cc); sf != nil && strings.HasPrefix(sf.Name(), "ReadJson") {
							kind = "payload"
						}
					}
				}
			}
			if !baseOK {
				kind = "overwrite:" + kind
			}
			return lineEffect{name, kind}
		}
	}
	return lineEffect{name, "unknown"}
}

// writer ------------------------------------------------------------------

type writerTable struct {
	order  []string                     // field traversal order
	header map[string]map[string]string // field -> kind(void|value|void+merge) -> header char ("" = nothing printed)
	meta   string                       // header of the metadata line
	path   string                       // header of the path line
}

func extractWriter(w *World, pkg *ssa.Package) (*writerTable, []string) {
	fn := w.Method(pkg, "DiffElement", "Render")
	h := newHunkType(pkg)
	var problems []string
	wt := &writerTable{header: map[string]map[string]string{}}
	recv := fn.Params[0]
	_ = recv
	// the value receiver is spilled: find the alloc holding it
	var self *ssa.Alloc
	allInstrs(fn, func(in ssa.Instruction) {
		if st, ok := in.(*ssa.Store); ok && st.Val == ssa.Value(fn.Params[0]) {
			if a, ok := st.Addr.(*ssa.Alloc); ok {
				self = a
			}
		}
	})
	if self == nil {
		infra("R-AUTOMATON: Render's receiver copy not found")
	}
	// isMerge / isColor values
	var isColor, isMerge ssa.Value
	allInstrs(fn, func(in ssa.Instruction) {
		c, ok := in.(*ssa.Call)
		if !ok {
			return
		}
		sf := staticCallee(c)
		if sf == nil || sf.Origin() == nil || sf.Origin().Name() != "checkOption" {
			return
		}
		switch typeName(sf.TypeArgs()[0]) {
		case "colorOption":
			isColor = c
		case "mergeOption":
			isMerge = c
		}
	})
	// loops over the element's list fields, in dominance order
	type floop struct {
		field string
		l     *Loop
	}
	var fl []floop
	wloops := loopsOf(fn)
	for _, l := range wloops {
		for b := range l.Blocks {
			for _, in := range b.Instrs {
				ia, ok := in.(*ssa.IndexAddr)
				if !ok {
					continue
				}
				root, sel := accessPath(ia.X)
				_ = root
				s := selString(sel)
				for _, f := range []string{"Before", "Remove", "Add", "After"} {
					if s == "."+f {
						dup := false
						for _, e := range fl {
							if e.field == f {
								dup = true
							}
						}
						if !dup && innermostLoop(wloops, b) == l {
							fl = append(fl, floop{f, l})
						}
					}
				}
			}
		}
	}
	sort.Slice(fl, func(i, j int) bool { return fl[i].l.Header.Dominates(fl[j].l.Header) && fl[i].l != fl[j].l })
	for _, e := range fl {
		wt.order = append(wt.order, e.field)
	}
	headerOf := func(l *Loop, void, merge bool) string {
		known := func(cond ssa.Value) (bool, bool) {
			if c, ok := cond.(*ssa.Call); ok {
				if sf := staticCallee(c); sf != nil && w.helperIs(sf, "isVoid") {
					return void, true
				}
			}
			if isColor != nil && cond == isColor {
				return false, true
			}
			if isMerge != nil && cond == isMerge {
				return merge, true
			}
			// isMerge := checkOption(...) || d.Metadata.Merge lowers to a phi
			if phi, ok := cond.(*ssa.Phi); ok && isMerge != nil {
				for _, e := range phi.Edges {
					if e == isMerge {
						return merge, true
					}
				}
			}
			if u, ok := cond.(*ssa.UnOp); ok && u.Op == token.MUL {
				if _, sel := accessPath(u); selString(sel) == ".Metadata.Merge" {
					return merge, true
				}
			}
			return false, false
		}
		var entry *ssa.BasicBlock
		for _, s := range l.Header.Succs {
			if l.Blocks[s] {
				entry = s
			}
		}
		reach, _ := reachPruned(entry, known, l.Header)
		got := map[string]bool{}
		for b := range reach {
			if !l.Blocks[b] {
				continue
			}
			for _, in := range b.Instrs {
				c, ok := in.(*ssa.Call)
				if !ok {
					continue
				}
				for _, s := range writtenLiterals(c) {
					if len(s) > 0 && s[0] != '\n' && s[0] != 0x1b {
						got[s[:1]] = true
					}
				}
			}
		}
		ks := sortedKeys(got)
		if len(ks) > 1 {
			problems = append(problems, fmt.Sprintf("more than one line-leading literal on one path of the %v loop: %v", l.Header, ks))
		}
		if len(ks) == 0 {
			return ""
		}
		return ks[0]
	}
	for _, e := range fl {
		wt.header[e.field] = map[string]string{
			"void":       headerOf(e.l, true, false),
			"void+merge": headerOf(e.l, true, true),
			"value":      headerOf(e.l, false, false),
		}
	}
	// path line and metadata line
	allInstrs(fn, func(in ssa.Instruction) {
		c, ok := in.(*ssa.Call)
		if !ok || len(c.Call.Args) < 2 || !strings.HasSuffix(calleeFullName(c), ".WriteString") {
			return
		}
		if innermostLoop(wloops, c.Block()) != nil {
			return
		}
		if s, ok := constString(c.Call.Args[1]); ok && len(s) > 0 && s[0] != '\n' {
			wt.path = s[:1]
		}
	})
	if mr := w.MethodOpt(pkg, "Metadata", "Render"); mr != nil {
		if rf := pkg.Func("renderMetadataField"); rf != nil {
			allInstrs(rf, func(in ssa.Instruction) {
				if c, ok := in.(*ssa.Call); ok && calleeFullName(c) == "fmt.Sprintf" {
					if s, ok := constString(c.Call.Args[0]); ok && len(s) > 0 {
						wt.meta = s[:1]
					}
				}
			})
		}
	}
	_ = h
	return wt, problems
}

// the rule ----------------------------------------------------------------

func ruleAutomaton(w *World, r *Report, pkg *ssa.Package) {
	const rule = "R-AUTOMATON"
	rt, rprob := extractReader(w, pkg)
	wt, wprob := extractWriter(w, pkg)
	fn := w.Func(pkg, "readDiff")
	r.Fn(fnName(fn))
	r.Fn(fnName(w.Method(pkg, "DiffElement", "Render")))
	pos := w.Pos(fn.Pos())
	for _, p := range append(rprob, wprob...) {
		r.Unk(rule, "extraction:"+keyHash(p), pos, p)
	}
	if len(rt.states) < 7 || len(rt.headers) < 8 {
		infra("R-AUTOMATON: extracted %d states and %d header classes; at least 7 and 8 expected", len(rt.states), len(rt.headers))
	}
	// table rows as obligations: resolved, deterministic
	table := map[string]string{}
	for _, s := range rt.states {
		for _, hd := range rt.headers {
			tr := rt.tr[s][hd]
			key := fmt.Sprintf("readDiff:(%d,%q)", s, hd)
			table[key] = tr.String()
			if len(tr.Problems) > 0 {
				r.Unk(rule, key, pos, "transition cannot be resolved: "+strings.Join(tr.Problems, "; "))
			} else {
				r.Ok(rule, key, pos, "transition "+tr.String())
			}
		}
	}
	for _, s := range rt.states {
		if et := rt.end[s]; et != nil && len(et.Problems) > 0 {
			r.Unk(rule, fmt.Sprintf("readDiff:end(%d)", s), pos, strings.Join(et.Problems, "; "))
		}
	}
	// writer table sanity
	wantOrder := "Before,Remove,Add,After"
	r.Check(strings.Join(wt.order, ",") == wantOrder, rule, "Render:field-order", w.Pos(w.Method(pkg, "DiffElement", "Render").Pos()),
		"the writer prints Before, Remove, Add, After in that order", fmt.Sprintf("the writer traverses the hunk's lists in the order %v; the reader's states expect %s", wt.order, wantOrder))
	// every line-leading literal of the writer has a reader arm
	hasArm := map[string]bool{}
	for _, hd := range rt.headers {
		hasArm[hd] = true
	}
	lits := map[string]bool{wt.meta: true, wt.path: true}
	for _, m := range wt.header {
		for _, v := range m {
			if v != "" {
				lits[v] = true
			}
		}
	}
	for _, l := range sortedKeys(lits) {
		if l == "" {
			continue
		}
		r.Check(hasArm[l], rule, fmt.Sprintf("writer-literal:%q", l), pos, "the reader has an arm for this line header", fmt.Sprintf("the writer starts lines with %q but the reader has no arm for it", l))
	}
	// product: every hunk sequence of the restricted writer grammar
	type line struct {
		hd    string
		field string
		kind  string
	}
	var shapes [][]line
	// context forms: what Diff emits (absent / boundary / one value) and the multi-line forms of
	// hand-edited patches that the reader accepts and doc/v2.md shows ([ then a value, two values; a value then ], two values)
	ctxB := []string{"absent", "void", "value", "void+value", "value+value"}
	ctxA := []string{"absent", "void", "value", "value+void", "value+value"}
	for _, merge := range []bool{false, true} {
		for _, bf := range ctxB {
			for _, af := range ctxA {
				for nr := 0; nr <= 2; nr++ {
					for na := 0; na <= 2; na++ {
						for _, voidAdd := range []bool{false, true} {
							if nr+na == 0 {
								continue
							}
							if voidAdd && (na != 1 || !merge) {
								continue // a void addition is printed only by merge hunks ("+" alone)
							}
							if merge && (bf != "absent" || af != "absent" || nr != 0) {
								continue // merge hunks carry no context and no removals
							}
							var ls []line
							if merge {
								ls = append(ls, line{wt.meta, "Metadata", "metadata"})
							}
							ls = append(ls, line{wt.path, "Path", "path"})
							if bf != "absent" {
								for _, k := range strings.Split(bf, "+") {
									ls = append(ls, line{wt.header["Before"][k], "Before", map[string]string{"void": "void", "value": "payload"}[k]})
								}
							}
							for i := 0; i < nr; i++ {
								ls = append(ls, line{wt.header["Remove"]["value"], "Remove", "payload"})
							}
							for i := 0; i < na; i++ {
								if voidAdd {
									ls = append(ls, line{wt.header["Add"]["void+merge"], "Add", "payload"})
								} else {
									ls = append(ls, line{wt.header["Add"]["value"], "Add", "payload"})
								}
							}
							if af != "absent" {
								for _, k := range strings.Split(af, "+") {
									ls = append(ls, line{wt.header["After"][k], "After", map[string]string{"void": "void", "value": "payload"}[k]})
								}
							}
							shapes = append(shapes, ls)
						}
					}
				}
			}
		}
	}
	init := rt.states[0]
	failures := map[string]string{}
	nSeq := 0
	run := func(seq [][]line) {
		nSeq++
		st := init
		fl := 0
		desc := func() string {
			var parts []string
			for _, hk := range seq {
				var s string
				for _, l := range hk {
					s += l.hd
				}
				parts = append(parts, s)
			}
			return strings.Join(parts, " | ")
		}
		for _, hk := range seq {
			for _, l := range hk {
				if l.hd == "" {
					failures["writer prints nothing for a "+l.field+" "+l.kind+" line"] = desc()
					return
				}
				tr := rt.tr[st][l.hd]
				if tr == nil {
					tr = rt.tr[st]["?"]
				}
				if tr == nil || tr.Reject {
					failures[fmt.Sprintf("state %d rejects header %q which the writer emits there", st, l.hd)] = desc()
					return
				}
				// field effect of this line
				okEff := false
				for _, e := range tr.Effects {
					if e.Field == l.field && (e.Kind == l.kind) {
						okEff = true
					}
				}
				if l.kind == "path" {
					// @ must reset the four lists
					resets := map[string]bool{}
					for _, e := range tr.Effects {
						if e.Kind == "reset" {
							resets[e.Field] = true
						}
					}
					for _, f := range []string{"Before", "Remove", "Add", "After"} {
						if !resets[f] {
							failures[fmt.Sprintf("the path line in state %d does not reset %s: a stale value leaks into the next hunk", st, f)] = desc()
						}
					}
				} else {
					for _, e := range tr.Effects {
						if e.Field != l.field {
							failures[fmt.Sprintf("a %q line in state %d also changes %s", l.hd, st, e.Field)] = desc()
						}
					}
				}
				if !okEff {
					failures[fmt.Sprintf("a %q line in state %d does not append the %s to %s (effects: %v)", l.hd, st, l.kind, l.field, tr.Effects)] = desc()
				}
				fl += tr.Flushes
				st = tr.Next
			}
		}
		et := rt.end[st]
		if et == nil || et.Reject {
			failures[fmt.Sprintf("input may not end in state %d, where the writer's output ends", st)] = desc()
			return
		}
		fl += et.Flushes
		if fl != len(seq) {
			failures[fmt.Sprintf("%d hunks written, %d hunks read back (a pending hunk is dropped or duplicated)", len(seq), fl)] = desc()
		}
	}
	// strict hunks may be followed by merge hunks, not the other way round (metadata is inherited)
	isMergeShape := func(s []line) bool { return len(s) > 0 && s[0].kind == "metadata" }
	for _, a := range shapes {
		run([][]line{a})
		for _, b := range shapes {
			if isMergeShape(a) && !isMergeShape(b) {
				continue
			}
			run([][]line{a, b})
		}
	}
	// length 3 on a reduced set (every third shape) keeps the product small
	for i := 0; i < len(shapes); i += 3 {
		for j := 1; j < len(shapes); j += 3 {
			for k := 2; k < len(shapes); k += 3 {
				a, b, c := shapes[i], shapes[j], shapes[k]
				if (isMergeShape(a) && !isMergeShape(b)) || (isMergeShape(b) && !isMergeShape(c)) {
					continue
				}
				run([][]line{a, b, c})
			}
		}
	}
	r.Note("R-AUTOMATON: %d states x %d header classes extracted; %d hunk shapes, %d hunk sequences simulated; table: %v", len(rt.states), len(rt.headers), len(shapes), nSeq, table)
	if len(failures) == 0 {
		r.Ok(rule, "product:writer-grammar-accepted-and-flushed-once", pos, fmt.Sprintf("all %d sequences of up to 3 hunks over %d hunk shapes are accepted, every hunk is flushed exactly once and every line has the field effect the writer means", nSeq, len(shapes)))
	} else {
		for _, k := range sortedKeys(failures) {
			r.Bad(rule, "product:"+k, pos, "the reader does not carry what the writer emits: "+k+" — e.g. line headers "+failures[k])
		}
	}
	_ = constant.MakeBool
}

// flushSites: instructions of fn that append the pending element (a load of
// de) to a value of the result type — directly, or by calling a local closure
// whose body does so.
func flushSites(fn *ssa.Function, de *ssa.Alloc, resT types.Type) map[ssa.Instruction]bool {
	out := map[ssa.Instruction]bool{}
	isFlushAppend := func(f *ssa.Function, in ssa.Instruction) bool {
		c, ok := in.(*ssa.Call)
		if !ok {
			return false
		}
		b, ok := c.Call.Value.(*ssa.Builtin)
		if !ok || b.Name() != "append" || len(c.Call.Args) != 2 || !types.Identical(c.Type(), resT) {
			return false
		}
		el := singleVariadicOfSlice(c.Call.Args[1])
		if el == nil {
			return false
		}
		ld, ok := strip(el).(*ssa.UnOp)
		if !ok || ld.Op != token.MUL {
			return false
		}
		switch x := ld.X.(type) {
		case *ssa.Alloc:
			return x == de
		case *ssa.FreeVar:
			// bound to de in the enclosing function
			for i, fv := range f.FreeVars {
				if fv != x {
					continue
				}
				bound := false
				allInstrs(fn, func(in2 ssa.Instruction) {
					if mc, ok := in2.(*ssa.MakeClosure); ok && mc.Fn == ssa.Value(f) && i < len(mc.Bindings) && mc.Bindings[i] == ssa.Value(de) {
						bound = true
					}
				})
				return bound
			}
		}
		return false
	}
	flushing := map[*ssa.Function]bool{}
	for _, cl := range fn.AnonFuncs {
		allInstrs(cl, func(in ssa.Instruction) {
			if isFlushAppend(cl, in) {
				flushing[cl] = true
			}
		})
	}
	allInstrs(fn, func(in ssa.Instruction) {
		if isFlushAppend(fn, in) {
			out[in] = true
		}
		if c, ok := in.(*ssa.Call); ok {
			if sf := staticCallee(c); sf != nil && flushing[sf] {
				out[in] = true
			}
			// a function of the package that is handed the pending element and appends that parameter to
			// a list of the result type (benign E-r1: check-and-append extracted into a helper)
			if sf := staticCallee(c); sf != nil && sf.Blocks != nil && sf.Parent() == nil && fnPkg(sf) == fnPkg(fn) {
				for i, a := range c.Call.Args {
					ld, ok := strip(a).(*ssa.UnOp)
					if !ok || ld.Op != token.MUL || ld.X != ssa.Value(de) || i >= len(sf.Params) {
						continue
					}
					allInstrs(sf, func(in2 ssa.Instruction) {
						c2, ok := in2.(*ssa.Call)
						if !ok {
							return
						}
						b, ok := c2.Call.Value.(*ssa.Builtin)
						if !ok || b.Name() != "append" || len(c2.Call.Args) != 2 || !types.Identical(c2.Type(), resT) {
							return
						}
						if el := singleVariadicOfSlice(c2.Call.Args[1]); el != nil && strip(el) == ssa.Value(sf.Params[i]) {
							out[in] = true
						}
					})
				}
			}
		}
	})
	return out
}

// countFlushSites: number of flush sites that lie on every pruned path from
// `from` to the stop block (loop header) or to the target block; a site on
// some but not all such paths makes the count ambiguous.
func countFlushSites(flush map[ssa.Instruction]bool, from *ssa.BasicBlock, known0 condOracle, stop, target *ssa.BasicBlock) (int, string) {
	reach, backs, known := reachNarrowed(from, known0, stop)
	goal := func(r map[*ssa.BasicBlock]bool, bk []Edge) bool {
		if stop != nil {
			return len(bk) > 0
		}
		return r[target]
	}
	// blocks from which the goal is reachable (within the pruned graph)
	can := map[*ssa.BasicBlock]bool{}
	if stop != nil {
		for _, e := range backs {
			can[e.From] = true
		}
	} else if reach[target] {
		can[target] = true
	}
	for changed := true; changed; {
		changed = false
		for b := range reach {
			if can[b] {
				continue
			}
			feas := []bool{true, true}
			if iff, ok := b.Instrs[len(b.Instrs)-1].(*ssa.If); ok {
				if v, k := evalCond(iff.Cond, known); k {
					feas[0], feas[1] = v, !v
				}
			}
			for i, sc := range b.Succs {
				if i < 2 && !feas[i] {
					continue
				}
				if can[sc] && reach[sc] {
					can[b] = true
					changed = true
				}
			}
		}
	}
	n := 0
	for in := range flush {
		b := in.Block()
		if !reach[b] || !can[b] {
			continue
		}
		// is b on every path? remove b and see whether the goal is still reachable
		if b != from {
			without := func(cond ssa.Value) (bool, bool) { return known(cond) }
			r2, bk2 := reachPrunedAvoid(from, without, stop, b)
			if goal(r2, bk2) {
				return n, fmt.Sprintf("a flush of the pending hunk at block %d is on some but not all paths", b.Index)
			}
		}
		n++
	}
	return n, ""
}

// reachPrunedAvoid: like reachPruned but never enters block avoid.
func reachPrunedAvoid(from *ssa.BasicBlock, known condOracle, stop, avoid *ssa.BasicBlock) (map[*ssa.BasicBlock]bool, []Edge) {
	seen := map[*ssa.BasicBlock]bool{from: true}
	var backs []Edge
	work := []*ssa.BasicBlock{from}
	for len(work) > 0 {
		b := work[len(work)-1]
		work = work[:len(work)-1]
		feas := []bool{true, true}
		if iff, ok := b.Instrs[len(b.Instrs)-1].(*ssa.If); ok {
			if v, k := evalCond(iff.Cond, known); k {
				feas[0], feas[1] = v, !v
			}
		}
		for i, s := range b.Succs {
			if i < 2 && !feas[i] {
				continue
			}
			if s == avoid {
				continue
			}
			if s == stop {
				backs = append(backs, Edge{b, i})
				continue
			}
			if !seen[s] {
				seen[s] = true
				work = append(work, s)
			}
		}
	}
	return seen, backs
}

// writtenLiterals: constant strings a call writes into a buffer: WriteString
// with a constant, or an in-package helper that is handed a constant string
// which the helper passes to WriteString.
func writtenLiterals(c *ssa.Call) []string {
	if strings.HasSuffix(calleeFullName(c), ".WriteString") && len(c.Call.Args) >= 2 {
		if s, ok := constString(c.Call.Args[1]); ok {
			return []string{s}
		}
		return nil
	}
	sf := staticCallee(c)
	if sf == nil || sf.Blocks == nil || sf.Parent() != nil {
		return nil
	}
	var out []string
	for i, a := range c.Call.Args {
		s, ok := constString(a)
		if !ok || i >= len(sf.Params) {
			continue
		}
		p := sf.Params[i]
		writes := false
		allInstrs(sf, func(in ssa.Instruction) {
			if cc, ok := in.(*ssa.Call); ok && strings.HasSuffix(calleeFullName(cc), ".WriteString") && len(cc.Call.Args) >= 2 && strip(cc.Call.Args[1]) == ssa.Value(p) {
				writes = true
			}
		})
		if writes {
			out = append(out, s)
		}
	}
	return out
}

// stateTable resolves v = table[state] where table is a constant table of
// string sets built in the function (array / slice / map literal of string
// slices, or of strings when byChar) and returns state → set; nil when v is
// not such a lookup.
func stateTable(v ssa.Value, statePhi *ssa.Phi, byChar bool) map[int64]map[string]bool {
	isState := func(x ssa.Value) bool {
		for {
			if c, ok := x.(*ssa.Convert); ok {
				x = c.X
				continue
			}
			if c, ok := x.(*ssa.ChangeType); ok {
				x = c.X
				continue
			}
			break
		}
		return x == ssa.Value(statePhi)
	}
	var tbl ssa.Value
	switch x := v.(type) {
	case *ssa.UnOp:
		if x.Op != token.MUL {
			return nil
		}
		ia, ok := x.X.(*ssa.IndexAddr)
		if !ok || !isState(ia.Index) {
			return nil
		}
		tbl = ia.X
	case *ssa.Index:
		if !isState(x.Index) {
			return nil
		}
		tbl = x.X
	case *ssa.Lookup:
		if !isState(x.Index) || x.CommaOk {
			return nil
		}
		tbl = x.X
	default:
		return nil
	}
	entry := func(val ssa.Value) (map[string]bool, bool) {
		set := map[string]bool{}
		if byChar {
			s, ok := constString(val)
			if !ok {
				return nil, false
			}
			for _, r := range s {
				set[string(r)] = true
			}
			return set, true
		}
		sl, ok := val.(*ssa.Slice)
		if !ok {
			if isNilConst(val) {
				return set, true
			}
			return nil, false
		}
		a, ok := sl.X.(*ssa.Alloc)
		if !ok {
			return nil, false
		}
		for _, ref := range *a.Referrers() {
			switch r := ref.(type) {
			case *ssa.IndexAddr:
				for _, r2 := range *r.Referrers() {
					st, ok := r2.(*ssa.Store)
					if !ok {
						return nil, false
					}
					str, ok := constString(st.Val)
					if !ok {
						return nil, false
					}
					set[str] = true
				}
			case *ssa.Slice:
			default:
				return nil, false
			}
		}
		return set, true
	}
	out := map[int64]map[string]bool{}
	// peel a slice of a backing array / a load of a local cell holding the table
	for {
		if sl, ok := tbl.(*ssa.Slice); ok {
			tbl = sl.X
			continue
		}
		break
	}
	switch t := tbl.(type) {
	case *ssa.Alloc:
		var fill func(a *ssa.Alloc, depth int) bool
		fill = func(a *ssa.Alloc, depth int) bool {
			for _, ref := range *a.Referrers() {
				switch r := ref.(type) {
				case *ssa.IndexAddr:
					k, isK := constInt(r.Index)
					for _, r2 := range *r.Referrers() {
						st, ok := r2.(*ssa.Store)
						if !ok {
							continue // the lookup itself (a load)
						}
						if !isK {
							return false
						}
						set, ok := entry(st.Val)
						if !ok {
							return false
						}
						out[k] = set
					}
				case *ssa.Store:
					// whole-array initialisation from a composite literal: *a = *lit
					if r.Addr != ssa.Value(a) {
						return false
					}
					u, ok := r.Val.(*ssa.UnOp)
					if !ok || u.Op != token.MUL || depth > 1 {
						return false
					}
					lit, ok := u.X.(*ssa.Alloc)
					if !ok || !fill(lit, depth+1) {
						return false
					}
				case *ssa.Slice, *ssa.UnOp, *ssa.DebugRef:
				default:
					return false
				}
			}
			return true
		}
		if !fill(t, 0) {
			return nil
		}
	case *ssa.MakeMap:
		for _, ref := range *t.Referrers() {
			switch r := ref.(type) {
			case *ssa.MapUpdate:
				k, isK := constInt(r.Key)
				if !isK {
					return nil
				}
				set, ok := entry(r.Value)
				if !ok {
					return nil
				}
				out[k] = set
			case *ssa.Lookup:
			default:
				return nil
			}
		}
	default:
		return nil
	}
	if len(out) == 0 {
		return nil
	}
	return out
}

// isMembershipHelper: a package function (list []string, s string) bool that is
// a plain membership test: it returns the constant true only behind the true
// edge of `element of list == s`, the constant false otherwise, and does
// nothing else.
func isMembershipHelper(fn *ssa.Function) bool {
	if fn == nil || fn.Blocks == nil || len(fn.Params) != 2 || fn.Signature.Results().Len() != 1 {
		return false
	}
	list, str := fn.Params[0], fn.Params[1]
	if sl, ok := list.Type().Underlying().(*types.Slice); !ok || !isStringType(sl.Elem()) || !isStringType(str.Type()) {
		return false
	}
	plain := true
	var hitEdges []Edge
	for _, b := range fn.Blocks {
		for _, in := range b.Instrs {
			switch x := in.(type) {
			case ssa.CallInstruction:
				if bi, ok := x.Common().Value.(*ssa.Builtin); !ok || bi.Name() != "len" {
					plain = false
				}
			case *ssa.Store, *ssa.MapUpdate, *ssa.Go, *ssa.Defer, *ssa.Send:
				plain = false
			}
		}
		cond, tE, fE, ok := branchEdges(b)
		if !ok {
			continue
		}
		bo, ok := cond.(*ssa.BinOp)
		if !ok || (bo.Op != token.EQL && bo.Op != token.NEQ) {
			continue
		}
		isElem := func(v ssa.Value) bool {
			ld, ok := v.(*ssa.UnOp)
			if !ok || ld.Op != token.MUL {
				return false
			}
			ia, ok := ld.X.(*ssa.IndexAddr)
			return ok && ia.X == ssa.Value(list)
		}
		if (isElem(bo.X) && bo.Y == ssa.Value(str)) || (isElem(bo.Y) && bo.X == ssa.Value(str)) {
			if bo.Op == token.EQL {
				hitEdges = append(hitEdges, tE)
			} else {
				hitEdges = append(hitEdges, fE)
			}
		}
	}
	if !plain || len(hitEdges) == 0 {
		return false
	}
	sawTrue, sawFalse := false, false
	for _, ret := range returnsOf(fn) {
		v, ok := constBool(ret.Results[0])
		if !ok {
			return false
		}
		if v {
			sawTrue = true
			guarded := false
			for _, e := range hitEdges {
				if e.To() == ret.Block() && len(ret.Block().Preds) == 1 || edgeDominates(e, ret.Block()) {
					guarded = true
				}
			}
			if !guarded {
				return false
			}
		} else {
			sawFalse = true
			// false only when no element matched: not reachable over a hit edge
			cut := EdgeSet{}
			for _, e := range hitEdges {
				cut[e] = true
			}
			_ = cut
		}
	}
	return sawTrue && sawFalse
}

// evalIntPredicate evaluates a bool function of one integer parameter for a
// constant argument by following the branches that compare the parameter with
// constants (conditional constant propagation; no loops, no calls).
func evalIntPredicate(fn *ssa.Function, arg int64) (bool, bool) {
	if len(fn.Params) != 1 || fn.Signature.Results().Len() != 1 {
		return false, false
	}
	p := fn.Params[0]
	var prev *ssa.BasicBlock
	var evalB func(v ssa.Value, depth int) (bool, bool)
	evalI := func(v ssa.Value) (int64, bool) {
		v = stripInt(v)
		if v == ssa.Value(p) {
			return arg, true
		}
		return constInt(v)
	}
	evalB = func(v ssa.Value, depth int) (bool, bool) {
		if depth > 10 {
			return false, false
		}
		if b, ok := constBool(v); ok {
			return b, true
		}
		switch x := v.(type) {
		case *ssa.UnOp:
			if x.Op == token.NOT {
				b, ok := evalB(x.X, depth+1)
				return !b, ok
			}
		case *ssa.Phi:
			if prev != nil {
				for i, q := range x.Block().Preds {
					if q == prev {
						return evalB(x.Edges[i], depth+1)
					}
				}
			}
		case *ssa.BinOp:
			a, ok1 := evalI(x.X)
			b, ok2 := evalI(x.Y)
			if ok1 && ok2 {
				switch x.Op {
				case token.EQL:
					return a == b, true
				case token.NEQ:
					return a != b, true
				case token.LSS:
					return a < b, true
				case token.LEQ:
					return a <= b, true
				case token.GTR:
					return a > b, true
				case token.GEQ:
					return a >= b, true
				}
			}
		}
		return false, false
	}
	b := fn.Blocks[0]
	for steps := 0; steps < 200; steps++ {
		switch t := b.Instrs[len(b.Instrs)-1].(type) {
		case *ssa.If:
			c, ok := evalB(t.Cond, 0)
			if !ok {
				return false, false
			}
			prev = b
			if c {
				b = b.Succs[0]
			} else {
				b = b.Succs[1]
			}
		case *ssa.Jump:
			prev = b
			b = b.Succs[0]
		case *ssa.Return:
			return evalB(t.Results[0], 0)
		default:
			return false, false
		}
		for _, in := range b.Instrs {
			if _, isCall := in.(ssa.CallInstruction); isCall {
				return false, false
			}
		}
	}
	return false, false
}
