#!/usr/bin/env python3
"""Copies confirmed seeds from /tmp/seed into /verif/seeded/<id>/ with meta.json (re-confirming each with seedcheck.sh)."""
import json, os, re, shutil, subprocess, sys
needs = json.load(open('/verif/seeded/needs.json'))
src = '/tmp/seed'
src2 = '/tmp/seed2'
out = '/verif/seeded'
os.makedirs(out, exist_ok=True)
summary = []
only = set(sys.argv[1:])
from concurrent.futures import ThreadPoolExecutor
def one(sid):
    d = os.path.join(src, sid)
    if not os.path.isdir(d):
        d = os.path.join(src2, sid)
    if not os.path.isdir(d):
        d = os.path.join('/tmp/seed3', sid)
    if not os.path.isdir(d):
        d = os.path.join('/tmp/seed4', sid)
    if not os.path.isdir(d):
        d = os.path.join('/tmp/seed5', sid)
    if not os.path.isdir(d):
        d = os.path.join('/tmp/seed6', sid)
    if not os.path.isdir(d):
        d = os.path.join(out, sid)
    prop = sid.split('-')[0]
    p = subprocess.run(['/verif/scripts/seedcheck.sh', d, prop], capture_output=True, text=True)
    o = p.stdout + p.stderr
    def section(a, b):
        m = re.search(re.escape(a) + r'(.*?)' + re.escape(b), o, re.S)
        return m.group(1) if m else ''
    wo = section('--- demo WITHOUT change', '--- suite WITH change')
    su = section('--- suite WITH change', '--- demo WITH change')
    wi = section('--- demo WITH change', '--- check')
    suite_ok = 'not passing now 0' in su
    demo_without_ok = ('FAIL' not in wo) and ('ok' in wo)
    demo_with_fail = 'FAIL' in wi
    news = re.findall(r'   NEW \[([^\]]+)\] (.*?) @', o)
    confirmed = suite_ok and demo_without_ok and demo_with_fail
    dst = os.path.join(out, sid)
    if os.path.abspath(d) != os.path.abspath(dst):
        if os.path.exists(dst):
            shutil.rmtree(dst)
        os.makedirs(dst)
        for f in os.listdir(d):
            if f.endswith('.orig.diff') or f.endswith('.rebased.diff') or os.path.isdir(os.path.join(d, f)):
                continue
            shutil.copy(os.path.join(d, f), os.path.join(dst, f))
    demos = [f for f in os.listdir(d) if f.endswith('_test.go')]
    meta = {
        'id': sid, 'property': prop,
        'change': needs[sid][0], 'needs_to_manifest': needs[sid][1],
        'origin': 'written by an independent sub-agent given only the property text and a scratch worktree of /repo (nothing from /verif)' + ('; round 2: told which round-1 ideas to avoid' if sid[-1] in 'xy' else '; round 3: told which round-1 and round-2 ideas to avoid' if sid[-1] in 'pq' else '; round 4: told all 72 earlier ideas, asked for cross-function interactions' if sid[-1] in 'st' else '; round 5: no list of earlier ideas given (measures what a first idea by a fresh author looks like), two changes per author' if sid[-1] in 'uv' else '; round 6: told all earlier ideas for the property (second ideas), two changes per author' if sid[-1] in 'mn' else ''),
        'round': 2 if sid[-1] in 'xy' else 3 if sid[-1] in 'pq' else 4 if sid[-1] in 'st' else 5 if sid[-1] in 'uv' else 6 if sid[-1] in 'mn' else 1,
        'files': {'patch': 'patch.diff', 'demonstration': demos, 'author_notes': 'NOTES.md'},
        'confirmed': confirmed,
        'what_was_run': [
            'scratch copy of /repo (rsync, outside /repo and /verif), demonstration run on the unchanged copy: ' + ('passes' if demo_without_ok else 'DOES NOT PASS'),
            'git apply patch.diff; pinned suite (scripts/baseline.sh, 8249 tests, both modules): ' + ('all pass' if suite_ok else 'FAILS'),
            'demonstration on the changed copy: ' + ('fails' if demo_with_fail else 'DOES NOT FAIL'),
            f'bin/jdlint -property {prop} -root <changed copy> -json',
        ],
        'detected': len(news) > 0,
        'detected_by': sorted(set(n[0] for n in news)),
        'reported_constructs': [n[1] for n in news][:4],
    }
    json.dump(meta, open(os.path.join(dst, 'meta.json'), 'w'), indent=1)
    print(sid, 'confirmed' if confirmed else 'NOT-CONFIRMED', 'detected' if meta['detected'] else 'MISSED', meta['detected_by'])
    return (sid, confirmed, meta['detected'], ','.join(meta['detected_by']))
ids = [sid for sid in sorted(needs) if not only or sid in only]
with ThreadPoolExecutor(max_workers=5) as ex:
    results = list(ex.map(one, ids))
old = {}
try:
    old = {x[0]: x for x in json.load(open(os.path.join(out, 'SUMMARY.json')))}
except Exception:
    pass
for x in results:
    old[x[0]] = list(x)
json.dump([old[k] for k in sorted(old)], open(os.path.join(out, 'SUMMARY.json'), 'w'), indent=1)
