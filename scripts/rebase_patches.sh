#!/bin/bash
# Re-anchors stored patches (seeded/, benign/) that no longer apply to /repo's current tree after a fix: commit:
# tries `patch -p1 -F3`; on success writes the regenerated diff as patch.diff and keeps the author's file as patch.orig.diff.
# Prints one line per patch. Re-confirmation (suite + demonstration) is a separate step (seedcheck.sh / refcheck.sh).
for d in /verif/seeded/C??-? /verif/benign/*/; do
  d=${d%/}
  S=$(mktemp -d /tmp/rb.XXXXXX)
  rsync -a --exclude .git /repo/ $S/
  ( cd $S && git init -q . && git add -A >/dev/null 2>&1 && git commit -qm base >/dev/null 2>&1
    if git apply --check $d/patch.diff 2>/dev/null; then exit 0; fi
    if patch -p1 -s -F3 --no-backup-if-mismatch < $d/patch.diff >/dev/null 2>&1; then
      find . -name '*.orig' -o -name '*.rej' | xargs rm -f
      git add -A >/dev/null 2>&1
      [ -f $d/patch.orig.diff ] || cp $d/patch.diff $d/patch.orig.diff
      git diff --cached > $d/patch.diff
      echo "$(basename $d) REBASED"
    else
      echo "$(basename $d) CONFLICT"
    fi )
  rm -rf $S
done
