package main

import (
	"bytes"
	"fmt"
	"go/token"
	"go/types"
	"sort"
	"strings"

	"golang.org/x/tools/go/ssa"
)

// nodeTypes: the concrete JsonNode types of the package with their methods.
type nodeTypes struct {
	w     *World
	pkg   *ssa.Package
	tag   string
	names []string
}

func newNodeTypes(w *World, pkg *ssa.Package, tag string) *nodeTypes {
	nt := &nodeTypes{w: w, pkg: pkg, tag: tag}
	for _, n := range w.Implementers(pkg, "JsonNode") {
		nt.names = append(nt.names, n.Obj().Name())
	}
	if len(nt.names) < 8 {
		infra("%s: only %d JsonNode implementations found", tag, len(nt.names))
	}
	return nt
}

func (nt *nodeTypes) method(t, m string) *ssa.Function {
	fn := nt.w.MethodOpt(nt.pkg, t, m)
	if fn == nil || fn.Blocks == nil {
		infra("%s: method (%s).%s not found", nt.tag, t, m)
	}
	return fn
}

// ---------------------------------------------------------------- R-HASHDOM

type hashClass struct {
	kind   string // delegate | constant | digest | unknown
	tag    []byte // digest: constant prefix of the hash input (may be short)
	consts [][]byte
	input  ssa.Value // digest: the value handed to hash()
	why    string
}

// constArray reads `local [N]byte` filled by constant element stores.
func constArray(a *ssa.Alloc) ([]byte, bool) {
	arr, ok := a.Type().(*types.Pointer).Elem().Underlying().(*types.Array)
	if !ok {
		return nil, false
	}
	out := make([]byte, arr.Len())
	set := make([]bool, arr.Len())
	// a named array initialised from a composite literal: *a = *lit, once
	var whole []*ssa.Store
	for _, ref := range *a.Referrers() {
		if st, ok := ref.(*ssa.Store); ok && st.Addr == ssa.Value(a) {
			whole = append(whole, st)
		}
	}
	if len(whole) == 1 {
		if b, ok := constArrayValue(whole[0].Val); ok {
			if _, isLit := whole[0].Val.(*ssa.UnOp); !isLit || !isAllocLoad(whole[0].Val) {
				// copied from a constant package variable or from a parameter bound to one: constant
				// as long as the copy itself is never written element-wise
				for _, ref := range *a.Referrers() {
					if ia, ok := ref.(*ssa.IndexAddr); ok {
						for _, r2 := range *ia.Referrers() {
							if _, isSt := r2.(*ssa.Store); isSt {
								return nil, false
							}
						}
					}
				}
				return b, true
			}
		}
		if ld, ok := whole[0].Val.(*ssa.UnOp); ok && ld.Op == token.MUL {
			if lit, ok := ld.X.(*ssa.Alloc); ok && lit != a {
				for _, ref := range *a.Referrers() {
					switch r := ref.(type) {
					case *ssa.Store:
						if r != whole[0] {
							return nil, false
						}
					case *ssa.IndexAddr:
						for _, r2 := range *r.Referrers() {
							if _, isSt := r2.(*ssa.Store); isSt {
								return nil, false
							}
						}
					case *ssa.Slice, *ssa.UnOp, *ssa.DebugRef:
					default:
						return nil, false
					}
				}
				return constArray(lit)
			}
		}
	}
	for _, ref := range *a.Referrers() {
		switch r := ref.(type) {
		case *ssa.IndexAddr:
			idx, ok := constInt(r.Index)
			if !ok || idx < 0 || idx >= arr.Len() {
				return nil, false
			}
			for _, r2 := range *r.Referrers() {
				st, ok := r2.(*ssa.Store)
				if !ok {
					return nil, false
				}
				v, ok := constInt(st.Val)
				if !ok {
					return nil, false
				}
				out[idx] = byte(v)
				set[idx] = true
			}
		case *ssa.Slice, *ssa.UnOp, *ssa.DebugRef:
		default:
			return nil, false
		}
	}
	for _, s := range set {
		if !s {
			return nil, false // zero-initialised holes: still constant, but not a deliberate tag
		}
	}
	return out, true
}

func isAllocLoad(v ssa.Value) bool {
	ld, ok := v.(*ssa.UnOp)
	if !ok || ld.Op != token.MUL {
		return false
	}
	_, isA := ld.X.(*ssa.Alloc)
	return isA
}

// cpEnv binds parameters of a helper being evaluated to the caller's arguments.
var cpEnv = map[*ssa.Parameter]ssa.Value{}

// constArrayValue: v is an array value known byte for byte: a load of a local
// constant array, a load of a constant package-level array, or a parameter
// bound (cpEnv) to one of those.
func constArrayValue(v ssa.Value) ([]byte, bool) {
	v = strip(v)
	switch x := v.(type) {
	case *ssa.UnOp:
		if x.Op != token.MUL {
			return nil, false
		}
		switch a := x.X.(type) {
		case *ssa.Alloc:
			return constArray(a)
		case *ssa.Global:
			return globalConstArray(a)
		}
	case *ssa.Parameter:
		if arg, ok := cpEnv[x]; ok {
			saved := cpEnv
			cpEnv = map[*ssa.Parameter]ssa.Value{}
			b, ok := constArrayValue(arg)
			cpEnv = saved
			return b, ok
		}
	}
	return nil, false
}

var globalConstCache = map[*ssa.Global]*[]byte{}

// globalConstArray: a package-level array variable that is stored exactly once,
// by the package initialiser, with a constant composite literal, and is
// otherwise only loaded whole (never indexed for writing, sliced or passed by
// address).
func globalConstArray(g *ssa.Global) ([]byte, bool) {
	if c, ok := globalConstCache[g]; ok {
		if c == nil {
			return nil, false
		}
		return *c, true
	}
	globalConstCache[g] = nil
	if _, ok := g.Type().(*types.Pointer).Elem().Underlying().(*types.Array); !ok {
		return nil, false
	}
	var val []byte
	stores, ok := 0, true
	for fn := range theWorld.AllFunctions() {
		if fn.Blocks == nil {
			continue
		}
		home := fn
		for home.Parent() != nil {
			home = home.Parent()
		}
		if home.Pkg != g.Pkg {
			continue
		}
		allInstrs(fn, func(in ssa.Instruction) {
			uses := false
			for _, op := range in.Operands(nil) {
				if *op == ssa.Value(g) {
					uses = true
				}
			}
			if !uses {
				return
			}
			switch x := in.(type) {
			case *ssa.UnOp:
				if x.Op != token.MUL {
					ok = false
				}
			case *ssa.Store:
				if x.Addr != ssa.Value(g) || fn.Name() != "init" || fn.Parent() != nil {
					ok = false
					return
				}
				stores++
				if b, isC := constArrayValue(x.Val); isC {
					val = b
				} else {
					ok = false
				}
			case *ssa.DebugRef:
			default:
				ok = false
			}
		})
	}
	if !ok || stores != 1 || val == nil {
		return nil, false
	}
	globalConstCache[g] = &val
	return val, true
}

// globalConstDigestMap: a package-level map filled by the initialiser with
// constant keys and constant array values and never written afterwards;
// returns the values.
func globalConstDigestMap(g *ssa.Global) ([][]byte, bool) {
	if _, ok := g.Type().(*types.Pointer).Elem().Underlying().(*types.Map); !ok {
		return nil, false
	}
	var mk *ssa.MakeMap
	stores, ok := 0, true
	for fn := range theWorld.AllFunctions() {
		if fn.Blocks == nil {
			continue
		}
		home := fn
		for home.Parent() != nil {
			home = home.Parent()
		}
		if home.Pkg != g.Pkg {
			continue
		}
		allInstrs(fn, func(in ssa.Instruction) {
			switch x := in.(type) {
			case *ssa.Store:
				if x.Addr == ssa.Value(g) {
					stores++
					m, isMk := x.Val.(*ssa.MakeMap)
					if !isMk || fn.Name() != "init" || fn.Parent() != nil {
						ok = false
					}
					mk = m
				}
			case *ssa.MapUpdate:
				if ld, isLd := x.Map.(*ssa.UnOp); isLd && ld.X == ssa.Value(g) {
					ok = false
				}
			case ssa.CallInstruction:
				if bi, isB := x.Common().Value.(*ssa.Builtin); isB && bi.Name() == "delete" {
					if ld, isLd := x.Common().Args[0].(*ssa.UnOp); isLd && ld.X == ssa.Value(g) {
						ok = false
					}
				}
			}
		})
	}
	if !ok || stores != 1 || mk == nil {
		return nil, false
	}
	var vals [][]byte
	for _, ref := range *mk.Referrers() {
		switch x := ref.(type) {
		case *ssa.MapUpdate:
			if _, isK := strip(x.Key).(*ssa.Const); !isK {
				return nil, false
			}
			b, okv := constArrayValue(x.Value)
			if !okv {
				return nil, false
			}
			vals = append(vals, b)
		case *ssa.Store:
		default:
			return nil, false
		}
	}
	return vals, len(vals) > 0
}

// constPrefix: the constant bytes the []byte value x certainly starts with.
// known=false means nothing can be said (treated as empty prefix).
func constPrefix(x ssa.Value, seen map[ssa.Value]bool) (prefix []byte, neutral bool) {
	x = strip(x)
	if seen[x] {
		return nil, true
	}
	seen[x] = true
	switch v := x.(type) {
	case *ssa.Slice:
		if a, ok := v.X.(*ssa.Alloc); ok && v.Low == nil && v.High == nil {
			if b, ok := constArray(a); ok {
				return b, false
			}
		}
		return nil, false
	case *ssa.Call:
		if b, ok := v.Call.Value.(*ssa.Builtin); ok && b.Name() == "append" {
			// appending to an empty (pre-sized) buffer: the prefix is what is appended first
			if isEmptySlice(v.Call.Args[0]) && len(v.Call.Args) == 2 {
				return constPrefix(v.Call.Args[1], seen)
			}
			return constPrefix(v.Call.Args[0], seen)
		}
		// a package helper that hands back (a slice of) a constant it was given
		if sf := staticCallee(v); sf != nil && sf.Blocks != nil && theWorld != nil && len(cpEnv) < 8 && fnPkg(sf) != nil && sf.Pkg != nil && len(sf.Params) == len(v.Call.Args) {
			saved := cpEnv
			env := map[*ssa.Parameter]ssa.Value{}
			for k, val := range saved {
				env[k] = val
			}
			for i, p := range sf.Params {
				env[p] = v.Call.Args[i]
			}
			cpEnv = env
			var common []byte
			first, fail := true, false
			for _, ret := range returnsOf(sf) {
				if len(ret.Results) != 1 {
					fail = true
					break
				}
				p, neutral := constPrefix(ret.Results[0], map[ssa.Value]bool{})
				if neutral {
					continue
				}
				if first {
					common, first = p, false
					continue
				}
				n := 0
				for n < len(common) && n < len(p) && common[n] == p[n] {
					n++
				}
				common = common[:n]
			}
			cpEnv = saved
			if !fail && !first {
				return common, false
			}
		}
		return nil, false
	case *ssa.Phi:
		var common []byte
		first := true
		for _, e := range v.Edges {
			p, neutral := constPrefix(e, seen)
			if neutral {
				continue
			}
			if first {
				common, first = p, false
				continue
			}
			n := 0
			for n < len(common) && n < len(p) && common[n] == p[n] {
				n++
			}
			common = common[:n]
		}
		if first {
			return nil, true
		}
		return common, false
	}
	return nil, false
}

func (nt *nodeTypes) classifyHash(fn *ssa.Function, depth int) hashClass {
	rets := returnsOf(fn)
	if len(rets) == 0 {
		return hashClass{kind: "unknown", why: "no return"}
	}
	var cls hashClass
	for i, r := range rets {
		c := nt.classifyHashValue(fn, r.Results[0], depth)
		if i == 0 {
			cls = c
			continue
		}
		if c.kind != cls.kind {
			return hashClass{kind: "unknown", why: "returns of different kinds"}
		}
		if c.kind == "constant" {
			cls.consts = append(cls.consts, c.consts...)
		}
		if c.kind == "digest" {
			n := 0
			for n < len(cls.tag) && n < len(c.tag) && cls.tag[n] == c.tag[n] {
				n++
			}
			cls.tag = cls.tag[:n]
		}
	}
	return cls
}

func (nt *nodeTypes) classifyHashValue(fn *ssa.Function, rv ssa.Value, depth int) hashClass {
	rv = strip(rv)
	switch v := rv.(type) {
	case *ssa.Lookup:
		// a package-level table of constant digests indexed by the receiver
		if ld, ok := v.X.(*ssa.UnOp); ok && ld.Op == token.MUL && !v.CommaOk {
			if g, ok := ld.X.(*ssa.Global); ok {
				if vals, ok := globalConstDigestMap(g); ok && len(fn.Params) > 0 && strip(v.Index) == ssa.Value(fn.Params[0]) {
					return hashClass{kind: "constant", consts: vals, why: "table"}
				}
			}
		}
	case *ssa.UnOp:
		if v.Op == token.MUL {
			if b, ok := constArrayValue(v); ok {
				return hashClass{kind: "constant", consts: [][]byte{b}}
			}
		}
	case *ssa.Call:
		if v.Call.IsInvoke() {
			if methodIs(v.Call.Method, "hashCode") {
				return hashClass{kind: "delegate", why: "returns hashCode of another node"}
			}
			break
		}
		sf := staticCallee(v)
		if sf == nil {
			break
		}
		if nt.isHashPrimitive(sf) {
			p, _ := constPrefix(v.Call.Args[0], map[ssa.Value]bool{})
			return hashClass{kind: "digest", tag: p, input: v.Call.Args[0]}
		}
		if nt.w.fnIs(sf, "hashCode") && fnPkg(sf) == nt.pkg.Pkg {
			return hashClass{kind: "delegate", why: "returns hashCode of a converted receiver"}
		}
		if fnPkg(sf) == nt.pkg.Pkg && sf.Blocks != nil && depth < 3 {
			// helper (e.g. hashCodes.combine): classified by its own returns
			c := nt.classifyHash(sf, depth+1)
			if c.kind == "digest" {
				c.input = rv // from the caller's view the whole call is the input
				return c
			}
		}
	}
	return hashClass{kind: "unknown", why: fmt.Sprintf("return value %s is not a constant, a hash() digest or a delegated hashCode", valueName(rv))}
}

// isHashPrimitive: the package's digest function — `hash`, or any package-level
// function of one []byte/string parameter returning the digest type that is
// not itself built on hashCode (a variant of the primitive for another input
// type, e.g. one that hashes a string without copying it).
func (nt *nodeTypes) isHashPrimitive(sf *ssa.Function) bool {
	if sf == nil {
		return false
	}
	if sf == nt.w.FuncOpt(nt.pkg, "hash") {
		return true
	}
	if fnPkg(sf) != nt.pkg.Pkg || sf.Signature.Recv() != nil || sf.Blocks == nil || len(sf.Params) != 1 || sf.Signature.Results().Len() != 1 {
		return false
	}
	dig := nt.method(nt.names[0], "hashCode").Signature.Results().At(0).Type()
	if !types.Identical(sf.Signature.Results().At(0).Type(), dig) || !isTextType(sf.Params[0].Type()) {
		return false
	}
	prim := true
	allInstrs(sf, func(in ssa.Instruction) {
		if c, ok := in.(ssa.CallInstruction); ok {
			if c.Common().IsInvoke() {
				prim = false
			} else if callee := staticCallee(c); callee != nil && fnPkg(callee) == nt.pkg.Pkg && !nt.isHashPrimitive0(callee) {
				prim = false
			}
		}
	})
	return prim
}

func (nt *nodeTypes) isHashPrimitive0(sf *ssa.Function) bool {
	return sf == nt.w.FuncOpt(nt.pkg, "hash")
}

// ruleHashDom: per-type domain separation of hash inputs. only: restrict to
// these type names (nil = all).
func ruleHashDom(w *World, r *Report, nt *nodeTypes, only map[string]bool) {
	const rule = "R-HASHDOM"
	type tagged struct {
		name string
		tag  []byte
	}
	var tags []tagged
	var consts []tagged
	for _, t := range nt.names {
		fn := nt.method(t, "hashCode")
		r.Fn(fnName(fn))
		cls := nt.classifyHash(fn, 0)
		key := fnName(fn)
		pos := w.Pos(fn.Pos())
		inScope := only == nil || only[t]
		switch cls.kind {
		case "delegate":
			if inScope {
				r.Ok(rule, key, pos, "delegates to the hashCode of the dispatched node")
			}
		case "constant":
			for _, c := range cls.consts {
				consts = append(consts, tagged{t, c})
			}
			if inScope {
				r.Ok(rule, key, pos, fmt.Sprintf("returns %d constant digests", len(cls.consts)))
			}
		case "digest":
			if len(cls.tag) >= 8 {
				tags = append(tags, tagged{t, cls.tag[:8]})
				if inScope {
					r.Ok(rule, key, pos, fmt.Sprintf("hash input starts with the constant type tag % X", cls.tag[:8]))
				}
			} else if inScope {
				r.Bad(rule, key, pos, fmt.Sprintf("digest input has no constant type tag (constant prefix is %d bytes): a value of another JSON type can feed byte-identical input to hash() and compare equal", len(cls.tag)))
			}
		default:
			if inScope {
				r.Unk(rule, key, pos, "cannot classify hashCode: "+cls.why)
			}
		}
	}
	// pairwise distinct tags / constants
	distinct := true
	detail := ""
	all := append(append([]tagged{}, tags...), consts...)
	for i := range all {
		for j := i + 1; j < len(all); j++ {
			if bytes.Equal(all[i].tag, all[j].tag) {
				distinct = false
				detail = fmt.Sprintf("%s and %s use the same 8 bytes % X", all[i].name, all[j].name, all[i].tag)
			}
		}
	}
	names := []string{}
	for _, t := range all {
		names = append(names, t.name)
	}
	sort.Strings(names)
	r.Check(distinct && len(all) >= 2, rule, nt.tag+":tags-pairwise-distinct", "-",
		fmt.Sprintf("%d type tags / constant digests are pairwise distinct (%v)", len(all), names),
		"type tags are not pairwise distinct: "+detail)
}

// ---------------------------------------------------------------- R-HASHCOVER

// ruleHashCover: the digest depends on everything Equals compares.
func ruleHashCover(w *World, r *Report, nt *nodeTypes) {
	const rule = "R-HASHCOVER"
	for _, t := range nt.names {
		fn := nt.method(t, "hashCode")
		cls := nt.classifyHash(fn, 0)
		key := fnName(fn)
		pos := w.Pos(fn.Pos())
		recv := fn.Params[0]
		under := recv.Type().Underlying()
		switch cls.kind {
		case "delegate":
			continue
		case "constant":
			if _, isBool := under.(*types.Basic); isBool && len(cls.consts) >= 2 {
				dep := false
				for _, b := range fn.Blocks {
					if cond, _, _, ok := branchEdges(b); ok && strip(cond) == ssa.Value(recv) {
						dep = true
					}
				}
				if cls.why == "table" {
					dep = true // looked up by the receiver's value
				}
				distinct := !bytes.Equal(cls.consts[0], cls.consts[1])
				r.Check(dep && distinct, rule, key, pos, "the two constant digests are distinct and selected by the receiver's value",
					"the constant digest does not depend on the receiver's value: true and false hash alike")
			} else {
				r.Unk(rule, key, pos, "constant digest for a type that is not a two-valued scalar")
			}
			continue
		case "digest":
		default:
			r.Unk(rule, key, pos, "cannot classify hashCode: "+cls.why)
			continue
		}
		d := NewDeriv(w, fn)
		vis := d.Visited(cls.input)
		switch u := under.(type) {
		case *types.Map:
			// keys and values
			hasVal, hasKey := false, false
			for v := range vis {
				switch x := v.(type) {
				case *ssa.Call:
					if isHashCodeCall(x) {
						if rv, _ := callArgs(x); rv != nil {
							root, sel := accessPath(rv)
							if root == ssa.Value(recv) && selString(sel) == "[]" {
								hasVal = true
							}
							if ex, ok := strip(rv).(*ssa.Extract); ok && ex.Index == 2 && rangesOver(ex, recv) {
								hasVal = true
							}
							// the member reached through a local container filled from the receiver
							if _, isIface := rv.Type().Underlying().(*types.Interface); isIface && d.HasRoot(rv, recv) {
								hasVal = true
							}
						}
					}
				case *ssa.Extract:
					if x.Index == 1 && rangesOver(x, recv) {
						hasKey = true
					}
				}
				// the key set taken with the library's maps.Keys(receiver)
				if c, ok := v.(*ssa.Call); ok && len(c.Call.Args) == 1 && strip(c.Call.Args[0]) == ssa.Value(recv) {
					switch name := calleeFullName(c); {
					case strings.HasPrefix(name, "maps.Keys"), strings.HasPrefix(name, "golang.org/x/exp/maps.Keys"):
						hasKey = true
					}
					// a package helper that returns the (sorted) keys of the map it is given
					if g := staticCallee(c); g != nil && g.Blocks != nil && fnPkg(g) == nt.pkg.Pkg && len(g.Params) == 1 {
						dg := NewDeriv(w, g)
						for _, ret := range returnsOf(g) {
							if len(ret.Results) != 1 {
								continue
							}
							for x := range dg.Visited(ret.Results[0]) {
								if ex, ok := x.(*ssa.Extract); ok && ex.Index == 1 && rangesOver(ex, g.Params[0]) {
									hasKey = true
								}
							}
						}
					}
				}
			}
			r.Check(hasVal && hasKey, rule, key, pos, "digest input covers every key and the hashCode of every value",
				fmt.Sprintf("digest input does not cover everything Equals compares (keys covered: %v, value hashCodes covered: %v): objects that differ there are equal members of a set", hasKey, hasVal))
		case *types.Slice:
			if _, isByte := u.Elem().Underlying().(*types.Basic); isByte {
				// tag-only type (null): nothing to cover
				r.Ok(rule, key, pos, "type has a single value; the digest is its tag")
				continue
			}
			has := false
			for v := range vis {
				c, ok := v.(*ssa.Call)
				if !ok {
					continue
				}
				if isHashCodeCall(c) {
					if rv, _ := callArgs(c); rv != nil && d.HasRoot(rv, recv) {
						has = true
					}
					continue
				}
				// a helper of the package that is handed the receiver and takes
				// the element digests itself (e.g. a members-by-digest map)
				g := staticCallee(c)
				if g == nil || g.Blocks == nil || fnPkg(g) != nt.pkg.Pkg || len(c.Call.Args) != len(g.Params) {
					continue
				}
				for j, a := range c.Call.Args {
					if !d.HasRoot(a, recv) {
						continue
					}
					dg := NewDeriv(w, g)
					allInstrs(g, func(in ssa.Instruction) {
						if hc, ok := in.(*ssa.Call); ok && isHashCodeCall(hc) {
							if rv, _ := callArgs(hc); rv != nil && dg.HasRoot(rv, g.Params[j]) {
								// and the digest reaches what the helper returns
								for _, ret := range returnsOf(g) {
									if dg.Visited(ret.Results[0])[hc] {
										has = true
									}
								}
							}
						}
					})
				}
			}
			r.Check(has, rule, key, pos, "digest input covers the hashCode of every element",
				"digest input does not depend on the elements' hashCodes")
		case *types.Struct:
			r.Ok(rule, key, pos, "type has a single value; the digest is its tag")
		default:
			has := d.HasRoot(cls.input, recv)
			r.Check(has, rule, key, pos, "digest input is derived from the receiver's value",
				"digest input does not depend on the receiver's value")
		}
	}
}

func isHashCodeCall(c *ssa.Call) bool {
	if c.Call.IsInvoke() {
		return methodIs(c.Call.Method, "hashCode")
	}
	sf := staticCallee(c)
	return sf != nil && canonFnName(sf) == "hashCode"
}

// rangesOver: ex extracts from a Next whose iterator ranges over recv.
func rangesOver(ex *ssa.Extract, recv ssa.Value) bool {
	nx, ok := ex.Tuple.(*ssa.Next)
	if !ok {
		return false
	}
	rg, ok := nx.Iter.(*ssa.Range)
	if !ok {
		return false
	}
	return strip(rg.X) == recv
}

// ---------------------------------------------------------------- R-TYPEGUARD

// ruleTypeGuard: T.Equals can answer anything but `false` only after a
// successful assertion that the (dispatched) argument has T's own type.
func ruleTypeGuard(w *World, r *Report, nt *nodeTypes) {
	const rule = "R-TYPEGUARD"
	for _, t := range nt.names {
		fn := nt.method(t, "Equals")
		r.Fn(fnName(fn))
		key := fnName(fn)
		pos := w.Pos(fn.Pos())
		own := fn.Params[0].Type()
		arg := fn.Params[1]
		d := NewDeriv(w, fn)
		// delegating Equals (jsonArray): every non-false return is another Equals
		var nonFalse []*ssa.BasicBlock
		delegated := true
		okResults := 0
		for _, ret := range returnsOf(fn) {
			if b, ok := constBool(ret.Results[0]); ok && !b {
				continue
			}
			// `_, ok := n.(T); return ok`: true exactly when the assertion succeeded
			if ex, ok := ret.Results[0].(*ssa.Extract); ok && ex.Index == 1 {
				if ta, ok := ex.Tuple.(*ssa.TypeAssert); ok && ta.CommaOk && types.Identical(ta.AssertedType, own) && d.HasRoot(ta.X, arg) {
					okResults++
					continue
				}
			}
			nonFalse = append(nonFalse, ret.Block())
			c, ok := ret.Results[0].(*ssa.Call)
			if !ok || !(c.Call.IsInvoke() && c.Call.Method.Name() == "Equals") {
				delegated = false
			}
		}
		if len(nonFalse) == 0 && okResults > 0 {
			r.Ok(rule, key, pos, "the result is the outcome of the assertion that the argument has the receiver's own type")
			continue
		}
		if len(nonFalse) == 0 {
			r.Bad(rule, key, pos, "Equals can never return true")
			continue
		}
		if delegated {
			r.Ok(rule, key, pos, "delegates to Equals of the dispatched nodes")
			continue
		}
		cut := EdgeSet{}
		for _, b := range fn.Blocks {
			for _, in := range b.Instrs {
				ta, ok := in.(*ssa.TypeAssert)
				if !ok || !ta.CommaOk || !types.Identical(ta.AssertedType, own) {
					continue
				}
				if !d.HasRoot(ta.X, arg) {
					continue
				}
				for _, ref := range *ta.Referrers() {
					ex, ok := ref.(*ssa.Extract)
					if !ok || ex.Index != 1 {
						continue
					}
					for _, bb := range fn.Blocks {
						cond, tE, fE, ok := branchEdges(bb)
						if !ok {
							continue
						}
						neg := false
						for {
							u, isU := cond.(*ssa.UnOp)
							if !isU || u.Op != token.NOT {
								break
							}
							cond, neg = u.X, !neg
						}
						if cond == ssa.Value(ex) {
							if neg {
								cut[fE] = true
							} else {
								cut[tE] = true
							}
						}
					}
				}
			}
		}
		if len(cut) == 0 {
			r.Bad(rule, key, pos, fmt.Sprintf("no checked type assertion of the argument to %s guards the result: values of another JSON type can compare equal", typeName(own)))
			continue
		}
		r.Check(cutsOff(fn, cut, nonFalse...), rule, key, pos,
			fmt.Sprintf("every result other than false lies behind a successful assertion that the argument is a %s", typeName(own)),
			fmt.Sprintf("some path returns a result other than false without having established that the argument is a %s", typeName(own)))
	}
}

// ---------------------------------------------------------------- R-CONGRUENCE

func optionKindsRead(fn *ssa.Function) map[string]bool {
	out := map[string]bool{}
	allInstrs(fn, func(in ssa.Instruction) {
		c, ok := in.(*ssa.Call)
		if !ok {
			return
		}
		sf := staticCallee(c)
		if sf == nil || sf.Origin() == nil {
			return
		}
		switch sf.Origin().Name() {
		case "getOption", "checkOption":
			for _, ta := range sf.TypeArgs() {
				out[typeName(ta)] = true
			}
		}
	})
	return out
}

// ruleCongruence: an option kind consulted by T.Equals must be consulted by
// T.hashCode too — Diff matches array elements by hashCode, Equals by Equals.
func ruleCongruence(w *World, r *Report, nt *nodeTypes) {
	const rule = "R-CONGRUENCE"
	n := 0
	for _, t := range nt.names {
		eq := optionKindsRead(nt.method(t, "Equals"))
		hc := optionKindsRead(nt.method(t, "hashCode"))
		for _, k := range sortedKeys(eq) {
			// options that only select the array reading are applied by
			// dispatch on both sides and do not need to be re-read
			n++
			key := fmt.Sprintf("%s.(%s):%s", nt.tag, t, k)
			pos := w.Pos(nt.method(t, "hashCode").Pos())
			r.Check(hc[k], rule, key, pos,
				"hashCode consults the same option kind as Equals",
				fmt.Sprintf("Equals of %s consults %s but hashCode does not: two values Equals accepts as equal hash differently, so a list diff (which matches elements by hashCode) reports a difference that Equals denies", t, k))
		}
	}
	if n == 0 {
		r.Ok(rule, nt.tag+":no-option-reads-in-Equals", "-", "no Equals method consults an option kind directly")
	}
}

// ruleEqSize — symmetry of container equality. An Equals that walks the
// members of one operand only (ranges over the receiver and looks each member
// up in the argument, or indexes the argument by the receiver's positions)
// decides containment, not equality, unless both operands have the same
// number of members: every result other than false must lie behind an edge on
// which len(receiver) == len(asserted argument) is known. An Equals that
// walks neither (compares digests) or both is left to R-HASHCOVER.
func ruleEqSize(w *World, r *Report, nt *nodeTypes) {
	const rule = "R-EQSIZE"
	n := 0
	for _, t := range nt.names {
		fn := nt.method(t, "Equals")
		recv := fn.Params[0]
		switch recv.Type().Underlying().(type) {
		case *types.Slice, *types.Map:
		default:
			continue
		}
		// the asserted argument(s): x, ok := n.(T)
		var others []ssa.Value
		allInstrs(fn, func(in ssa.Instruction) {
			if ex, ok := in.(*ssa.Extract); ok && ex.Index == 0 {
				if ta, ok := ex.Tuple.(*ssa.TypeAssert); ok && ta.CommaOk && types.Identical(ta.AssertedType, recv.Type()) {
					others = append(others, ex)
				}
			}
		})
		if len(others) == 0 {
			continue
		}
		isOther := func(v ssa.Value) bool {
			v = strip(v)
			for _, o := range others {
				if v == o {
					return true
				}
			}
			return false
		}
		// which operands are walked: ranged over, or indexed inside a loop
		walksRecv, walksOther := false, false
		lps := loopsOf(fn)
		inLoop := func(b *ssa.BasicBlock) bool {
			for _, l := range lps {
				if l.Blocks[b] {
					return true
				}
			}
			return false
		}
		allInstrs(fn, func(in ssa.Instruction) {
			switch x := in.(type) {
			case *ssa.Range:
				if strip(x.X) == ssa.Value(recv) {
					walksRecv = true
				} else if isOther(x.X) {
					walksOther = true
				}
			case *ssa.BinOp:
				// the operand whose length bounds a range loop
				X, Y := x.X, x.Y
				switch x.Op {
				case token.LSS:
				case token.GTR:
					X, Y = Y, X
				default:
					return
				}
				_ = X
				if !inLoop(x.Block()) {
					return
				}
				if c, ok := isBuiltinCall(Y, "len"); ok {
					if strip(c.Call.Args[0]) == ssa.Value(recv) {
						walksRecv = true
					} else if isOther(c.Call.Args[0]) {
						walksOther = true
					}
				}
			}
		})
		if walksRecv == walksOther {
			continue
		}
		n++
		r.Fn(fnName(fn))
		cut := EdgeSet{}
		for _, b := range fn.Blocks {
			cond, tE, fE, ok := branchEdges(b)
			if !ok {
				continue
			}
			bo, ok := cond.(*ssa.BinOp)
			if !ok || (bo.Op != token.EQL && bo.Op != token.NEQ) {
				continue
			}
			tx, ox, cx, okx := termOf(bo.X)
			ty, oy, cy, oky := termOf(bo.Y)
			if !okx || !oky || cx || cy || !tx.isLen || !ty.isLen || ox != 0 || oy != 0 {
				continue
			}
			pair := (tx.v == ssa.Value(recv) && isOther(ty.v)) || (ty.v == ssa.Value(recv) && isOther(tx.v))
			if !pair {
				continue
			}
			if bo.Op == token.EQL {
				cut[tE] = true
			} else {
				cut[fE] = true
			}
		}
		var nonFalse []*ssa.BasicBlock
		for _, ret := range returnsOf(fn) {
			if b, ok := constBool(ret.Results[0]); ok && !b {
				continue
			}
			nonFalse = append(nonFalse, ret.Block())
		}
		side := "receiver"
		if walksOther {
			side = "argument"
		}
		r.Check(len(cut) > 0 && cutsOff(fn, cut, nonFalse...), rule, fnName(fn), w.Pos(fn.Pos()),
			"only the "+side+"'s members are walked, and every result other than false lies behind len(receiver) == len(argument)",
			"only the "+side+"'s members are walked and the sizes of the two operands are not compared on every path to a non-false result: Equals decides containment (a value equals any value that merely includes it), it is not symmetric")
	}
	if n < 1 {
		r.Bad(rule, nt.tag+":instance-floor", "-", "no one-sided container comparison found (the object and list Equals are expected to walk one operand)")
	}
}

// isRangeIndex: v is the induction variable of a compiler-made range loop
// (phi of -1 and itself + 1, read after the increment).
func isRangeIndex(v ssa.Value) bool {
	bo, ok := v.(*ssa.BinOp)
	if !ok || bo.Op != token.ADD {
		return false
	}
	if k, ok := constInt(bo.Y); !ok || k != 1 {
		return false
	}
	phi, ok := bo.X.(*ssa.Phi)
	if !ok {
		return false
	}
	for _, e := range phi.Edges {
		if k, ok := constInt(e); ok && k == -1 {
			return true
		}
	}
	return false
}

// ruleHashEq — digest equality stands in for equality only where the design
// says so. Comparing two hashCode results with == / != decides "same value"
// up to the hash's domain separation (known finding K1: strings and numbers
// share a domain); the set and multiset types are built on that, every other
// type decides sameness with Equals. A hashCode comparison in a function of
// another type moves the ordered types onto the weaker equivalence.
func ruleHashEq(w *World, r *Report, nt *nodeTypes) {
	const rule = "R-HASHEQ"
	n := 0
	for _, fn := range w.FuncsOf(nt.pkg) {
		k := 0
		allInstrs(fn, func(in ssa.Instruction) {
			bo, ok := in.(*ssa.BinOp)
			if !ok || (bo.Op != token.EQL && bo.Op != token.NEQ) || !isDigestType(bo.X.Type()) {
				return
			}
			isHC := func(v ssa.Value) bool {
				c, ok := strip(v).(*ssa.Call)
				return ok && isHashCodeCall(c)
			}
			if !isHC(bo.X) || !isHC(bo.Y) {
				return
			}
			n++
			k++
			top := fn
			for top.Parent() != nil {
				top = top.Parent()
			}
			recv := ""
			if top.Signature.Recv() != nil {
				recv = typeName(top.Signature.Recv().Type())
			}
			r.Fn(fnName(top))
			r.Check(recv == "jsonSet" || recv == "jsonMultiset", rule, fmt.Sprintf("%s:hash-comparison#%d", fnName(fn), k), w.Pos(bo.Pos()),
				"digest equality is used as equality inside the set / multiset implementation only",
				"two hashCode results are compared to decide sameness outside the set / multiset implementation: an ordered type now inherits the hash's weaker equivalence (values of different JSON types with byte-identical hash input count as unchanged)")
		})
	}
	if n == 0 {
		r.Ok(rule, nt.tag+":no-hash-comparison", "-", "no two hashCode results are compared anywhere in the package")
	}
}

// ruleNodeCompare — R-NODECMP. Two nodes are compared with Go's == / != only
// inside the Equals of a scalar type, between two values of that very type
// (after the assertion). Anywhere else on the Equals/Diff/Patch side a Go
// comparison of JsonNode interface values (or of values asserted out of
// elements) bypasses Equals: it ignores the options (Precision inside arrays),
// panics on uncomparable dynamic types (maps, slices) and tells a raw array
// from its dispatched view.
func ruleNodeCompare(w *World, r *Report, nt *nodeTypes) {
	const rule = "R-NODECMP"
	isNode := map[string]bool{}
	for _, t := range nt.names {
		isNode[t] = true
	}
	nodeTyped := func(t types.Type) bool {
		if n := namedOf(t); n != nil && n.Obj().Pkg() == nt.pkg.Pkg {
			if isNode[n.Obj().Name()] || n.Obj().Name() == "JsonNode" {
				return true
			}
		}
		return false
	}
	own := map[*ssa.Function]types.Type{}
	for _, t := range nt.names {
		fn := nt.method(t, "Equals")
		switch fn.Params[0].Type().Underlying().(type) {
		case *types.Basic:
			own[fn] = fn.Params[0].Type()
		}
	}
	n := 0
	var bad []string
	// scope: what the Equals, diff and hashCode methods of the node types reach by static calls
	scope := map[*ssa.Function]bool{}
	var work []*ssa.Function
	for _, t := range nt.names {
		for _, m := range []string{"Equals", "diff", "hashCode"} {
			if fn := w.MethodOpt(nt.pkg, t, m); fn != nil && fn.Blocks != nil && !scope[fn] {
				scope[fn] = true
				work = append(work, fn)
			}
		}
	}
	for len(work) > 0 {
		f := work[0]
		work = work[1:]
		withClosures(f, func(g *ssa.Function) {
			scope[g] = true
			allInstrs(g, func(in ssa.Instruction) {
				if c, ok := in.(ssa.CallInstruction); ok {
					if sf := staticCallee(c); sf != nil && sf.Blocks != nil && fnPkg(sf) == nt.pkg.Pkg && !scope[sf] && sf.Parent() == nil {
						scope[sf] = true
						work = append(work, sf)
					}
				}
			})
		})
	}
	for fn := range scope {
		if fn.Blocks == nil || fn.Synthetic != "" {
			continue
		}
		n++
		allInstrs(fn, func(in ssa.Instruction) {
			bo, ok := in.(*ssa.BinOp)
			if !ok || (bo.Op != token.EQL && bo.Op != token.NEQ) {
				return
			}
			if !nodeTyped(bo.X.Type()) && !nodeTyped(bo.Y.Type()) {
				return
			}
			// nil checks of an interface are not value comparisons
			if isNilConst(bo.X) || isNilConst(bo.Y) {
				return
			}
			// a test of one node's value against a constant (n == 0, s == "") compares no two nodes
			if _, isK := bo.X.(*ssa.Const); isK {
				return
			}
			if _, isK := bo.Y.(*ssa.Const); isK {
				return
			}
			if t, isOwn := own[fn]; isOwn && types.Identical(bo.X.Type(), t) && types.Identical(bo.Y.Type(), t) {
				return
			}
			bad = append(bad, fmt.Sprintf("%s compares nodes with %s at %s", fnName(fn), bo.Op, w.Pos(bo.Pos())))
		})
	}
	sort.Strings(bad)
	if len(bad) > 3 {
		bad = bad[:3]
	}
	r.Check(len(bad) == 0, rule, nt.tag+":nodes-compared-through-Equals-only", "-",
		fmt.Sprintf("none of the %d functions the Equals/diff/hashCode methods reach compares two nodes with == / != outside a scalar type's own Equals", n),
		strings.Join(bad, "; ")+": a Go comparison of nodes bypasses Equals — the options (Precision) are not consulted for the values compared this way, so numbers within eps inside an array or object compare unequal while the same numbers compare equal on their own")
}

// ruleHashInjective — R-HASHINJ. The digest of a scalar (string, number) is
// computed from an injective encoding of the value: between the receiver and
// the bytes handed to the digest primitive there are only value-preserving
// steps (conversions between types of the same kind, math.Float64bits,
// encoding/binary writes, string <-> []byte, appends and copies). A lossy
// step — float -> integer conversion, rounding, lower-casing, truncation,
// arithmetic — maps different values to the same digest, and SET/MULTISET
// equality and list diffs compare digests.
func ruleHashInjective(w *World, r *Report, nt *nodeTypes) {
	const rule = "R-HASHINJ"
	for _, t := range nt.names {
		fn := nt.method(t, "hashCode")
		recv := fn.Params[0]
		b, ok := recv.Type().Underlying().(*types.Basic)
		if !ok || b.Info()&(types.IsFloat|types.IsString|types.IsInteger) == 0 {
			continue
		}
		cls := nt.classifyHash(fn, 0)
		if cls.kind != "digest" || cls.input == nil {
			continue
		}
		r.Fn(fnName(fn))
		d := NewDeriv(w, fn)
		lossy := ""
		for v := range d.Visited(cls.input) {
			switch x := v.(type) {
			case *ssa.Convert:
				from, okf := x.X.Type().Underlying().(*types.Basic)
				to, okt := x.Type().Underlying().(*types.Basic)
				if okf && okt {
					switch {
					case from.Info()&types.IsFloat != 0 && to.Info()&types.IsInteger != 0:
						lossy = "conversion of a float to an integer at " + w.Pos(x.Pos())
					case from.Info()&types.IsInteger != 0 && to.Info()&types.IsFloat != 0:
						lossy = "conversion of an integer to a float at " + w.Pos(x.Pos())
					case from.Info()&types.IsFloat != 0 && to.Info()&types.IsFloat != 0 && to.Kind() == types.Float32:
						lossy = "narrowing to float32 at " + w.Pos(x.Pos())
					case from.Info()&types.IsInteger != 0 && to.Info()&types.IsInteger != 0 && w.sizeOf(to) < w.sizeOf(from):
						lossy = "narrowing integer conversion at " + w.Pos(x.Pos())
					}
				}
			case *ssa.BinOp:
				if bt, ok := x.Type().Underlying().(*types.Basic); ok && bt.Info()&(types.IsFloat|types.IsInteger) != 0 {
					switch x.Op {
					case token.ADD, token.SUB, token.MUL, token.QUO, token.REM, token.AND, token.OR, token.XOR, token.SHL, token.SHR, token.AND_NOT:
						if !d.HasRoot(x, recv) {
							continue
						}
						lossy = fmt.Sprintf("arithmetic (%s) on the value at %s", x.Op, w.Pos(x.Pos()))
					}
				}
			case *ssa.Call:
				name := calleeFullName(x)
				if name == "" || !d.HasRoot(x, recv) {
					continue
				}
				switch {
				case name == "math.Float64bits", name == "math.Float32bits", strings.HasPrefix(name, "encoding/binary."), strings.HasPrefix(name, "(encoding/binary."),
					strings.HasPrefix(name, "(*bytes.Buffer)."), name == "bytes.NewBuffer", strings.HasPrefix(name, "unsafe."):
				case nt.isHashPrimitive(staticCallee(x)):
				default:
					if sf := staticCallee(x); sf != nil && fnPkg(sf) == nt.pkg.Pkg {
						continue // package helpers are classified on their own
					}
					if _, isB := x.Call.Value.(*ssa.Builtin); isB {
						continue
					}
					lossy = "the value passes through " + name + " at " + w.Pos(x.Pos())
				}
			}
		}
		r.Check(lossy == "", rule, fnName(fn), w.Pos(fn.Pos()),
			"the digest input is an injective encoding of the value (only value-preserving conversions between the receiver and the digest)",
			"the digest input is not an injective encoding of the value: "+lossy+" — different values get the same digest, so they are the same member of a set or multiset and a list diff matches them as common elements")
	}
}

func (w *World) sizeOf(b *types.Basic) int64 {
	return types.SizesFor("gc", "amd64").Sizeof(b)
}

// ruleHashZero — R-HASHZERO (C04 "numbers within eps … reflexive, symmetric",
// C05 "Diff empty iff Equals", C06 "len minus LCS"; v1: C17 "equality is
// coherent"). Equals on numbers is arithmetic (|a−b| ≤ eps), the digest that
// sets, multisets and the list LCS compare is taken from the IEEE bit pattern.
// The two disagree on exactly one pair of finite values: 0 and −0 are equal
// and have different bits (NaN is rejected when a node is built). A number
// digest made from the bits must therefore see a value in which −0 has been
// folded into 0 (`if n == 0 { n = 0 }`, or `n + 0`).
func ruleHashZero(w *World, r *Report, nt *nodeTypes) {
	rule := "R-HASHZERO"
	if nt.tag != "v2" {
		rule += "(" + nt.tag + ")"
	}
	fn := nt.method("jsonNumber", "hashCode")
	if fn == nil || fn.Blocks == nil {
		r.Ok(rule, nt.tag+".(jsonNumber).hashCode", "-", "no number digest found: this rule makes no claim (not decided)")
		return
	}
	r.Fn(fnName(fn))
	recv := fn.Params[0]
	isFloat := func(t types.Type) bool {
		b, ok := t.Underlying().(*types.Basic)
		return ok && b.Info()&types.IsFloat != 0
	}
	var folded func(v ssa.Value, depth int) bool
	folded = func(v ssa.Value, depth int) bool {
		if depth > 6 {
			return false
		}
		switch x := v.(type) {
		case *ssa.MakeInterface:
			return folded(x.X, depth+1)
		case *ssa.ChangeType:
			return folded(x.X, depth+1)
		case *ssa.Convert:
			if isFloat(x.X.Type()) {
				return folded(x.X, depth+1)
			}
			return true // no longer the float's bits
		case *ssa.BinOp:
			if x.Op == token.ADD {
				if c, ok := x.Y.(*ssa.Const); ok && c.Value != nil && c.Float64() == 0 {
					return true
				}
				if c, ok := x.X.(*ssa.Const); ok && c.Value != nil && c.Float64() == 0 {
					return true
				}
			}
			return false
		case *ssa.Phi:
			// every edge is either the constant 0 or the receiver on the edge on which it is known to be non-zero
			zeroEdge, other := false, true
			for i, e := range x.Edges {
				if c, ok := e.(*ssa.Const); ok && c.Value != nil && c.Float64() == 0 {
					zeroEdge = true
					continue
				}
				if strip(e) != ssa.Value(recv) {
					// some other value chosen on an edge where the receiver is not used as it is
					// (math.Copysign(0, 1), a named constant …): taken as the folded value
					zeroEdge = true
					continue
				}
				// the predecessor edge must be the false side of `recv == 0` (or true side of !=)
				pred := x.Block().Preds[i]
				okEdge := false
				for _, b := range fn.Blocks {
					cond, tE, fE, okb := branchEdges(b)
					if !okb {
						continue
					}
					bo, okc := cond.(*ssa.BinOp)
					if !okc || (bo.Op != token.EQL && bo.Op != token.NEQ) || strip(bo.X) != ssa.Value(recv) {
						continue
					}
					c, okk := bo.Y.(*ssa.Const)
					if !okk || c.Value == nil || c.Float64() != 0 {
						continue
					}
					nz := fE
					if bo.Op == token.NEQ {
						nz = tE
					}
					if nz.From == pred && nz.To() == x.Block() || edgeDominates(nz, pred) {
						okEdge = true
					}
				}
				if !okEdge {
					other = false
				}
			}
			return zeroEdge && other
		}
		return false
	}
	n := 0
	allInstrs(fn, func(in ssa.Instruction) {
		c, ok := in.(*ssa.Call)
		if !ok {
			return
		}
		name := calleeFullName(c)
		var arg ssa.Value
		switch {
		case strings.HasSuffix(name, "encoding/binary.Write") && len(c.Call.Args) == 3:
			arg = c.Call.Args[2]
		case strings.HasSuffix(name, "math.Float64bits") && len(c.Call.Args) == 1:
			arg = c.Call.Args[0]
		default:
			return
		}
		// only a float taken from the receiver matters
		inner := arg
		for {
			if mi, ok := inner.(*ssa.MakeInterface); ok {
				inner = mi.X
				continue
			}
			break
		}
		if !isFloat(inner.Type()) {
			return
		}
		n++
		r.Check(folded(arg, 0), rule, fmt.Sprintf("%s:bits-of-zero-folded#%d", fnName(fn), n), w.Pos(c.Pos()),
			"the value whose bit pattern is hashed has -0 folded into 0",
			"the number's bit pattern is hashed as it is: 0 and -0 are Equal but get different digests, so [0] and [-0] differ as set or multiset members and the list diff of [0] and [-0] is not empty although they are Equal")
	})
	if n == 0 {
		r.Ok(rule, fnName(fn)+":bits-of-zero-folded", w.Pos(fn.Pos()), "the number digest is not taken from the float's bit pattern: this rule makes no claim (not decided)")
	}
}
