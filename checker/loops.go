package main

import (
	"golang.org/x/tools/go/ssa"
)

// Loop is a natural loop of the CFG.
type Loop struct {
	Header *ssa.BasicBlock
	Blocks map[*ssa.BasicBlock]bool
}

// loopsOf computes the natural loops of fn (one per header; bodies of back
// edges sharing a header are merged).
func loopsOf(fn *ssa.Function) []*Loop {
	byHeader := map[*ssa.BasicBlock]*Loop{}
	var order []*ssa.BasicBlock
	for _, b := range fn.Blocks {
		for _, s := range b.Succs {
			if s.Dominates(b) { // back edge b -> s
				l := byHeader[s]
				if l == nil {
					l = &Loop{Header: s, Blocks: map[*ssa.BasicBlock]bool{s: true}}
					byHeader[s] = l
					order = append(order, s)
				}
				// nodes that reach b without passing through s
				work := []*ssa.BasicBlock{b}
				for len(work) > 0 {
					n := work[len(work)-1]
					work = work[:len(work)-1]
					if l.Blocks[n] {
						continue
					}
					l.Blocks[n] = true
					for _, p := range n.Preds {
						work = append(work, p)
					}
				}
			}
		}
	}
	var out []*Loop
	for _, h := range order {
		out = append(out, byHeader[h])
	}
	return out
}

// innermostLoop: the smallest loop containing block b (nil if none).
func innermostLoop(loops []*Loop, b *ssa.BasicBlock) *Loop {
	var best *Loop
	for _, l := range loops {
		if l.Blocks[b] && (best == nil || len(l.Blocks) < len(best.Blocks)) {
			best = l
		}
	}
	return best
}

// definedIn: the value is computed by an instruction inside the loop.
func (l *Loop) definedIn(v ssa.Value) bool {
	in, ok := v.(ssa.Instruction)
	if !ok {
		return false
	}
	return in.Block() != nil && l.Blocks[in.Block()]
}

// instrBefore: a precedes b in the same block, or a's block strictly
// dominates b's block.
func instrBefore(a, b ssa.Instruction) bool {
	if a.Block() == b.Block() {
		for _, in := range a.Block().Instrs {
			if in == a {
				return true
			}
			if in == b {
				return false
			}
		}
		return false
	}
	return a.Block().Dominates(b.Block())
}
