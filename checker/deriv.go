package main

import (
	"go/token"
	"go/types"

	"golang.org/x/tools/go/ssa"
)

// Deriv computes, for a value inside one top-level function (and its
// closures), the set of root values it may be derived from: an
// over-approximating backward slice over data flow at container granularity.
//
// Roots: parameters (of the top-level function), globals, constants, fresh
// allocations (Alloc, MakeSlice, MakeMap), opaque calls. A "derived ⊆ allowed"
// check on top of it never misses a flow (it may over-report); a "root ∈
// derived" check never over-reports.
type Deriv struct {
	w      *World
	top    *ssa.Function
	stores map[ssa.Value][]ssa.Value // cell (Alloc/MakeSlice/MakeMap/...) -> values stored into it (any depth)
	sums   map[*ssa.Function][]map[int]bool
	depth  int
	// Opaque: callees (by origin) whose results are treated as roots only,
	// without pass-through of their arguments.
	Summaries bool
}

func NewDeriv(w *World, fn *ssa.Function) *Deriv {
	for fn.Parent() != nil {
		fn = fn.Parent()
	}
	d := &Deriv{w: w, top: fn, stores: map[ssa.Value][]ssa.Value{}, sums: map[*ssa.Function][]map[int]bool{}, Summaries: true}
	withClosures(fn, func(f *ssa.Function) {
		allInstrs(f, func(in ssa.Instruction) {
			switch s := in.(type) {
			case *ssa.Store:
				base := d.addrRoot(s.Addr)
				d.stores[base] = append(d.stores[base], s.Val)
			case *ssa.MapUpdate:
				base := d.cell(s.Map)
				d.stores[base] = append(d.stores[base], s.Value, s.Key)
			}
		})
	})
	return d
}

// cell resolves a free variable to the value bound in the enclosing function.
func (d *Deriv) cell(v ssa.Value) ssa.Value {
	for {
		fv, ok := v.(*ssa.FreeVar)
		if !ok {
			return v
		}
		fn := fv.Parent()
		idx := -1
		for i, f := range fn.FreeVars {
			if f == fv {
				idx = i
			}
		}
		var bound ssa.Value
		if fn.Parent() != nil && idx >= 0 {
			withClosures(d.top, func(f *ssa.Function) {
				allInstrs(f, func(in ssa.Instruction) {
					if mc, ok := in.(*ssa.MakeClosure); ok && mc.Fn == fn && idx < len(mc.Bindings) {
						bound = mc.Bindings[idx]
					}
				})
			})
		}
		if bound == nil {
			return v
		}
		v = bound
	}
}

// addrRoot: the storage cell an address expression writes into, at container
// granularity (the Alloc, the slice/map value, or a pointer value).
func (d *Deriv) addrRoot(addr ssa.Value) ssa.Value {
	for {
		addr = d.cell(addr)
		switch a := addr.(type) {
		case *ssa.FieldAddr:
			addr = a.X
		case *ssa.IndexAddr:
			addr = a.X
		case *ssa.Slice:
			addr = a.X
		case *ssa.ChangeType:
			addr = a.X
		case *ssa.Convert:
			addr = a.X
		case *ssa.Phi:
			return a
		case *ssa.UnOp:
			if a.Op == token.MUL {
				// store through a loaded pointer/slice header: the container
				addr = a.X
				continue
			}
			return a
		default:
			return addr
		}
	}
}

type rootSet map[ssa.Value]bool

// Roots returns the roots v may derive from.
func (d *Deriv) Roots(v ssa.Value) rootSet {
	out := rootSet{}
	d.walk(v, out, map[ssa.Value]bool{})
	return out
}

func isPointerLike(t types.Type) bool {
	switch t.Underlying().(type) {
	case *types.Pointer, *types.Interface:
		return true
	}
	return false
}

func (d *Deriv) walk(v ssa.Value, out rootSet, seen map[ssa.Value]bool) {
	if v == nil {
		return
	}
	v = d.cell(v)
	if seen[v] {
		return
	}
	seen[v] = true
	// values written into this container / cell anywhere in the function
	for _, sv := range d.stores[v] {
		d.walk(sv, out, seen)
	}
	switch x := v.(type) {
	case *ssa.Parameter:
		if x.Parent() == d.top {
			out[x] = true
		} else {
			// parameter of a closure: bound at its call sites; treat as root
			out[x] = true
		}
	case *ssa.FreeVar, *ssa.Global, *ssa.Const, *ssa.Function, *ssa.Builtin:
		out[x] = true
	case *ssa.Alloc:
		out[x] = true
		d.mutatedBy(x, out, seen)
	case *ssa.MakeSlice, *ssa.MakeMap, *ssa.MakeChan:
		out[x] = true
		// a map or slice handed to a function of the analysed packages that
		// writes into that parameter is filled from the call's other arguments
		d.filledBy(x, out, seen)
		// a buffer filled with copy(buf[..], src)
		if ms, isMS := x.(*ssa.MakeSlice); isMS {
			d.copiedInto(ms, out, seen, 0)
		}
	case *ssa.MakeClosure:
		out[x] = true
		for _, b := range x.Bindings {
			d.walk(b, out, seen)
		}
	case *ssa.Phi:
		for _, e := range x.Edges {
			d.walk(e, out, seen)
		}
	case *ssa.UnOp:
		d.walk(x.X, out, seen)
	case *ssa.BinOp:
		d.walk(x.X, out, seen)
		d.walk(x.Y, out, seen)
	case *ssa.FieldAddr:
		d.walk(x.X, out, seen)
	case *ssa.IndexAddr:
		d.walk(x.X, out, seen)
	case *ssa.Field:
		d.walk(x.X, out, seen)
	case *ssa.Index:
		d.walk(x.X, out, seen)
	case *ssa.Lookup:
		d.walk(x.X, out, seen)
	case *ssa.Slice:
		d.walk(x.X, out, seen)
	case *ssa.ChangeType:
		d.walk(x.X, out, seen)
	case *ssa.Convert:
		d.walk(x.X, out, seen)
	case *ssa.ChangeInterface:
		d.walk(x.X, out, seen)
	case *ssa.MakeInterface:
		d.walk(x.X, out, seen)
	case *ssa.TypeAssert:
		d.walk(x.X, out, seen)
	case *ssa.SliceToArrayPointer:
		d.walk(x.X, out, seen)
	case *ssa.Extract:
		if c, ok := x.Tuple.(*ssa.Call); ok {
			d.walkCall(c, x.Index, out, seen)
		} else {
			d.walk(x.Tuple, out, seen)
		}
	case *ssa.Range:
		d.walk(x.X, out, seen)
	case *ssa.Next:
		d.walk(x.Iter, out, seen)
	case *ssa.Call:
		d.walkCall(x, -1, out, seen)
	default:
		out[v] = true
	}
}

// copiedInto: sources of copy(dst, src) calls whose dst is v or a re-slice of v.
func (d *Deriv) copiedInto(v ssa.Value, out rootSet, seen map[ssa.Value]bool, depth int) {
	refs := v.Referrers()
	if refs == nil || depth > 3 {
		return
	}
	for _, ref := range *refs {
		switch r := ref.(type) {
		case *ssa.Slice:
			if r.X == v {
				d.copiedInto(r, out, seen, depth+1)
			}
		case *ssa.ChangeType:
			d.copiedInto(r, out, seen, depth+1)
		case ssa.CallInstruction:
			com := r.Common()
			if b, isB := com.Value.(*ssa.Builtin); isB && b.Name() == "copy" && len(com.Args) == 2 && com.Args[0] == v {
				d.walk(com.Args[1], out, seen)
			}
		}
	}
}

// mutatedBy: a local whose address (or an interface wrapping it) is handed to
// a call may be written by that call from the call's other arguments.
func (d *Deriv) mutatedBy(a ssa.Value, out rootSet, seen map[ssa.Value]bool) {
	refs := a.Referrers()
	if refs == nil {
		return
	}
	for _, ref := range *refs {
		switch r := ref.(type) {
		case *ssa.MakeInterface:
			d.mutatedBy(r, out, seen)
		case *ssa.ChangeInterface:
			d.mutatedBy(r, out, seen)
		case *ssa.Slice:
			if r.X == a {
				d.mutatedBy(r, out, seen)
			}
		case *ssa.FieldAddr:
			d.mutatedBy(r, out, seen)
		case *ssa.IndexAddr:
			if r.X == a {
				d.mutatedBy(r, out, seen)
			}
		case ssa.CallInstruction:
			com := r.Common()
			if b, isB := com.Value.(*ssa.Builtin); isB {
				// only copy(dst, src) writes into an argument
				if b.Name() == "copy" && len(com.Args) == 2 && com.Args[0] == a {
					d.walk(com.Args[1], out, seen)
				}
				continue
			}
			for _, arg := range com.Args {
				if arg != a {
					d.walk(arg, out, seen)
				}
			}
			if com.IsInvoke() && com.Value != a {
				d.walk(com.Value, out, seen)
			}
		}
	}
}

func (d *Deriv) walkCall(c *ssa.Call, result int, out rootSet, seen map[ssa.Value]bool) {
	com := &c.Call
	if b, ok := com.Value.(*ssa.Builtin); ok {
		switch b.Name() {
		case "len", "cap":
			return // a length is not the data
		}
		for _, a := range com.Args {
			d.walk(a, out, seen)
		}
		return
	}
	if sf := staticCallee(c); sf != nil && sf.Blocks != nil && d.Summaries && d.depth < 6 && d.inScope(sf) {
		if _, isClosure := com.Value.(*ssa.MakeClosure); !isClosure && sf.Parent() == nil {
			sum := d.summary(sf)
			idx := result
			if idx < 0 {
				idx = 0
			}
			if idx < len(sum) {
				if sum[idx][-1] {
					out[c] = true // returns something fresh / opaque
				}
				for pi := range sum[idx] {
					if pi >= 0 && pi < len(com.Args) {
						d.walk(com.Args[pi], out, seen)
					}
				}
				// pointer-like results may additionally be mutated later
				if isPointerLike(c.Type()) {
					d.mutatedBy(c, out, seen)
				}
				return
			}
		}
	}
	// closure call in the same function: results derive from what the closure returns
	if sf := staticCallee(c); sf != nil && sf.Parent() != nil && sf.Blocks != nil {
		for _, r := range returnsOf(sf) {
			if result < 0 && len(r.Results) > 0 {
				d.walk(r.Results[0], out, seen)
			} else if result >= 0 && result < len(r.Results) {
				d.walk(r.Results[result], out, seen)
			}
		}
		for _, a := range com.Args {
			d.walk(a, out, seen)
		}
		return
	}
	// opaque: the call is a root and everything handed to it may flow out
	out[c] = true
	for _, a := range com.Args {
		d.walk(a, out, seen)
	}
	if com.IsInvoke() {
		d.walk(com.Value, out, seen)
	} else if _, isFn := com.Value.(*ssa.Function); !isFn {
		d.walk(com.Value, out, seen)
	}
	if isPointerLike(c.Type()) {
		d.mutatedBy(c, out, seen)
	}
}

func (d *Deriv) inScope(fn *ssa.Function) bool {
	p := fnPkg(fn)
	if p == nil {
		return false
	}
	switch p.Path() {
	case pathV2, pathLib, pathTop, pathMainV2:
		return true
	}
	return d.top != nil && fnPkg(d.top) == p
}

// summary: for each result index, the set of parameter indices (into
// fn.Params, receiver first) it may derive from; -1 marks fresh/opaque/const.
func (d *Deriv) summary(fn *ssa.Function) []map[int]bool {
	if s, ok := d.sums[fn]; ok {
		return s
	}
	n := fn.Signature.Results().Len()
	res := make([]map[int]bool, n)
	for i := range res {
		res[i] = map[int]bool{}
	}
	d.sums[fn] = res // recursion: empty so far
	sub := &Deriv{w: d.w, top: fn, stores: map[ssa.Value][]ssa.Value{}, sums: d.sums, depth: d.depth + 1, Summaries: true}
	withClosures(fn, func(f *ssa.Function) {
		allInstrs(f, func(in ssa.Instruction) {
			switch s := in.(type) {
			case *ssa.Store:
				base := sub.addrRoot(s.Addr)
				sub.stores[base] = append(sub.stores[base], s.Val)
			case *ssa.MapUpdate:
				base := sub.cell(s.Map)
				sub.stores[base] = append(sub.stores[base], s.Value, s.Key)
			}
		})
	})
	for _, r := range returnsOf(fn) {
		for i, rv := range r.Results {
			for root := range sub.Roots(rv) {
				if p, ok := root.(*ssa.Parameter); ok && p.Parent() == fn {
					for pi, fp := range fn.Params {
						if fp == p {
							res[i][pi] = true
						}
					}
				} else {
					res[i][-1] = true
				}
			}
		}
	}
	return res
}

// HasRoot reports whether v may derive from root r.
func (d *Deriv) HasRoot(v, r ssa.Value) bool { return d.Roots(v)[r] }

// OnlyFrom: every non-constant root of v satisfies allowed.
func (d *Deriv) OnlyFrom(v ssa.Value, allowed func(root ssa.Value) bool) (bool, ssa.Value) {
	for r := range d.Roots(v) {
		if _, isConst := r.(*ssa.Const); isConst {
			continue
		}
		if !allowed(r) {
			return false, r
		}
	}
	return true, nil
}

// Visited returns every value met on the backward slice of v (roots and
// intermediate values).
func (d *Deriv) Visited(v ssa.Value) map[ssa.Value]bool {
	seen := map[ssa.Value]bool{}
	d.walk(v, rootSet{}, seen)
	return seen
}

// filledBy: v (a map or slice made here) is passed to an in-scope function
// that stores into the corresponding parameter: what is stored derives from
// the call's other arguments.
func (d *Deriv) filledBy(v ssa.Value, out rootSet, seen map[ssa.Value]bool) {
	refs := v.Referrers()
	if refs == nil {
		return
	}
	for _, ref := range *refs {
		var c ssa.CallInstruction
		switch r := ref.(type) {
		case ssa.CallInstruction:
			c = r
		case *ssa.ChangeType:
			d.filledBy(r, out, seen)
			continue
		default:
			continue
		}
		sf := staticCallee(c)
		if sf == nil || sf.Blocks == nil || !d.inScope(sf) || sf.Parent() != nil {
			continue
		}
		com := c.Common()
		for i, a := range com.Args {
			if a != v || i >= len(sf.Params) || !d.writesParam(sf, i, 0) {
				continue
			}
			for j, b := range com.Args {
				if j != i {
					d.walk(b, out, seen)
				}
			}
		}
	}
}

// writesParam: fn stores into the container its parameter #i refers to
// (directly, or by handing it to an in-scope function that does).
func (d *Deriv) writesParam(fn *ssa.Function, i int, depth int) bool {
	if depth > 2 {
		return false
	}
	p := fn.Params[i]
	sub := &Deriv{w: d.w, top: fn, stores: map[ssa.Value][]ssa.Value{}, sums: d.sums, depth: d.depth + 1}
	found := false
	withClosures(fn, func(f *ssa.Function) {
		allInstrs(f, func(in ssa.Instruction) {
			switch s := in.(type) {
			case *ssa.Store:
				if sub.addrRoot(s.Addr) == ssa.Value(p) {
					found = true
				}
			case *ssa.MapUpdate:
				if sub.cell(s.Map) == ssa.Value(p) {
					found = true
				}
			case ssa.CallInstruction:
				sf := staticCallee(s)
				if sf == nil || sf.Blocks == nil || !d.inScope(sf) || sf == fn {
					return
				}
				for j, a := range s.Common().Args {
					if a == ssa.Value(p) && j < len(sf.Params) && d.writesParam(sf, j, depth+1) {
						found = true
					}
				}
			}
		})
	})
	return found
}
