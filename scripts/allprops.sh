#!/bin/bash
# usage: allprops.sh <dir-with-patch.diff>  — which properties' checks report NEW obligations on the patched tree
D=$(realpath $1)
S=$(mktemp -d /tmp/allp.XXXXXX); trap 'rm -rf $S' EXIT
rsync -a --exclude .git /repo/ $S/
(cd $S && git init -q . 2>/dev/null; git apply $D/patch.diff) || { echo "PATCH-DOES-NOT-APPLY"; exit 3; }
export PATH=/opt/veriftools/go1.26.8/bin:$PATH GOTOOLCHAIN=local GOFLAGS=-mod=mod GOPROXY=off GOWORK=off
${JDLINT:-/verif/bin/jdlint} -property all -root $S 2>&1 | python3 -c "
import sys,json
for l in sys.stdin:
    if not l.startswith('{'): continue
    d=json.loads(l); p=d['property']
    try: base=set(tuple(x) for x in json.load(open('/tmp/baseline_bad_%s.json'%p)))
    except Exception: base=set()
    new=[o for o in (d.get('bad') or []) if (o['rule'],o['construct']) not in base]
    for o in new: print(p,'[%s] %s: %s'%(o['rule'],o['construct'],o['why'][:150]))
"
