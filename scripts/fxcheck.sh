#!/bin/bash
# usage: fxcheck.sh <jdlint-binary> base | benign <id>... | seeds <Cnn>... | allbenign | allseeds
# Development aid for changing a rule: (base) the unchanged tree reports exactly what it reported before;
# (benign) a stored behaviour-preserving patch is QUIET under all 18 checks; (seeds) every stored seed of a
# property is still reported by that property's check. Nothing here decides a property.
export JDLINT=$(realpath $1); shift
mode=$1; shift
export PATH=/opt/veriftools/go1.26.8/bin:$PATH GOTOOLCHAIN=local GOFLAGS=-mod=mod GOPROXY=off GOWORK=off
apply_and_lint() { # dir-with-patch property|all
  S=$(mktemp -d /tmp/fxc.XXXXXX); rsync -a --exclude .git /repo/ $S/
  (cd $S && git init -q . 2>/dev/null; git apply $1/patch.diff 2>/dev/null || patch -p1 -s < $1/patch.diff >/dev/null 2>&1) || { echo "SKIP(patch does not apply)"; rm -rf $S; return; }
  $JDLINT -property $2 -root $S ${3:-} 2>&1 | python3 -c "
import sys,json
out=[]
for l in sys.stdin:
    if not l.startswith('{'):
        if 'CHECKER-ERROR' in l: out.append('CHECKER-ERROR '+l.strip()[:200])
        continue
    d=json.loads(l); p=d.get('property','$2')
    try: base=set(tuple(x) for x in json.load(open('/tmp/baseline_bad_%s.json'%p)))
    except Exception: base=set()
    for o in (d.get('bad') or []):
        if (o['rule'],o['construct']) not in base: out.append('%s [%s] %s: %s'%(p,o['rule'],o['construct'],o['why'][:120]))
print('\n'.join(out))
"
  rm -rf $S
}
export -f apply_and_lint
case $mode in
base)
  $JDLINT -property all -root /repo 2>&1 | python3 -c "
import sys,json
n=0
for l in sys.stdin:
    if not l.startswith('{'): continue
    d=json.loads(l); p=d['property']; n+=1
    base=set(tuple(x) for x in json.load(open('/tmp/baseline_bad_%s.json'%p)))
    now=set((o['rule'],o['construct']) for o in (d.get('bad') or []))
    for x in sorted(now-base): print('BASE-NEW',p,x)
    for x in sorted(base-now): print('BASE-LOST',p,x)
print('properties evaluated',n)
";;
benign)
  for id in "$@"; do r=$(apply_and_lint /verif/benign/$id all); echo "== $id: ${r:-QUIET}"; done;;
allbenign)
  ls /verif/benign | xargs -P 6 -I{} bash -c 'r=$(apply_and_lint /verif/benign/{} all); echo "== {}: ${r:-QUIET}" | head -5' | grep -v QUIET; echo done;;
seeds)
  for p in "$@"; do ls -d /verif/seeded/$p-?; done | xargs -P 6 -I{} bash -c 'd={}; id=$(basename $d); p=${id%%-*}; r=$(apply_and_lint $d $p -json); n=$(echo -n "$r" | grep -c "\["); echo "$id NEW=$n $(echo "$r" | head -1 | cut -c1-100)"' | sort;;
allseeds)
  ls -d /verif/seeded/C??-? | xargs -P 6 -I{} bash -c 'd={}; id=$(basename $d); p=${id%%-*}; r=$(apply_and_lint $d $p -json); n=$(echo -n "$r" | grep -c "\["); echo "$id NEW=$n $(echo "$r" | head -1 | cut -c1-100)"' | sort;;
esac
