#!/bin/bash
# usage: ingest7.sh Cnn  — copies a round-7 agent's OUT/Cnn-{a,b,c} to /tmp/seed7/Cnn-{e,f,g}
p=$1; mkdir -p /tmp/seed7
for pair in a:e b:f c:g; do
  s=${pair%%:*}; t=${pair##*:}
  src=/tmp/wt/S7$p/OUT/$p-$s
  [ -d $src ] || { echo "missing $src"; continue; }
  rm -rf /tmp/seed7/$p-$t; cp -r $src /tmp/seed7/$p-$t
done
