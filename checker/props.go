package main

import (
	"fmt"
	"os"
	"runtime/debug"
	"strings"

	"golang.org/x/tools/go/ssa"
)

var commonAssumptions = []string{
	"the program analysed is exactly what `go list` reports for /repo's working tree under linux/amd64 without build tags (test files are not part of any rule)",
	"go/types, go/ssa and the VTA/CHA call graphs of golang.org/x/tools v0.50.0 are faithful to the compiled program",
	"external packages behave as their frozen summaries say (read-only unless listed as mutators; Unmarshal/Marshal return errors instead of panicking)",
	"values entering through the Go API were built by this package's constructors (no nil JsonNode inside containers)",
}

// scope helpers -----------------------------------------------------------

func nameIn(names ...string) func(*ssa.Function) bool {
	set := map[string]bool{}
	for _, n := range names {
		set[n] = true
	}
	return func(fn *ssa.Function) bool { return set[canonFnName(fn)] }
}

func equalsSide(fn *ssa.Function) bool {
	switch canonFnName(fn) {
	case "Equals", "hashCode", "ident", "sameContainerType", "dispatch", "combine":
		return true
	}
	return false
}

func diffSide(fn *ssa.Function) bool {
	n := canonFnName(fn)
	return strings.HasPrefix(n, "diff") || n == "Diff" || n == "newPathSetKeys" || n == "getPatchStrategy"
}

func patchSide(fn *ssa.Function) bool {
	switch canonFnName(fn) {
	case "patch", "patchAll", "Patch", "pathIdent", "ident":
		return true
	}
	return false
}

func listModePatch(fn *ssa.Function) bool {
	if fn.Signature.Recv() != nil {
		switch typeName(fn.Signature.Recv().Type()) {
		case "jsonSet", "jsonMultiset":
			return false
		}
	}
	return true
}

func setModePatch(fn *ssa.Function) bool { return !listModePatch(fn) || canonFnName(fn) == "patchAll" }

var libOptExempt = map[string]string{
	"lib.(jsonSet).diff→lib.(jsonSet).Equals":           "reachable only when SET/Setkeys and MERGE metadata are combined; C17 quantifies over single metadata values",
	"lib.(jsonMultiset).diff→lib.(jsonMultiset).Equals": "reachable only when MULTISET and MERGE metadata are combined; C17 quantifies over single metadata values",
	"lib.(jsonObject).pathIdent→invoke.hashCode":        "reachable only under SET together with Setkeys; with Setkeys alone v1 diffs positionally; C17 quantifies over single metadata values",
}

func init() {
	register(&PropSpec{ID: "C01",
		Explain:     "Decides necessary structural conditions of the v2 diff-then-patch round trip: (R-FWD) every recursive patch call hands the callee the caller's own old/new values, strategy and remaining path; (R-OPTFWD, patch side) identity lookups in patch use the options the path element prescribes; (R-PATHFRESH) no hunk shares its path's backing array with the recursion; (R-KINDS) the path element kind a container's diff emits is routed by next()+dispatch back to the same container semantics and accepted by its patch; (R-PROV) removes come from the receiver side, adds from the argument side. (R-CURSOR) at every use of the list walk's path cursor (index of the next hunk, path of a nested diff) the cursor equals pathIndex plus the number of elements of the second list already passed — decided by an abstract interpretation over constant offsets and the two end-of-list predicates; the element handed on as the next before-context is b[B-1]. (R-HUNKRAW) set/multiset diffs never store their own view of the array in a hunk. (R-ROOTPATH) every exported Diff starts at the empty path. (R-HASHMOVE, identity clause) values an identity is built from reach the digest with their keys.",
		NotDecided:  "Which elements the LCS walk moves into Remove/Add (the cursor-to-index relation itself is decided by R-CURSOR), list splice arithmetic, keyed-set matching on concrete values: value-level, not decided.",
		Assumptions: commonAssumptions,
		Run: func(w *World, r *Report) {
			v2 := w.Pkg(pathV2)
			pf := newPatchFamily(w, v2, "v2")
			safely(r, "ruleEveryHunk", func() { ruleEveryHunk(w, r, pf) })
			safely(r, "ruleNotIgnoredVia", func() { ruleNotIgnoredVia(w, r, pf) })
			safely(r, "ruleFWD", func() { ruleFWD(w, r, pf, []string{"pathAhead", "oldValues", "newValues", "strategy"}) })
			ruleOptFwd(w, r, v2, "v2", "Option", func(fn *ssa.Function) bool { return patchSide(fn) || equalsSide(fn) || diffSide(fn) }, nil)
			safely(r, "ruleHunkRaw", func() { ruleHunkRaw(w, r, v2, "v2") })
			safely(r, "ruleRootPath", func() { ruleRootPath(w, r, v2, "v2") })
			safely(r, "ruleCursor", func() { ruleCursor(w, r, v2, "v2") })
			safely(r, "rulePathFresh", func() { rulePathFresh(w, r, v2, "v2") })
			safely(r, "ruleKinds", func() { ruleKinds(w, r, v2) })
			safely(r, "ruleProv", func() { ruleProv(w, r, v2, "v2", v2Prov) })
			nt := newNodeTypes(w, v2, "v2")
			safely(r, "ruleHashMove", func() { ruleHashMove(w, r, nt) })
			safely(r, "ruleHashCover", func() { ruleHashCover(w, r, nt) })
			safely(r, "ruleDeleteVoid", func() { ruleDeleteVoid(w, r, pf) })
			safely(r, "ruleValuesFresh", func() { ruleValuesFresh(w, r, v2, "v2", "Before", "Remove", "Add", "After") })
			safely(r, "ruleIdentProv", func() { ruleIdentProv(w, r, v2, "v2") })
			safely(r, "ruleIdentBinds", func() { ruleIdentBinds(w, r, v2, "v2") })
			safely(r, "ruleKeyBind", func() { ruleKeyBind(w, r, pf) })
			safely(r, "ruleSearchAll", func() { ruleSearchAll(w, r, pf, setModePatch) })
			safely(r, "ruleChildResult", func() { ruleChildResult(w, r, pf) })
			safely(r, "ruleHashDom", func() {
				ruleHashDom(w, r, nt, map[string]bool{"jsonString": true, "jsonNumber": true, "jsonBool": true, "jsonNull": true, "jsonList": true, "jsonObject": true})
			})
			safely(r, "ruleHashInjective", func() { ruleHashInjective(w, r, nt) })
				safely(r, "ruleHashZero", func() { ruleHashZero(w, r, nt) })
			safely(r, "ruleArrayDispatch", func() { ruleArrayDispatch(w, r, v2, "v2", "diff", "patch") })
			safely(r, "ruleObjRecurse", func() { ruleObjRecurse(w, r, v2, "v2") })
			r.Floor("R-PATHFRESH", 12)
			r.Floor("R-KINDS", 5)
			r.Floor("R-FWD", 32)
			r.Floor("R-OPTFWD", 10)
		}})

	register(&PropSpec{ID: "C03",
		Explain:     "Decides that a strict list-mode hunk can only commit behind its checks: (R-FWD, all roles) before/after context, old/new values and strategy reach the array they belong to at any depth; (R-PATCHRESULT) the error and the result of every nested patch are consumed; (R-EXPECT) in every patch implementation a list-mode diff can reach, every success return is cut off from entry by the successful comparison of old value / removed elements / before and after context, and the failing side of each comparison only returns errors. (R-EQSIZE) the object and list Equals, which walk one operand only, compare both lengths on every path to a non-false result — a strict hunk compares removed values and context with Equals, so containment instead of equality lets mismatching targets through. Context checks extracted into helper methods are verified inside the helper and accepted through the caller's err == nil edge.",
		NotDecided:  "That the compared position is the adjacent element (index arithmetic), that only what the hunks say is changed (in-place aliasing of the target), behaviour for the -1 append index.",
		Assumptions: commonAssumptions,
		Run: func(w *World, r *Report) {
			v2 := w.Pkg(pathV2)
			pf := newPatchFamily(w, v2, "v2")
			safely(r, "ruleFWD", func() {
				ruleFWD(w, r, pf, []string{"pathAhead", "before", "oldValues", "newValues", "after", "strategy"})
			})
			safely(r, "rulePatchResult", func() { rulePatchResult(w, r, pf, listModePatch) })
			safely(r, "ruleExpect", func() { ruleExpect(w, r, pf, listModePatch) })
			safely(r, "ruleDescend", func() { ruleDescend(w, r, pf) })
			safely(r, "ruleNotIgnored", func() { ruleNotIgnored(w, r, pf, listModePatch) })
			safely(r, "ruleNotIgnoredVia", func() { ruleNotIgnoredVia(w, r, pf) })
			safely(r, "ruleEveryHunk", func() { ruleEveryHunk(w, r, pf) })
			safely(r, "ruleCreateOnlyMerge", func() { ruleCreateOnlyMerge(w, r, pf, nil) })
			{
				// exactness of Equals: strict checks compare with it
				ntq := newNodeTypes(w, v2, "v2")
				safely(r, "ruleTolerance", func() { ruleTolerance(w, r, ntq) })
				safely(r, "ruleNodeCompare", func() { ruleNodeCompare(w, r, ntq) })
				safely(r, "ruleTypeGuard", func() { ruleTypeGuard(w, r, ntq) })
			}
			safely(r, "ruleKinds", func() { ruleKinds(w, r, v2) })
			safely(r, "ruleCtxPos", func() { ruleCtxPos(w, r, pf) })
			safely(r, "ruleChildResult", func() { ruleChildResult(w, r, pf) })
			// hand-edited patches reach Patch through the native reader: every context line must arrive in the hunk
			r.Only(func(o Ob) bool { return o.Rule == "R-AUTOMATON" }, func(sub *Report) { safely(sub, "ruleAutomaton", func() { ruleAutomaton(w, sub, v2) }) })
			safely(r, "ruleArrayDispatch", func() { ruleArrayDispatch(w, r, v2, "v2", "patch") })
			safely(r, "ruleEqSize", func() { ruleEqSize(w, r, newNodeTypes(w, v2, "v2")) })
			r.Floor("R-EXPECT", 9)
			r.Floor("R-FWD", 48)
			r.Floor("R-PATCHRESULT", 6)
		}})

	register(&PropSpec{ID: "C04",
		Explain:     "Decides structural necessary conditions of Equals: (R-TYPEGUARD) every Equals can answer anything but false only after a successful assertion that the (dispatched) argument has the receiver's own type; (R-HASHDOM) hash inputs of different node types are domain-separated by a constant 8-byte tag, pairwise distinct — necessary because SET/MULTISET equality compares digests; (R-HASHCOVER) each digest depends on everything the type's Equals compares; (R-OPTFWD, Equals side) nested comparisons receive the caller's options. (R-DISPATCH) the option -> container table extracted from dispatch is SET and SetKeys -> set, MULTISET -> multiset, none -> list; (R-EQSIZE) one-sided container comparisons compare both lengths; (R-TOLERANCE) the numeric Equals compares the plain distance of the two numbers with the plain Precision value: no multiplication, division, rounding or non-zero constant in the slice of the comparison.",
		NotDecided:  "64-bit digest collisions within a type, floating-point rounding of the subtraction itself, reflexivity/symmetry on concrete values.",
		Assumptions: commonAssumptions,
		Run: func(w *World, r *Report) {
			v2 := w.Pkg(pathV2)
			nt := newNodeTypes(w, v2, "v2")
			safely(r, "ruleTypeGuard", func() { ruleTypeGuard(w, r, nt) })
			safely(r, "ruleHashDom", func() { ruleHashDom(w, r, nt, nil) })
			safely(r, "ruleHashCover", func() { ruleHashCover(w, r, nt) })
			safely(r, "ruleHashMove", func() { ruleHashMove(w, r, nt) })
			safely(r, "ruleIdentUse", func() { ruleIdentUse(w, r, v2, "v2") })
			safely(r, "ruleDispatchTable", func() { ruleDispatchTable(w, r, v2) })
			safely(r, "ruleEqSize", func() { ruleEqSize(w, r, nt) })
			safely(r, "ruleHashEq", func() { ruleHashEq(w, r, nt) })
			safely(r, "ruleNodeCompare", func() { ruleNodeCompare(w, r, nt) })
			safely(r, "ruleHashInjective", func() { ruleHashInjective(w, r, nt) })
				safely(r, "ruleHashZero", func() { ruleHashZero(w, r, nt) })
			safely(r, "ruleNoSharedScratch", func() { ruleNoSharedScratch(w, r, v2, "v2") })
			safely(r, "ruleTolerance", func() { ruleTolerance(w, r, nt) })
			safely(r, "ruleOptFwd", func() { ruleOptFwd(w, r, v2, "v2", "Option", equalsSide, nil) })
			r.Floor("R-TYPEGUARD", 8)
			r.Floor("R-HASHDOM", 8)
			r.Floor("R-OPTFWD", 15)
		}})

	register(&PropSpec{ID: "C15",
		Explain:     "Decides purity and determinism of the read-only API: (R-PURE) from Json, Yaml, Equals, Diff of every node type and from DiffElement.Render, Diff.Render/RenderPatch/RenderMerge, Metadata.Render, no reachable instruction writes memory reachable from the receiver or an argument (interprocedural storage-origin analysis with mutation summaries; the patch family may write only into the node it patches); (R-MAPORDER) every range over a map in the v2 library has an order-insensitive body (keyed inserts, commutative accumulation, error/constant returns, appends that are sorted before any other use); (R-NONDET) no call into time or random sources.",
		NotDecided:  "A node taken from a hunk's Add list becomes part of the patched document; a later hunk of the same Patch may update it in place (attributed to the receiver chain). Diffs produced by Diff or ReadMergeString never address the inside of a value they add.",
		Assumptions: commonAssumptions,
		Run: func(w *World, r *Report) {
			v2 := w.Pkg(pathV2)
			pf := newPatchFamily(w, v2, "v2")
			safely(r, "rulePure", func() { rulePure(w, r, v2, pf) })
			safely(r, "ruleMapOrder", func() { ruleMapOrder(w, r, v2, "v2") })
			safely(r, "ruleNoSharedScratch", func() { ruleNoSharedScratch(w, r, v2, "v2") })
			safely(r, "ruleNoNondet", func() { ruleNoNondet(w, r, v2) })
			r.Floor("R-PURE", 30)
			r.Floor("R-MAPORDER", 10)
		}})
}

func init() {
	register(&PropSpec{ID: "C13",
		Explain:     "Decides, site by site, that no instruction reachable from reading arbitrary text (ReadDiff*/ReadPatch*/ReadMerge*/ReadJson*/ReadYaml*/NewPath/NewJsonNode) or from any Patch can panic: every index, slice, make, unchecked type assertion, explicit panic, integer division and call to a panicking library function in that call-graph closure is an obligation discharged by a named schema — S1 the Go compiler's prove pass removed the bounds check, S2 guard facts (branch-edge dataflow over len() and integer terms, closed enumerations, infeasible-edge pruning) imply the bounds, S3 range/len shapes, S5 closed path-element kinds for the panicking type-switch defaults, S6 marshal-cannot-fail (raw() type sets + finiteness of every float that becomes a number), S7 sort callbacks — or reported as an unproved may-panic site. R-CLIERR: neither main package panics or log.Fatals; every error reaches exit status 2. The guard facts are sound under integer wrap-around: a comparison or bound that mentions t+c is used only where t is known not to reach the end of the int range (interval, distance from a length, or a counter). S14: an index that a package function answered for this very slice, every return of which is a negative constant or a position proved inside its parameter, guarded against the negative answer.",
		NotDecided:  "Diff/diffRest and the renderers (their index safety rests on cursor invariants), stack or memory exhaustion, panics inside yaml.v2/encoding/json/jsonpointer, nil JsonNodes injected through the Go API.",
		Assumptions: append([]string{"the compiler's bounds-check elimination is semantics-preserving (a check it removed cannot fail)", "maps held by jsonObject values are non-nil (constructor invariant)"}, commonAssumptions...),
		Run: func(w *World, r *Report) {
			safely(r, "rulePanic", func() { rulePanic(w, r, w.Pkg(pathV2)) })
			safely(r, "ruleErrPropagate", func() { ruleErrPropagate(w, r, w.Pkg(pathV2), "v2", nil) })
			safely(r, "ruleExplicitPanics", func() { ruleExplicitPanics(w, r, w.Pkg(pathV2), "v2") })
			safely(r, "ruleRawArg", func() { ruleRawArg(w, r, w.Pkg(pathV2)) })
			safely(r, "runCLI", func() { runCLI(w, r, "nopanic", "exit") })
			r.Floor("R-PANIC", 150)
			r.Floor("R-CLI/E3", 40)
		}})
}

func runCLI(w *World, r *Report, parts ...string) {
	has := func(p string) bool {
		for _, q := range parts {
			if q == p {
				return true
			}
		}
		return false
	}
	for _, c := range []*cli{newCLI(w, pathMainV2, "v2jd"), newCLI(w, pathTop, "top")} {
		if has("exit") {
			c.ruleExit(r)
		}
		if has("havediff") {
			c.ruleHaveDiff(r)
		}
		if has("output") {
			c.ruleOutput(r)
		}
		if has("flags") {
			c.ruleFlags(r)
		}
		if has("inputs") {
			c.ruleInputs(r)
		}
		if has("modes") {
			c.ruleModes(r)
		}
		if has("plumbing") {
			c.rulePlumbing(r)
			c.rulePatchedRender(r)
		}
		if has("modes") {
			c.ruleLibrarySelect(r)
		}
		if has("nopanic") {
			c.ruleNoPanic(r)
		}
		if has("optfwd") {
			safely(r, "ruleOptFwdFrom", func() { ruleOptFwdFrom(w, r, c.pkg, w.Pkg(pathV2), "v2", "Option", nil, nil) })
			if c.tag == "top" {
				safely(r, "ruleOptFwdFrom", func() { ruleOptFwdFrom(w, r, c.pkg, w.Pkg(pathLib), "lib", "Metadata", nil, nil) })
			}
		}
	}
	if has("havediff") {
		safely(r, "ruleSentinels", func() { ruleSentinels(w, r, w.Pkg(pathV2), "v2") })
		safely(r, "ruleSentinels", func() { ruleSentinels(w, r, w.Pkg(pathLib), "lib") })
	}
}

func init() {
	register(&PropSpec{ID: "C14",
		Explain:     "Decides the command-line contract as control- and data-flow facts of both `package main`s (v2/jd and the top-level binary, incl. its -v2=false routines): E every os.Exit argument is a constant 0/1/2, exit 1 lies exactly on the edge where the diff routine's boolean is true and the other edge exits 0, every error returned by any call reaches a nil test whose failing side exits 2 (or is returned), the exit helpers always exit 2; D the diff routine's boolean is true exactly on the edges `rendered output != the library's empty rendering` and the library returns those sentinels for an empty diff; O in every print routine one value is printed with fmt.Print when -o is empty and written with WriteFile(*output, []byte(s)) otherwise, nothing else reaches stdout, and that value is exactly what Render/RenderPatch/RenderMerge/Json/Yaml returned; F the flag→option table; I readFile/readStdin return the bytes read untransformed and can only fail on a read error, FILE1/FILE2/stdin reach the documented parameters; M for every documented value of -f and -t exactly the documented reader/renderer is reachable and any other value is an error, -yaml selects the document codec; P FILE1→diff reader, FILE2→document reader, Diff(a,b) order; options given to the CLI are the options handed to the library (R-OPTFWD(cli)). V (top-level binary): with -v2=false every reachable library call goes into package lib, otherwise into v2, and no option slice handed on from main is the zero value on a feasible flag combination.",
		NotDecided:  "That `jd -p` of the output reproduces b (that is C01/C02 behaviour), YAML content fidelity, the GitHub-action wrapper and the git diff driver protocol (exempt by name).",
		Assumptions: commonAssumptions,
		Run: func(w *World, r *Report) {
			safely(r, "runCLI", func() { runCLI(w, r, "exit", "havediff", "output", "flags", "inputs", "modes", "plumbing", "optfwd") })
			r.Floor("R-CLI/E", 20)
			r.Floor("R-CLI/E3", 40)
			r.Floor("R-CLI/O", 12)
			r.Floor("R-CLI/M", 40)
		}})
}

func init() {
	register(&PropSpec{ID: "C05",
		Explain:     "Decides structural necessary conditions of `Diff is empty iff Equals`: (R-OPTFWD, diff side) every comparison a diff function makes — Equals, hashCode, ident, dispatch, nested diff — receives the caller's own options, so Diff decides under the options Equals is asked about; (R-CONGRUENCE) an option kind consulted by a type's Equals is consulted by its hashCode, because list diff matches elements by hashCode; (R-HASHDOM restricted to the scalar types that can be list elements) hash inputs carry a type tag, else two unequal elements are matched as common; (R-NOEMPTY) accumulated hunks are emitted only if non-empty and the scalar diff returns the empty diff exactly on the Equals-true edge; CLI half: exit status 1 lies exactly on the edge where the diff routine reports a difference, that boolean is `rendered output != the library's empty rendering`, the sentinels agree with the library, and the CLI hands its options to Diff unchanged. (R-EQSIZE) one-sided container comparisons compare both lengths. R-CLI/AB: the two documents the CLI hands to Diff derive from disjoint inputs on every path. R-OPTFWD also follows calls into helpers that take no options: whatever they call that takes options is reported.",
		NotDecided:  "Whether a non-empty merge diff can render as the sentinel {} (it can: `1` vs `{}`), how tolerance and hashing could be made to agree, digest collisions.",
		Assumptions: commonAssumptions,
		Run: func(w *World, r *Report) {
			v2 := w.Pkg(pathV2)
			safely(r, "ruleIdentFallback", func() { ruleIdentFallback(w, r, v2, "v2") })
			safely(r, "ruleIdentBinds", func() { ruleIdentBinds(w, r, v2, "v2") })
			nt := newNodeTypes(w, v2, "v2")
			safely(r, "ruleOptFwd", func() { ruleOptFwd(w, r, v2, "v2", "Option", diffSide, nil) })
			safely(r, "ruleNodeCompare", func() { ruleNodeCompare(w, r, nt) })
			safely(r, "ruleHashInjective", func() { ruleHashInjective(w, r, nt) })
				safely(r, "ruleHashZero", func() { ruleHashZero(w, r, nt) })
			safely(r, "ruleCongruence", func() { ruleCongruence(w, r, nt) })
			safely(r, "ruleHashMove", func() { ruleHashMove(w, r, nt) })
			safely(r, "ruleHashCover", func() { ruleHashCover(w, r, nt) })
			safely(r, "ruleEqSize", func() { ruleEqSize(w, r, nt) })
			safely(r, "ruleHashEq", func() { ruleHashEq(w, r, nt) })
			safely(r, "ruleIdentUse", func() { ruleIdentUse(w, r, v2, "v2") })
			safely(r, "ruleObjRecurse", func() { ruleObjRecurse(w, r, v2, "v2") })
			safely(r, "ruleNoEmpty", func() { ruleNoEmpty(w, r, v2, "v2", "Remove", "Add") })
			safely(r, "ruleScalarDiffStrict", func() { ruleScalarDiffStrict(w, r, v2, "v2") })
			safely(r, "ruleHashDom", func() {
				ruleHashDom(w, r, nt, map[string]bool{"jsonString": true, "jsonNumber": true, "jsonBool": true, "jsonNull": true, "jsonList": true, "jsonObject": true})
			})
			safely(r, "runCLI", func() { runCLI(w, r, "exit", "havediff", "optfwd") })
			r.Floor("R-OPTFWD", 30)
		}})
}

func init() {
	register(&PropSpec{ID: "C08",
		Explain:     "Decides that set / multiset / keyed-member hunks can only commit behind their expectations: (R-EXPECT) in jsonSet.patch and jsonMultiset.patch every success return that is not a forwarded nested result lies behind the loop over the removed members, every way round that loop passes the lookup hit and a successful Equals of the found member (multiset: the count-underflow schema), every other way out only returns errors, and the whole-value base case lies behind a successful Equals; (R-PATCHRESULT) the outcome of the nested patch of a keyed member is consumed; (R-FWD) the keyed member receives the caller's expectations; (R-KINDS) the path kinds a set/multiset diff emits are the kinds its patch accepts; (R-IDENTUSE) identity hashing (ident/pathIdent) is used only by set diff/patch, never by Equals/hashCode. (R-KEYBIND) every digest compared to select the keyed member contains each looked-up key as data on the paths feasible for the options passed; (R-IDENTPROV) every value entering a member identity is loaded from the member; (R-SEARCHALL) the member search is not cut short. R-IDENTPROV, identity-of-this-member-only: the map a member's identity is collected in starts empty for every candidate of the search.",
		NotDecided:  "Order independence and `other members untouched` on concrete values, non-array targets of set paths (a set hunk applied to a scalar replaces it), digest collisions.",
		Assumptions: commonAssumptions,
		Run: func(w *World, r *Report) {
			v2 := w.Pkg(pathV2)
			safely(r, "ruleIdentFallback", func() { ruleIdentFallback(w, r, v2, "v2") })
			safely(r, "ruleKeyMiss", func() { ruleKeyMiss(w, r, v2, "v2") })
			pf := newPatchFamily(w, v2, "v2")
			safely(r, "ruleExpect", func() { ruleExpect(w, r, pf, setModePatch) })
			safely(r, "rulePatchResult", func() { rulePatchResult(w, r, pf, setModePatch) })
			safely(r, "ruleFWD", func() {
				ruleFWD(w, r, pf, []string{"pathAhead", "before", "oldValues", "newValues", "after", "strategy"})
			})
			ruleOptFwd(w, r, v2, "v2", "Option", func(fn *ssa.Function) bool {
				return patchSide(fn) && !listModePatch(fn) || canonFnName(fn) == "pathIdent" || canonFnName(fn) == "ident"
			}, nil)
			safely(r, "ruleKinds", func() { ruleKinds(w, r, v2) })
			safely(r, "ruleIdentUse", func() { ruleIdentUse(w, r, v2, "v2") })
			safely(r, "ruleIdentProv", func() { ruleIdentProv(w, r, v2, "v2") })
			safely(r, "ruleIdentBinds", func() { ruleIdentBinds(w, r, v2, "v2") })
			safely(r, "ruleSearchAll", func() { ruleSearchAll(w, r, pf, setModePatch) })
			safely(r, "ruleKeyBind", func() { ruleKeyBind(w, r, pf) })
			safely(r, "ruleArrayDispatch", func() { ruleArrayDispatch(w, r, v2, "v2", "patch") })
			safely(r, "ruleChildResult", func() { ruleChildResult(w, r, pf) })
			safely(r, "ruleSetTarget", func() { ruleSetTarget(w, r, pf) })
			safely(r, "ruleNotIgnored", func() { ruleNotIgnored(w, r, pf, setModePatch) })
			safely(r, "ruleNotIgnoredVia", func() { ruleNotIgnoredVia(w, r, pf) })
			safely(r, "ruleEveryHunk", func() { ruleEveryHunk(w, r, pf) })
			r.Floor("R-EXPECT", 6)
		}})
}

var v2Prov = map[string]string{"Remove": "a", "Add": "b", "Before": "b", "After": "a"}

func init() {
	register(&PropSpec{ID: "C07",
		Explain:     "Decides structural necessary conditions of `every hunk is a real difference`: (R-NOEMPTY) an accumulated set/multiset hunk is emitted only behind a test that it removes or adds something, and the scalar diff returns the empty diff exactly on the Equals-true edge; (R-SETMEMBER) the set diff lists a member only on the miss edge of its lookup among the other side's members; (R-PROV) what a hunk removes is drawn from the receiver side only, what it adds from the argument side only; (R-PATHFRESH) a hunk owns its path, so it keeps addressing the location it was made for. (R-BAGCOUNT) the number of copies the multiset diff lists derives from the multiplicities on both sides. (R-CURSOR, R-ROOTPATH) hunks address the position they were computed for; (R-LCSDEP, pairwise clause) same-kind containers are not replaced wholesale.",
		NotDecided:  "That what a hunk removes differs from what it adds, leave-one-out redundancy, the list diff's discarding of an empty accumulator (closure over a mutable cell), multiset surplus counts (sign test on a count difference).",
		Assumptions: commonAssumptions,
		Run: func(w *World, r *Report) {
			v2 := w.Pkg(pathV2)
			safely(r, "ruleIdentFallback", func() { ruleIdentFallback(w, r, v2, "v2") })
			safely(r, "ruleKeyMiss", func() { ruleKeyMiss(w, r, v2, "v2") })
			safely(r, "ruleRootPath", func() { ruleRootPath(w, r, v2, "v2") })
			safely(r, "ruleCursor", func() { ruleCursor(w, r, v2, "v2") })
			safely(r, "ruleNoEmpty", func() { ruleNoEmpty(w, r, v2, "v2", "Remove", "Add") })
			safely(r, "ruleScalarDiffStrict", func() { ruleScalarDiffStrict(w, r, v2, "v2") })
			safely(r, "ruleOptFwd", func() { ruleOptFwd(w, r, v2, "v2", "Option", diffSide, nil) })
			safely(r, "ruleSetMember", func() { ruleSetMember(w, r, v2, "v2", "Remove", "Add") })
			safely(r, "ruleBagCount", func() { ruleBagCount(w, r, v2, "v2", "Remove", "Add") })
			safely(r, "ruleWholeContainer", func() { ruleWholeContainer(w, r, v2, "v2", "Add") })
			safely(r, "ruleWholeObject", func() { ruleWholeObject(w, r, v2, "v2", "Add") })
			r.Only(func(o Ob) bool { return !strings.Contains(o.Key, "no-key-passed-over") }, func(sub *Report) { ruleObjRecurse(w, sub, v2, "v2") })
			// a common subsequence that is not the longest makes the walk restate equal elements (- x / + x)
			r.Only(func(o Ob) bool {
				return o.Rule == "R-LCSDEP" && !strings.Contains(o.Key, "kinds-only")
			}, func(sub *Report) { ruleListDiff(w, sub, v2) })
			nt := newNodeTypes(w, v2, "v2")
			safely(r, "ruleHashMove", func() { ruleHashMove(w, r, nt) })
			safely(r, "ruleHashCover", func() { ruleHashCover(w, r, nt) })
			safely(r, "ruleProv", func() { ruleProv(w, r, v2, "v2", v2Prov) })
			safely(r, "rulePathFresh", func() { rulePathFresh(w, r, v2, "v2") })
			r.Floor("R-PROV", 16)
			r.Floor("R-PATHFRESH", 12)
		}})
}

func init() {
	register(&PropSpec{ID: "C02",
		Explain:     "Decides that the native text format carries hunks losslessly at the level of line kinds: (R-AUTOMATON) the reader's transition / flush / field-effect table is extracted from readDiff's SSA by evaluating one loop iteration under every (state constant, header character) pair with assumption-pruned reachability (the state is the int phi of constants at the line loop, the transition validator closure is checked to be a membership test); the writer's line grammar (field order, line-leading literal per field for void and value elements, metadata and path lines) is extracted from DiffElement.Render the same way; then every sequence of up to three hunks over all hunk shapes C02 names (context absent/boundary/value on each side, 0..2 removes, 0..2 adds, void addition, merge flag, strict hunks followed by merge hunks) is simulated against the extracted table: no line is rejected, every hunk is flushed exactly once (a pending hunk overwritten without a flush is a lost hunk), every line appends the right kind of value to the right field, and the path line resets all four lists; (R-PATHTAB) the path<->JSON mapping tables of Path.JsonNode and NewPath are inverse on the six readable kinds; (R-JSONCODEC) hunk payloads are encoded by json.Marshal only, with and without colour.",
		NotDecided:  "Payload fidelity (escaping by encoding/json), `identical effect on every document` (needs C01), colour output beyond structure, strict-after-merge metadata inheritance (excluded by the property).",
		Assumptions: commonAssumptions,
		Run: func(w *World, r *Report) {
			v2 := w.Pkg(pathV2)
			safely(r, "ruleAutomaton", func() { ruleAutomaton(w, r, v2) })
			safely(r, "rulePathFresh", func() { rulePathFresh(w, r, v2, "v2") })
			safely(r, "rulePathTab", func() { rulePathTab(w, r, v2) })
			safely(r, "ruleJSONCodec", func() { ruleJSONCodec(w, r, v2, "v2") })
			safely(r, "ruleRenderPayload", func() { ruleRenderPayload(w, r, v2, "v2") })
			// what the command prints is the library's rendering, byte for byte (no post-processing in package main)
			r.Only(func(o Ob) bool { return o.Rule == "R-CLI/O" && strings.Contains(o.Key, "is-library-rendering") }, func(sub *Report) { runCLI(w, sub, "output") })
			safely(r, "ruleRawTypes", func() { ruleRawTypes(w, r, v2) })
			safely(r, "ruleDiffReaders", func() { ruleDiffReaders(w, r, v2, "v2", "Diff") })
			safely(r, "ruleRenderAsserts", func() { ruleRenderAsserts(w, r, v2, "v2") })
			safely(r, "ruleScanErr", func() { ruleScanErr(w, r, v2, "v2") })
			r.Floor("R-AUTOMATON", 40)
			r.Floor("R-PATHTAB", 6)
		}})
}

func init() {
	register(&PropSpec{ID: "C16",
		Explain:     "Decides the structural part of JSON/YAML interchangeability: (R-YAMLTYPES) NewJsonNode has an arm for every dynamic type yaml.v2 v2.4.0 and encoding/json can put into an interface{} (map[interface{}]interface{}, map[string]interface{}, []interface{}, string, bool, int, int64, uint64, float64, nil) and each scalar arm yields the matching node type (a string stays a string, whatever it looks like); (R-CODEC) ReadJson* decode with json.Unmarshal and ReadYaml* with yaml.Unmarshal through the same unmarshal()+NewJsonNode path, Json() reaches only json.Marshal and Yaml() only yaml.Marshal (named exceptions: null renders through JSON, void renders as the empty string); (R-JSONCODEC) no other entry point of either codec is used anywhere in the library. (R-RAWINPUT) between Read{Json,Yaml}{String,File} and the decoder the input bytes are only converted, never trimmed or re-sliced.",
		NotDecided:  "Quoting of ambiguous scalars by yaml.v2, float formatting, key types — behaviour of the two codec libraries on run-time values.",
		Assumptions: commonAssumptions,
		Run: func(w *World, r *Report) {
			v2 := w.Pkg(pathV2)
			safely(r, "ruleYamlMergeKey", func() { ruleYamlMergeKey(w, r, v2, "v2") })
			safely(r, "ruleBlankDoc", func() { ruleBlankDoc(w, r, v2, "v2") })
			safely(r, "ruleExplicitPanics", func() { ruleExplicitPanics(w, r, v2, "v2") })
			safely(r, "ruleYamlTypes", func() { ruleYamlTypes(w, r, v2) })
			safely(r, "ruleCodecRoutes", func() { ruleCodecRoutes(w, r, v2, "v2") })
			safely(r, "ruleRenderIdentity", func() { ruleRenderIdentity(w, r, v2) })
			safely(r, "ruleRawArg", func() { ruleRawArg(w, r, v2) })
			safely(r, "ruleRawTypes", func() { ruleRawTypes(w, r, v2) })
			safely(r, "ruleJSONCodec", func() { ruleJSONCodec(w, r, v2, "v2") })
			// the yaml2json / json2yaml translations of the command are the library's readers and renderers, nothing else
			r.Only(func(o Ob) bool {
				return (o.Rule == "R-CLI/O" && strings.Contains(o.Key, "printTranslation") && strings.Contains(o.Key, "is-library-rendering")) ||
					(o.Rule == "R-CLI/M" && (strings.Contains(o.Key, "json2yaml") || strings.Contains(o.Key, "yaml2json")))
			}, func(sub *Report) { runCLI(w, sub, "output", "modes") })
			r.Only(func(o Ob) bool { return o.Rule == "R-CLI/P" }, func(sub *Report) { safely(sub, "runCLI", func() { runCLI(w, sub, "plumbing") }) })
			safely(r, "ruleRawInput", func() { ruleRawInput(w, r, v2, "v2") })
			r.Floor("R-YAMLTYPES", 10)
			r.Floor("R-CODEC", 14)
		}})
}

func init() {
	register(&PropSpec{ID: "C09",
		Explain:     "Decides structural necessary conditions of the RFC 6902 rendering: (R-PTR) writePointer writes a token for every path element or returns an error, every object key reaches the pointer only through jsonpointer.Escape, number-like keys and the key \"-\" are refused before they could be written, set/multiset path elements are refused; (R-PAIR) the only ops emitted are test, remove, add and every remove is emitted right after a test of the same pointer and value; (R-REVADD) all adds of one hunk target one pointer, so the hunk's Add list is traversed backwards (RFC 6902 add inserts before). (R-CTXINDEX) every computed path index in RenderPatch equals index-1 (before context) or index+len(Remove) (after context) as a linear form, phis evaluated edge by edge under guard facts; (R-PURE) RenderPatch does not write into the diff it renders.",
		NotDecided:  "Equivalence with an RFC 6902 evaluator: op order across hunks, the index arithmetic of the context tests.",
		Assumptions: commonAssumptions,
		Run: func(w *World, r *Report) {
			safely(r, "ruleCtxIndex", func() { ruleCtxIndex(w, r, w.Pkg(pathV2)) })
			v2 := w.Pkg(pathV2)
			safely(r, "rulePtr", func() { rulePtr(w, r, v2, "v2") })
			safely(r, "rulePair", func() { rulePair(w, r, v2, "v2") })
			safely(r, "ruleRevAdd", func() { ruleRevAdd(w, r, v2, "v2", "Add") })
			// what the command prints is the library's rendering, byte for byte (no post-processing in package main)
			r.Only(func(o Ob) bool { return o.Rule == "R-CLI/O" && strings.Contains(o.Key, "is-library-rendering") }, func(sub *Report) { runCLI(w, sub, "output") })
			safely(r, "ruleRawTypes", func() { ruleRawTypes(w, r, v2) })
			safely(r, "ruleSentinels", func() { ruleSentinels(w, r, v2, "v2") })
			safely(r, "rulePtrAgree", func() { rulePtrAgree(w, r, v2) })
			safely(r, "rulePureEntries", func() {
				rulePureEntries(w, r, v2, newPatchFamily(w, v2, "v2"), map[string]bool{"Diff.RenderPatch": true})
			})
			r.Floor("R-PTR", 6)
		}})
	register(&PropSpec{ID: "C10",
		Explain:     "Decides structural necessary conditions of `never more permissive than RFC 6902`: (R-OPSUBSET) the reader's op vocabulary is exactly add/remove/test, a test commits only if the next op is a remove of the same pointer with an equal value (each failing side only returns errors), any other op only reaches error returns; (R-PARENT) a test op is consumed as list context only after its pointer was related to the edit's pointer beyond the last index (same array); (R-PTRREAD) pointer tokens are decoded, \"-\" maps to -1, digits to indices; (R-PREPEND) a coalesced add is placed in front of those already collected; (R-FWD on before/after) the context the reader records reaches the array it belongs to at any depth. (R-CTXINDEX) the writer whose output the reader must reproduce addresses index-1 / index+len(Remove). Negative rows of R-PATCHSEQ: a test that is not adjacent to the edit is never folded into before-context, a test above the edit never into after-context. R-DASHAPPEND: the index -1 exit commits only behind loops that let nothing but the boundary marker pass as context, and appends behind the members. R-PREPEND/R-COALESCE: adds coalesced at the append position keep their order; an element with context of its own is not folded into the previous hunk. R-PARENT/R-OPSUBSET compare fields of two different ops. R-AFTERPOS: somewhere in what ReadPatchString reaches the index of the after-context test is compared (==/!=) with the hunk's index plus the number of its removals, and every successful return of a diff lies behind that comparison (the patch tests before the removals, the hunk compares after them).",
		NotDecided:  "The full index case analysis of the context inference (which of up to three ops are context for every op sequence).",
		Assumptions: commonAssumptions,
		Run: func(w *World, r *Report) {
			safely(r, "ruleCtxIndex", func() { ruleCtxIndex(w, r, w.Pkg(pathV2)) })
			v2 := w.Pkg(pathV2)
			pf := newPatchFamily(w, v2, "v2")
			safely(r, "ruleOpSubset", func() { ruleOpSubset(w, r, v2) })
			{
				// exactness of Equals: strict checks compare with it
				ntq := newNodeTypes(w, v2, "v2")
				safely(r, "ruleTolerance", func() { ruleTolerance(w, r, ntq) })
				safely(r, "ruleNodeCompare", func() { ruleNodeCompare(w, r, ntq) })
				safely(r, "ruleTypeGuard", func() { ruleTypeGuard(w, r, ntq) })
			}
			safely(r, "ruleEqSize", func() { ruleEqSize(w, r, newNodeTypes(w, v2, "v2")) })
			safely(r, "ruleCreateOnlyMerge", func() { ruleCreateOnlyMerge(w, r, pf, nil) })
			safely(r, "ruleDescend", func() { ruleDescend(w, r, pf) })
			safely(r, "ruleNotIgnored", func() { ruleNotIgnored(w, r, pf, listModePatch) })
			safely(r, "ruleNotIgnoredVia", func() { ruleNotIgnoredVia(w, r, pf) })
			safely(r, "ruleEveryHunk", func() { ruleEveryHunk(w, r, pf) })
			safely(r, "ruleKinds", func() { ruleKinds(w, r, v2) })
			safely(r, "ruleCtxPos", func() { ruleCtxPos(w, r, pf) })
			safely(r, "ruleDashAppend", func() { ruleDashAppend(w, r, pf) })
			safely(r, "ruleDiffReaders", func() { ruleDiffReaders(w, r, v2, "v2", "Patch") })
			safely(r, "rulePatchSeq", func() { rulePatchSeq(w, r, v2) })
			safely(r, "ruleAfterPos", func() { ruleAfterPos(w, r, v2) })
			safely(r, "ruleParent", func() { ruleParent(w, r, v2) })
			safely(r, "rulePtrRead", func() { rulePtrRead(w, r, v2) })
			safely(r, "rulePtrAgree", func() { rulePtrAgree(w, r, v2) })
			safely(r, "rulePtr", func() { rulePtr(w, r, v2, "v2") })
			safely(r, "rulePrepend", func() { rulePrepend(w, r, v2) })
			safely(r, "ruleFWD", func() { ruleFWD(w, r, pf, []string{"before", "after"}) })
			safely(r, "ruleExpect", func() { ruleExpect(w, r, pf, listModePatch) })
			safely(r, "rulePureEntries", func() { rulePureEntries(w, r, v2, pf, map[string]bool{"Diff.RenderPatch": true}) })
			r.Floor("R-FWD", 16)
		}})
	register(&PropSpec{ID: "C11",
		Explain:     "Decides structural necessary conditions of the RFC 7386 rendering: (R-MERGEHUNK, diff side) every hunk a diff function builds on a path that is control-dependent on merge strategy carries Metadata.Merge and removes nothing; RenderMerge refuses hunks without the flag, turns every void addition into null in the diff it patches into the empty (void) document, and renders that document. (R-VOIDARG) no nested diff is handed the void marker as the other side (nodeList(void) is empty, the deletion would be lost) and the deletion marker is a literal Add: [void].",
		NotDecided:  "Agreement of the rendered document with the RFC 7386 algorithm on concrete values.",
		Assumptions: commonAssumptions,
		Run: func(w *World, r *Report) {
			v2 := w.Pkg(pathV2)
			safely(r, "ruleMergeHunkDiff", func() { ruleMergeHunkDiff(w, r, v2) })
			safely(r, "ruleVoidArg", func() { ruleVoidArg(w, r, v2) })
			safely(r, "ruleHashEq", func() { ruleHashEq(w, r, newNodeTypes(w, v2, "v2")) })
			safely(r, "ruleMergeRender", func() { ruleMergeRender(w, r, v2) })
			safely(r, "rulePathFresh", func() { rulePathFresh(w, r, v2, "v2") })
			safely(r, "ruleDeleteVoid", func() { ruleDeleteVoid(w, r, newPatchFamily(w, v2, "v2")) })
			{
				// RenderMerge builds the document it renders by patching the empty document with the
				// merge hunks: a hunk the object patch drops or does not hand on is missing from the rendering
				pf := newPatchFamily(w, v2, "v2")
				safely(r, "ruleDescend", func() { ruleDescend(w, r, pf) })
				safely(r, "ruleNotIgnored", func() { ruleNotIgnored(w, r, pf, listModePatch) })
				safely(r, "ruleNotIgnoredVia", func() { ruleNotIgnoredVia(w, r, pf) })
				safely(r, "ruleEveryHunk", func() { ruleEveryHunk(w, r, pf) })
			}
			safely(r, "ruleWholeObject", func() { ruleWholeObject(w, r, v2, "v2", "Add") })
			{
				nt := newNodeTypes(w, v2, "v2")
				safely(r, "ruleHashMove", func() { ruleHashMove(w, r, nt) })
				safely(r, "ruleHashInjective", func() { ruleHashInjective(w, r, nt) })
				safely(r, "ruleHashZero", func() { ruleHashZero(w, r, nt) })
				safely(r, "ruleNodeCompare", func() { ruleNodeCompare(w, r, nt) })
				safely(r, "ruleEqSize", func() { ruleEqSize(w, r, nt) })
			}
			// what the command prints is the library's rendering, byte for byte (no post-processing in package main)
			r.Only(func(o Ob) bool { return o.Rule == "R-CLI/O" && strings.Contains(o.Key, "is-library-rendering") }, func(sub *Report) { runCLI(w, sub, "output") })
			safely(r, "ruleRawTypes", func() { ruleRawTypes(w, r, v2) })
			safely(r, "ruleSentinels", func() { ruleSentinels(w, r, v2, "v2") })
			safely(r, "ruleLoopFresh", func() { ruleLoopFresh(w, r, v2, "v2", [][2]string{{"Diff", "RenderMerge"}, {"Diff", "RenderPatch"}}, "Add", "Remove", "Before", "After") })
			safely(r, "ruleObjRecurse", func() { ruleObjRecurse(w, r, v2, "v2") })
		}})
	register(&PropSpec{ID: "C12",
		Explain:     "Decides structural necessary conditions of reading RFC 7386: (R-MERGEHUNK, reader side) every hunk readMergeInto builds carries Metadata.Merge, a null becomes a void addition (delete), and patchAll selects merge strategy exactly for hunks with the flag (R-FWD driver), so the leaf patch replaces instead of demanding an old value. A fresh empty object enters a hunk only on the edge where the patch object has no members (RFC 7386 merges a non-empty patch object member by member). (R-MERGEKEEP) the object patch's merge leaf can answer with the object it was applied to (MergePatch(T, {}) = T). (R-MERGEROOT) the reader never answers with the empty diff and tells the root null apart from a member null — both violated on today's tree and pinned by the suite: known findings K5, K6.",
		NotDecided:  "Conformance with the RFC pseudo-code on values (known divergence: a nested {} over an existing object replaces it).",
		Assumptions: commonAssumptions,
		Run: func(w *World, r *Report) {
			v2 := w.Pkg(pathV2)
			safely(r, "ruleDiffReaders", func() { ruleDiffReaders(w, r, v2, "v2", "Merge") })
			safely(r, "ruleMergeRead", func() { ruleMergeRead(w, r, v2) })
			safely(r, "ruleMergeRoot", func() { ruleMergeRoot(w, r, v2, "v2") })
			safely(r, "ruleMergeKeep", func() { ruleMergeKeep(w, r, newPatchFamily(w, v2, "v2")) })
			safely(r, "ruleHunkNoGlobal", func() { ruleHunkNoGlobal(w, r, v2, "v2", "Before", "Remove", "Add", "After") })
			pf := newPatchFamily(w, v2, "v2")
			safely(r, "ruleFWD", func() { ruleFWD(w, r, pf, []string{"newValues", "strategy", "pathAhead"}) })
			safely(r, "ruleChildResult", func() { ruleChildResult(w, r, pf) })
			safely(r, "ruleLoopFresh", func() { ruleLoopFresh(w, r, v2, "v2", [][2]string{{"", "readMergeInto"}, {"", "ReadMergeString"}}, "Add", "Remove", "Before", "After") })
			safely(r, "ruleDescend", func() { ruleDescend(w, r, pf) })
			safely(r, "ruleNotIgnored", func() { ruleNotIgnored(w, r, pf, listModePatch) })
			safely(r, "ruleNotIgnoredVia", func() { ruleNotIgnoredVia(w, r, pf) })
			safely(r, "ruleEveryHunk", func() { ruleEveryHunk(w, r, pf) })
			safely(r, "ruleDeleteVoid", func() { ruleDeleteVoid(w, r, pf) })
			safely(r, "rulePathFresh", func() { rulePathFresh(w, r, v2, "v2") })
		}})
}

func init() {
	register(&PropSpec{ID: "C06",
		Explain:     "Decides narrow structural necessary conditions of a minimal list diff with context: (R-LCSDEP) the common subsequence handed to the hunk walk is computed by a call that receives the hash sequences of both arrays, each sequence is built from its own side's element hashCodes, the continuation of the walk receives the rest of the caller's sequences, and same-kind containers at the same position are diffed recursively on the sameContainerType-true edge instead of being replaced; (R-CTX1) every Before/After stored into a list hunk is a one-element list and the accumulating hunk is created with its before-context; (R-PROV) Before is drawn from the argument side and After from the receiver side (that is how list patch compares them). (R-CURSOR) the walk's path cursor relation and the handed-on context element b[B-1]; (R-LCSDEP, pairwise clause) one position is replaced by another only behind the false outcome of the same-kind test. R-LCSDEP, one-sided-move clause: every move of list[cursor] into Remove/Add lies behind a test of the other cursor alone (exhausted / on a common element) or behind the false outcome of the same-kind test with no cursor stored in between.",
		NotDecided:  "Minimality itself (size of the edit script against an optimum for every pair) and that the recorded context equals the neighbouring element: numeric/value statements.",
		Assumptions: commonAssumptions,
		Run: func(w *World, r *Report) {
			v2 := w.Pkg(pathV2)
			safely(r, "ruleListDiff", func() { ruleListDiff(w, r, v2) })
			safely(r, "ruleCursor", func() { ruleCursor(w, r, v2, "v2") })
			{
				// the LCS runs over element digests: digests that collide across types or ignore part of a value shorten or lengthen the script
				nt := newNodeTypes(w, v2, "v2")
				safely(r, "ruleHashDom", func() {
					ruleHashDom(w, r, nt, map[string]bool{"jsonString": true, "jsonNumber": true, "jsonBool": true, "jsonNull": true, "jsonList": true, "jsonObject": true})
				})
				safely(r, "ruleHashCover", func() { ruleHashCover(w, r, nt) })
				safely(r, "ruleHashMove", func() { ruleHashMove(w, r, nt) })
				safely(r, "ruleHashInjective", func() { ruleHashInjective(w, r, nt) })
				safely(r, "ruleHashZero", func() { ruleHashZero(w, r, nt) })
			}
			safely(r, "ruleArrayDispatch", func() { ruleArrayDispatch(w, r, v2, "v2", "diff") })
			safely(r, "ruleProv", func() { ruleProv(w, r, v2, "v2", map[string]string{"Before": "b", "After": "a"}) })
		}})
}

func init() {
	register(&PropSpec{ID: "C17",
		Explain:     "Decides narrow structural necessary conditions of the v1 (package lib) round trip and of `diff empty iff Equals`: (R-FWD(lib)) every recursive patch call forwards the caller's own old/new values, strategy and remaining path, and patchAll hands each hunk's own fields and the strategy derived from its path; (R-OPTFWD(lib)) every comparison made by Equals/hashCode/diff code receives the caller's own metadata (three call sites that only matter for metadata combinations outside C17's quantifier are exempt by name, with the reason in the checker's table); (R-PROV(lib)) OldValues are drawn from the receiver side and NewValues from the argument side; (R-NOEMPTY(lib)) accumulated set/multiset hunks are emitted only when non-empty and the scalar diff is empty exactly on the Equals-true edge; (R-PATHFRESH(lib)) hunks own their paths. (R-DELETEVOID(lib)) the object patch deletes a member only for a void result; (R-SCANERR(lib)) a bufio.Scanner is never used without consulting Err().",
		NotDecided:  "Positional list diff arithmetic (reverse order when shrinking, -1 append), in-path metadata decoding on values, rejection of bad patches (not promised by C17).",
		Assumptions: commonAssumptions,
		Run: func(w *World, r *Report) {
			lib := w.Pkg(pathLib)
			pf := newPatchFamily(w, lib, "lib")
			safely(r, "ruleFWD", func() { ruleFWD(w, r, pf, []string{"pathAhead", "oldValues", "newValues", "strategy"}) })
			safely(r, "ruleOptFwd", func() { ruleOptFwd(w, r, lib, "lib", "Metadata", nil, libOptExempt) })
			safely(r, "ruleProv", func() { ruleProv(w, r, lib, "lib", map[string]string{"OldValues": "a", "NewValues": "b"}) })
			safely(r, "ruleNoEmpty", func() { ruleNoEmpty(w, r, lib, "lib", "OldValues", "NewValues") })
			safely(r, "ruleScalarDiffStrict", func() { ruleScalarDiffStrict(w, r, lib, "lib") })
			safely(r, "rulePathFresh", func() { rulePathFresh(w, r, lib, "lib") })
			safely(r, "ruleIdentUse", func() { ruleIdentUse(w, r, lib, "lib") })
			safely(r, "ruleObjRecurse", func() { ruleObjRecurse(w, r, lib, "lib") })
			safely(r, "ruleDeleteVoid", func() { ruleDeleteVoid(w, r, pf) })
			safely(r, "ruleNotIgnored", func() { ruleNotIgnored(w, r, pf, nil) })
			safely(r, "ruleNotIgnoredVia", func() { ruleNotIgnoredVia(w, r, pf) })
			safely(r, "ruleEveryHunk", func() { ruleEveryHunk(w, r, pf) })
			safely(r, "rulePatchResult", func() { rulePatchResult(w, r, pf, nil) })
			safely(r, "ruleRawTypesTag", func() { ruleRawTypesTag(w, r, lib, "lib") })
			safely(r, "ruleDiffReaders", func() { ruleDiffReaders(w, r, lib, "lib", "Diff") })
			safely(r, "ruleNoSharedScratch", func() { ruleNoSharedScratch(w, r, lib, "lib") })
			safely(r, "ruleEqSize", func() { ruleEqSize(w, r, newNodeTypes(w, lib, "lib")) })
			// v1 digests carry no type tags at all: an ordered Equals that decides by digest calls [[]] and [{}] equal while the positional diff reports the difference
			safely(r, "ruleHashEq", func() { ruleHashEq(w, r, newNodeTypes(w, lib, "lib")) })
			safely(r, "ruleHashZero", func() { ruleHashZero(w, r, newNodeTypes(w, lib, "lib")) })
			safely(r, "ruleHunkRaw", func() { ruleHunkRaw(w, r, lib, "lib", "OldValues", "NewValues") })
			// the v1 library as reached through the top-level binary with -v2=false: -p prints the patched document
			r.Only(func(o Ob) bool { return o.Rule == "R-CLI/R" && strings.HasPrefix(o.Key, "top.") }, func(sub *Report) { safely(sub, "runCLI", func() { runCLI(w, sub, "plumbing") }) })
			safely(r, "ruleScanErr", func() { ruleScanErr(w, r, lib, "lib") })
			r.Floor("R-FWD(lib)", 40)
			r.Floor("R-OPTFWD(lib)", 60)
		}})
	register(&PropSpec{ID: "C18",
		Explain:     "Decides narrow structural necessary conditions of the v1 RFC renderings and readers: (R-PTR(lib)) writePointer writes a token for every path element or fails, keys reach the pointer only through jsonpointer.Escape; (R-PAIR(lib)) only test/remove/add ops, every remove right after a test of the same pointer and value; (R-PATHFRESH(lib)) hunks built by the readers own their paths; (R-JSONCODEC(lib)) one JSON encoding. (R-DELETEVOID(lib)) the object patch deletes a member only for a void result — v1 RenderMerge patches the empty document with nulls; (R-SCANERR(lib)).",
		NotDecided:  "Equivalence with RFC 6902 / RFC 7386 evaluators on values; the deferred string-or-integer typing of pointer tokens at patch time.",
		Assumptions: commonAssumptions,
		Run: func(w *World, r *Report) {
			lib := w.Pkg(pathLib)
			safely(r, "rulePtr", func() { rulePtr(w, r, lib, "lib") })
			safely(r, "rulePair", func() { rulePair(w, r, lib, "lib") })
			safely(r, "rulePathFresh", func() { rulePathFresh(w, r, lib, "lib") })
			safely(r, "ruleWholeObject", func() { ruleWholeObject(w, r, lib, "lib", "NewValues") })
			safely(r, "ruleObjRecurse", func() { ruleObjRecurse(w, r, lib, "lib") })
			safely(r, "ruleJSONCodec", func() { ruleJSONCodec(w, r, lib, "lib") })
			safely(r, "ruleDeleteVoid", func() { ruleDeleteVoid(w, r, newPatchFamily(w, lib, "lib")) })
			safely(r, "rulePtrDecoded", func() { rulePtrDecoded(w, r, lib, "lib") })
			safely(r, "ruleEveryHunk", func() { ruleEveryHunk(w, r, newPatchFamily(w, lib, "lib")) })
			safely(r, "ruleHunkNoGlobal", func() { ruleHunkNoGlobal(w, r, lib, "lib", "OldValues", "NewValues") })
			safely(r, "ruleDiffReaders", func() { ruleDiffReaders(w, r, lib, "lib", "Patch", "Merge") })
			safely(r, "ruleSentinels", func() { ruleSentinels(w, r, lib, "lib") })
			safely(r, "ruleScanErr", func() { ruleScanErr(w, r, lib, "lib") })
		}})
}

// safely runs one rule; if the rule cannot be evaluated on this tree (an
// anchor is missing, the rule's own code fails) that rule leaves the property
// undecided — reported as a non-discharged obligation of R-UNDECIDED naming the
// rule — and the other rules of the property still run.
func safely(r *Report, name string, f func()) {
	defer func() {
		if e := recover(); e != nil {
			msg := ""
			if ie, ok := e.(InfraError); ok {
				msg = ie.Msg
			} else {
				msg = fmt.Sprintf("panic in the checker: %v", e)
				if os.Getenv("JDLINT_DEBUG") != "" {
					msg += "\n" + string(debug.Stack())
				}
			}
			key := name + ":" + msg
			if len(key) > 100 {
				key = key[:100]
			}
			r.Unk("R-UNDECIDED", "checker:"+key, "-", "rule "+name+" could not be evaluated on this tree: "+msg+" — the property is undecided as far as this rule goes, which counts as a violation; the other rules were still evaluated")
		}
	}()
	f()
}
