package wit

// K10 (C16): yaml.v2 writes the object key "<<" unquoted and reads `<<:` as a merge key.

import (
	"testing"

	jd "github.com/josephburnett/jd/v2"
)

func TestK10(t *testing.T) {
	for _, s := range []string{`{"<<":"x"}`, `{"<<":{"a":1},"b":2}`} {
		n, _ := jd.ReadJsonString(s)
		back, err := jd.ReadYamlString(n.Yaml())
		if err != nil {
			t.Errorf("%s: Yaml() = %q does not read back: %v", s, n.Yaml(), err)
			continue
		}
		if !back.Equals(n) {
			t.Errorf("%s: Yaml() = %q reads back as %s", s, n.Yaml(), back.Json())
		}
	}
}
