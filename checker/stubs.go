package main

import (
	"encoding/json"
	"fmt"
	"os"
	"os/exec"
	"path/filepath"
	"sort"
	"strings"
	"sync"
)

// Variant is a one-instance break of the real repository, described as an
// anchored search/replace edit. It must still compile; the named rule must
// report it. Variants are the checker's self-test: a rule that cannot see its
// own seeded break says nothing about the property.
type Variant struct {
	ID       string   `json:"id"`
	Property []string `json:"properties"`
	Rule     string   `json:"rule"`
	Expect   string   `json:"expect"` // substring of the construct key that must be reported
	File     string   `json:"file"`
	Find     string   `json:"find"`
	Replace  string   `json:"replace"`
	Edits    []struct {
		File    string `json:"file"`
		Find    string `json:"find"`
		Replace string `json:"replace"`
	} `json:"edits,omitempty"`
	Benign bool   `json:"benign,omitempty"` // behaviour-preserving edit: the check must stay silent
	Note   string `json:"note,omitempty"`
	Patch  string `json:"patch,omitempty"` // unified diff applied with `git apply` instead of search/replace
}

func loadVariants(verif string) []Variant {
	files, _ := filepath.Glob(filepath.Join(verif, "variants", "*.json"))
	sort.Strings(files)
	var out []Variant
	for _, f := range files {
		b, err := os.ReadFile(f)
		if err != nil {
			infra("variants: %v", err)
		}
		var vs []Variant
		if err := json.Unmarshal(b, &vs); err != nil {
			infra("variants %s: %v", f, err)
		}
		out = append(out, vs...)
	}
	// independently written changes kept under seeded/ (must be reported, if
	// they were when recorded) and benign/ (must stay silent)
	metas, _ := filepath.Glob(filepath.Join(verif, "seeded", "*", "meta.json"))
	sort.Strings(metas)
	for _, m := range metas {
		var meta struct {
			ID         string   `json:"id"`
			Property   string   `json:"property"`
			Detected   bool     `json:"detected"`
			DetectedBy []string `json:"detected_by"`
		}
		b, err := os.ReadFile(m)
		if err != nil || json.Unmarshal(b, &meta) != nil || !meta.Detected || len(meta.DetectedBy) == 0 {
			continue
		}
		out = append(out, Variant{ID: "seeded-" + meta.ID, Property: []string{meta.Property}, Rule: "", Expect: "",
			Patch: filepath.Join(filepath.Dir(m), "patch.diff"), Note: "independently seeded change"})
	}
	metas, _ = filepath.Glob(filepath.Join(verif, "benign", "*", "meta.json"))
	sort.Strings(metas)
	for _, m := range metas {
		var meta struct {
			ID         string   `json:"id"`
			Properties []string `json:"properties"`
		}
		b, err := os.ReadFile(m)
		if err != nil || json.Unmarshal(b, &meta) != nil {
			continue
		}
		out = append(out, Variant{ID: "benign-" + meta.ID, Property: meta.Properties, Rule: "-", Expect: "-", Benign: true,
			Patch: filepath.Join(filepath.Dir(m), "patch.diff"), Note: "independently written behaviour-preserving refactoring"})
	}
	return out
}

type variantResult struct {
	ID      string `json:"id"`
	Rule    string `json:"rule"`
	Outcome string `json:"outcome"` // fired | silent | skipped | error | false-alarm | quiet(benign)
	Detail  string `json:"detail,omitempty"`
}

// copyTree makes a scratch copy of the analysed sources outside /repo and /verif.
func copyTree(root string) (string, error) {
	dir, err := os.MkdirTemp("", "jdlint-variant-")
	if err != nil {
		return "", err
	}
	cmd := exec.Command("rsync", "-a", "--exclude", ".git", "--exclude", "*_test.go", "--exclude", "testdata",
		"--exclude", "*.png", "--exclude", "doc", root+"/", dir+"/")
	if out, err := cmd.CombinedOutput(); err != nil {
		os.RemoveAll(dir)
		return "", fmt.Errorf("rsync: %v: %s", err, out)
	}
	return dir, nil
}

func applyEdit(dir, file, find, replace string) (bool, error) {
	p := filepath.Join(dir, file)
	b, err := os.ReadFile(p)
	if err != nil {
		return false, nil // file gone: anchor no longer matches
	}
	s := string(b)
	if strings.Count(s, find) != 1 {
		return false, nil
	}
	return true, os.WriteFile(p, []byte(strings.Replace(s, find, replace, 1)), 0o644)
}

func runVariant(self, root, prop string, v Variant) variantResult {
	res := variantResult{ID: v.ID, Rule: v.Rule}
	dir, err := copyTree(root)
	if err != nil {
		res.Outcome, res.Detail = "error", err.Error()
		return res
	}
	defer os.RemoveAll(dir)
	edits := v.Edits
	if v.File != "" {
		edits = append(edits, struct {
			File    string `json:"file"`
			Find    string `json:"find"`
			Replace string `json:"replace"`
		}{v.File, v.Find, v.Replace})
	}
	if v.Patch != "" {
		cmd := exec.Command("git", "apply", v.Patch)
		cmd.Dir = dir
		if out, err := cmd.CombinedOutput(); err != nil {
			res.Outcome, res.Detail = "skipped", "patch no longer applies to the current tree: "+firstLine(string(out))
			return res
		}
	}
	for _, e := range edits {
		ok, err := applyEdit(dir, e.File, e.Find, e.Replace)
		if err != nil {
			res.Outcome, res.Detail = "error", err.Error()
			return res
		}
		if !ok {
			res.Outcome, res.Detail = "skipped", "anchor text of the seeded edit no longer occurs exactly once in "+e.File
			return res
		}
	}
	cmd := exec.Command(self, "-property", prop, "-root", dir, "-json")
	out, err := cmd.Output()
	if err != nil {
		msg := strings.TrimSpace(string(out))
		if strings.Contains(msg, "load error") || strings.Contains(msg, "type errors") || strings.Contains(msg, "load/type") {
			res.Outcome, res.Detail = "skipped", "variant does not compile on the current tree: "+firstLine(msg)
		} else {
			res.Outcome, res.Detail = "error", firstLine(msg)
		}
		return res
	}
	var parsed struct {
		Bad []Ob `json:"bad"`
	}
	lines := strings.Split(strings.TrimSpace(string(out)), "\n")
	if err := json.Unmarshal([]byte(lines[len(lines)-1]), &parsed); err != nil {
		res.Outcome, res.Detail = "error", "unparsable analyser output: "+firstLine(string(out))
		return res
	}
	base := baselineBad[prop]
	var fresh []Ob
	for _, o := range parsed.Bad {
		if !base[o.Rule+"\x00"+o.Key] {
			fresh = append(fresh, o)
		}
	}
	if v.Benign {
		if len(fresh) == 0 {
			res.Outcome = "quiet(benign)"
		} else {
			res.Outcome, res.Detail = "false-alarm", fmt.Sprintf("[%s] %s: %s", fresh[0].Rule, fresh[0].Key, fresh[0].Why)
		}
		return res
	}
	for _, o := range fresh {
		if strings.HasPrefix(o.Rule, v.Rule) && strings.Contains(o.Key, v.Expect) {
			res.Outcome, res.Detail = "fired", fmt.Sprintf("[%s] %s @ %s", o.Rule, o.Key, o.Pos)
			return res
		}
	}
	res.Outcome = "silent"
	if len(fresh) > 0 {
		res.Detail = fmt.Sprintf("reported something else: [%s] %s", fresh[0].Rule, fresh[0].Key)
	}
	return res
}

func firstLine(s string) string {
	if i := strings.Index(s, "\n"); i >= 0 {
		return s[:i]
	}
	return s
}

// baselineBad: non-discharged obligations of the unmodified tree per property
// (known findings); a variant must add something new.
var baselineBad = map[string]map[string]bool{}

// thorough tier: run every seeded variant of this property in its own
// process on a scratch copy; all must fire (or be skipped because the tree
// changed under their anchor). A silent variant means the checker is broken.
func thorough(spec *PropSpec, w *World, r *Report, verif string, extra map[string]any) {
	self, err := os.Executable()
	if err != nil {
		infra("cannot locate own binary: %v", err)
	}
	base := map[string]bool{}
	for _, o := range r.Obs {
		if o.Status != OK {
			base[o.Rule+"\x00"+o.Key] = true
		}
	}
	baselineBad[spec.ID] = base
	var mine []Variant
	for _, v := range loadVariants(verif) {
		for _, p := range v.Property {
			if p == spec.ID {
				mine = append(mine, v)
			}
		}
	}
	results := make([]variantResult, len(mine))
	sem := make(chan struct{}, 4)
	var wg sync.WaitGroup
	for i, v := range mine {
		wg.Add(1)
		go func(i int, v Variant) {
			defer wg.Done()
			sem <- struct{}{}
			defer func() { <-sem }()
			results[i] = runVariant(self, w.Root, spec.ID, v)
		}(i, v)
	}
	wg.Wait()
	counts := map[string]int{}
	var failed []string
	for _, res := range results {
		counts[res.Outcome]++
		switch res.Outcome {
		case "silent", "error", "false-alarm":
			failed = append(failed, fmt.Sprintf("%s(%s): %s %s", res.ID, res.Rule, res.Outcome, res.Detail))
		}
	}
	extra["variants"] = map[string]any{"applied": len(mine), "outcomes": counts, "results": results}
	selfTestFailures = failed
	altConfig(self, spec, w, r, base, extra)
}

// altConfig re-evaluates the property's rules on the same tree loaded under
// GOARCH=386 (32-bit int / PathIndex, other build-tagged files). Obligations
// that are not discharged there and were discharged under the default
// configuration are violations of the property on that platform and are
// reported as such (key suffixed with the configuration).
func altConfig(self string, spec *PropSpec, w *World, r *Report, base map[string]bool, extra map[string]any) {
	if os.Getenv("JDLINT_GOARCH") != "" {
		return
	}
	cmd := exec.Command(self, "-property", spec.ID, "-root", w.Root, "-json")
	cmd.Env = append(os.Environ(), "JDLINT_GOARCH=386")
	out, err := cmd.Output()
	info := map[string]any{"config": "GOOS=linux GOARCH=386"}
	extra["alt_config"] = info
	if err != nil {
		r.Unk("R-UNDECIDED", "alt-config:GOARCH=386", "-", "the rules could not be evaluated under GOARCH=386: "+firstLine(strings.TrimSpace(string(out))))
		return
	}
	var parsed struct {
		Obligations int  `json:"obligations"`
		Bad         []Ob `json:"bad"`
	}
	lines := strings.Split(strings.TrimSpace(string(out)), "\n")
	if err := json.Unmarshal([]byte(lines[len(lines)-1]), &parsed); err != nil {
		r.Unk("R-UNDECIDED", "alt-config:GOARCH=386", "-", "unparsable analyser output under GOARCH=386: "+firstLine(string(out)))
		return
	}
	info["obligations"] = parsed.Obligations
	fresh := 0
	for _, o := range parsed.Bad {
		if base[o.Rule+"\x00"+o.Key] {
			continue
		}
		fresh++
		r.add(o.Rule, o.Key+"@GOARCH=386", o.Pos, o.Status, "under GOARCH=386: "+o.Why, nil)
	}
	info["not_discharged_only_there"] = fresh
	if fresh == 0 {
		r.Ok("R-ALTCONFIG", "GOARCH=386", "-", fmt.Sprintf("the %d obligations evaluated under GOARCH=386 have the same verdicts as under the default configuration", parsed.Obligations))
	}
}

// selfTestFailures is inspected by main after the verdict on the real tree:
// a violation found there is reported as such (exit 1); only when the tree
// itself is clean does a failed self-test make the run a checker error.
var selfTestFailures []string
