#!/bin/bash
# usage: seedrun.sh <dir> id...  — confirm + check the given seeds of <dir> in parallel (4 at a time)
export SEEDDIR=$1; shift
run1() { id=$1; d=$(mktemp -d /tmp/one.XXXX); cp -r $SEEDDIR/$id $d/; /verif/scripts/seedall.sh $d 2>&1 | cut -c1-330; rm -rf $d; }
export -f run1
printf '%s\n' "$@" | xargs -P 4 -I{} bash -c 'run1 {}'
