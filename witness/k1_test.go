package wit
import ("testing"; jd "github.com/josephburnett/jd/v2")
func TestK1(t *testing.T){
  chk:=func(a,b string, want bool, opts ...jd.Option){ got:=rd(a).Equals(rd(b),opts...); t.Logf("Equals(%s,%s,%v)=%v difflen=%d",a,b,opts,got,len(rd(a).Diff(rd(b),opts...))); if got!=want {t.Errorf("unexpected")} }
  chk(`[2261634.5098039214]`,`["AAAAAAAA"]`,true,jd.SET)
  chk(`[-6.279681224937688e-266]`,`[null]`,true,jd.SET)
  chk(`[[]]`,`[""]`,true,jd.SET)
  chk(`[[]]`,`[""]`,true,jd.MULTISET)
  chk(`[2261634.5098039214]`,`["AAAAAAAA"]`,false)
  chk(`[1.0]`,`[1.05]`,true,jd.Precision(0.1))
}
