#!/usr/bin/env python3
"""Stores behaviour-preserving patches from a directory into /verif/benign/<id>/ with meta.json.
usage: keepbenign.py <srcdir> <kind text>"""
import json, os, re, shutil, sys
src, kind = sys.argv[1], sys.argv[2]
props = [json.loads(l) for l in open('/verif/properties.jsonl')]
for d in sorted(os.listdir(src)):
    p = os.path.join(src, d, 'patch.diff')
    if not os.path.isfile(p):
        continue
    files = sorted(set(re.findall(r'^\+\+\+ b/(\S+)', open(p).read(), re.M)))
    touched = []
    for pr in props:
        if set(pr['anchors']['files']) & set(files):
            touched.append(pr['id'])
    dst = os.path.join('/verif/benign', d)
    os.makedirs(dst, exist_ok=True)
    shutil.copy(p, os.path.join(dst, 'patch.diff'))
    n = os.path.join(src, d, 'NOTES.md')
    if os.path.isfile(n):
        shutil.copy(n, os.path.join(dst, 'NOTES.md'))
    json.dump({'id': d, 'kind': kind, 'files': files, 'properties': touched,
               'also_checked_against': 'all 18 checks (scripts/refcheck.sh)'}, open(os.path.join(dst, 'meta.json'), 'w'), indent=1)
    print(d, files, touched)
