package main

import (
	"encoding/json"
	"flag"
	"fmt"
	"os"
	"runtime/debug"
	"sort"
	"strconv"
	"strings"
	"time"
)

// PropSpec binds a property to the rules that decide its structural clauses.
type PropSpec struct {
	ID          string
	Explain     string
	NotDecided  string
	Assumptions []string
	Run         func(w *World, r *Report)
}

var specs = map[string]*PropSpec{}

func register(s *PropSpec) { specs[s.ID] = s }

func main() {
	prop := flag.String("property", "", "property id (C01..C18)")
	tier := flag.String("tier", "quick", "quick|thorough")
	root := flag.String("root", "/repo", "repository root to analyse")
	verif := flag.String("verif", "/verif", "verification directory (evidence, replay, known findings)")
	replay := flag.String("replay", "", "replay file to re-evaluate")
	dump := flag.String("dump", "", "debug: dump SSA of functions whose name contains this string")
	asJSON := flag.Bool("json", false, "print non-discharged obligations as JSON; write no evidence (used for variants/controls)")
	list := flag.Bool("list", false, "print every obligation")
	flag.Parse()

	status := 2
	defer func() {
		if e := recover(); e != nil {
			if ie, ok := e.(InfraError); ok {
				fmt.Printf("CHECKER-ERROR %s\n", ie.Msg)
			} else {
				fmt.Printf("CHECKER-ERROR panic: %v\n%s\n", e, debug.Stack())
			}
			os.Exit(2)
		}
		os.Exit(status)
	}()

	if *replay != "" {
		b, err := os.ReadFile(*replay)
		if err != nil {
			infra("replay: %v", err)
		}
		var rp struct {
			Property   string `json:"property"`
			Obligation Ob     `json:"obligation"`
		}
		if err := json.Unmarshal(b, &rp); err != nil {
			infra("replay: %v", err)
		}
		spec := specs[rp.Property]
		if spec == nil {
			infra("replay: unknown property %q", rp.Property)
		}
		w := Load(*root)
		r := NewReport(rp.Property)
		runRules(spec, w, r)
		found := false
		for _, o := range r.Obs {
			if o.Rule == rp.Obligation.Rule && o.Key == rp.Obligation.Key {
				found = true
				fmt.Printf("replay: [%s] %s @ %s: %s — %s\n", o.Rule, o.Key, o.Pos, o.Status, o.Why)
				if o.Status != OK {
					fmt.Printf("VIOLATION property=%s replay=%s\n", rp.Property, *replay)
					status = 1
					return
				}
			}
		}
		if !found {
			fmt.Printf("replay: obligation [%s] %s is not produced on the current tree\n", rp.Obligation.Rule, rp.Obligation.Key)
		}
		status = 0
		return
	}

	if *dump != "" {
		w := Load(*root)
		for fn := range w.AllFunctions() {
			if strings.Contains(fnName(fn), *dump) && fn.Blocks != nil {
				fmt.Println("=====", fnName(fn))
				fn.WriteTo(os.Stdout)
			}
		}
		status = 0
		return
	}

	if *prop == "all" {
		// every property on one load of the tree: one JSON line per property (used by the mutation sweep)
		w := Load(*root)
		ids := []string{}
		for k := range specs {
			ids = append(ids, k)
		}
		sort.Strings(ids)
		for _, id := range ids {
			r := NewReport(id)
			runRules(specs[id], w, r)
			var bad []Ob
			for _, o := range r.Obs {
				if o.Status != OK {
					bad = append(bad, o)
				}
			}
			b, _ := json.Marshal(map[string]any{"property": id, "obligations": len(r.Obs), "bad": bad})
			fmt.Println(string(b))
		}
		status = 0
		return
	}
	spec := specs[*prop]
	if spec == nil {
		ids := []string{}
		for k := range specs {
			ids = append(ids, k)
		}
		sort.Strings(ids)
		infra("unknown property %q (have %v)", *prop, ids)
	}
	seed, _ := strconv.Atoi(os.Getenv("VERIF_SEED"))
	start := time.Now()
	w := Load(*root)
	r := NewReport(*prop)
	runRules(spec, w, r)
	if len(r.Obs) == 0 {
		infra("property %s: no obligation was generated — the rules matched nothing", *prop)
	}
	if *list {
		for _, o := range r.Obs {
			fmt.Printf("%-11s %-14s %-70s %s  %s\n", o.Status, o.Rule, o.Key, o.Pos, o.Why)
		}
	}
	if *asJSON {
		var bad []Ob
		for _, o := range r.Obs {
			if o.Status != OK {
				bad = append(bad, o)
			}
		}
		b, _ := json.Marshal(map[string]any{"obligations": len(r.Obs), "bad": bad})
		fmt.Println(string(b))
		status = 0
		return
	}
	extra := map[string]any{"go_files_loaded": w.GoFiles, "packages_loaded": len(w.Pkgs)}
	if *tier == "thorough" {
		thorough(spec, w, r, *verif, extra)
	}
	status = r.Finish(spec, *tier, seed, time.Since(start).Seconds(), *verif, extra, false)
	if status == 0 && len(selfTestFailures) > 0 {
		for _, f := range selfTestFailures {
			fmt.Printf("SELFTEST-FAILED %s\n", f)
		}
		infra("%d seeded variant(s) of property %s did not behave as required: the checker is broken, its verdict is void", len(selfTestFailures), spec.ID)
	}
}

// runRules runs the property's rules. A rule that cannot resolve what it is
// anchored at (or panics) on a tree that loaded and type-checked leaves the
// property undecided; that is reported as a non-discharged obligation of the
// pseudo-rule R-UNDECIDED (a violation with the rule's message), not as a
// silent pass and not as an infrastructure failure of the run.
func runRules(spec *PropSpec, w *World, r *Report) {
	defer func() {
		if e := recover(); e != nil {
			msg := ""
			if ie, ok := e.(InfraError); ok {
				msg = ie.Msg
			} else {
				msg = fmt.Sprintf("panic in the checker: %v", e)
				if os.Getenv("JDLINT_DEBUG") != "" {
					msg += "\n" + string(debug.Stack())
				}
			}
			key := msg
			if len(key) > 90 {
				key = key[:90]
			}
			r.Unk("R-UNDECIDED", "checker:"+key, "-", "the rules of this property could not be evaluated on this tree: "+msg+" — the remaining rules were not run; the property is undecided, which counts as a violation")
		}
	}()
	spec.Run(w, r)
}
