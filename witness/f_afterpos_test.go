package wit

import (
	"testing"

	jd "github.com/josephburnett/jd/v2"
)

// Defect repaired by /repo commit 66309a5 (R-AFTERPOS, C10): the reader accepted an after-context test
// anywhere behind the edit; with two coalesced removals the native hunk compares another element than
// the patch tested. RFC 6902: op 0 (test /1 == "v") fails on ["r1","r2","v"].
func TestAfterContextPositionIsTiedToTheHunk(t *testing.T) {
	p := `[{"op":"test","path":"/1","value":"v"},{"op":"test","path":"/0","value":"r1"},{"op":"remove","path":"/0","value":"r1"},{"op":"test","path":"/0","value":"r2"},{"op":"remove","path":"/0","value":"r2"}]`
	d, err := jd.ReadPatchString(p)
	if err != nil {
		return // rejected when read: stricter than the RFC, which the property allows
	}
	c, _ := jd.ReadJsonString(`["r1","r2","v"]`)
	if r, err := c.Patch(d); err == nil {
		t.Fatalf("accepted, result %v; RFC 6902 evaluation fails the first test op", r.Json())
	}
}

// jd's own output still reads back: a hunk with two removals and context on both sides.
func TestOwnMultiRemoveOutputReadsBack(t *testing.T) {
	a, _ := jd.ReadJsonString(`[1,2,3,4]`)
	b, _ := jd.ReadJsonString(`[1,4]`)
	s, err := a.Diff(b).RenderPatch()
	if err != nil {
		t.Fatal(err)
	}
	d, err := jd.ReadPatchString(s)
	if err != nil {
		t.Fatal(err)
	}
	r, err := a.Patch(d)
	if err != nil || !r.Equals(b) {
		t.Fatalf("%v %v", r, err)
	}
}
