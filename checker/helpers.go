package main

import (
	"fmt"
	"go/constant"
	"go/token"
	"go/types"
	"sort"
	"strings"

	"golang.org/x/tools/go/ssa"
)

// ------------------------------------------------------------------ basics

func allInstrs(fn *ssa.Function, f func(ssa.Instruction)) {
	for _, b := range fn.Blocks {
		for _, in := range b.Instrs {
			f(in)
		}
	}
}

// withClosures visits fn and every anonymous function nested in it.
func withClosures(fn *ssa.Function, f func(*ssa.Function)) {
	f(fn)
	for _, a := range fn.AnonFuncs {
		withClosures(a, f)
	}
}

// strip removes value-preserving wrappers: ChangeType, ChangeInterface,
// MakeInterface, and Convert between types of identical underlying kind
// family (named <-> unnamed).
func strip(v ssa.Value) ssa.Value {
	for {
		switch x := v.(type) {
		case *ssa.ChangeType:
			v = x.X
		case *ssa.ChangeInterface:
			v = x.X
		case *ssa.MakeInterface:
			v = x.X
		case *ssa.Convert:
			if sameBasicKind(x.X.Type(), x.Type()) {
				v = x.X
			} else {
				return v
			}
		default:
			return v
		}
	}
}

func sameBasicKind(a, b types.Type) bool {
	ba, ok1 := a.Underlying().(*types.Basic)
	bb, ok2 := b.Underlying().(*types.Basic)
	if ok1 && ok2 {
		if ba.Kind() == bb.Kind() {
			return true
		}
		// int-family conversions of equal or wider size preserve comparisons
		// only if same kind; keep strict.
		return false
	}
	return types.Identical(a.Underlying(), b.Underlying())
}

// stripInt also looks through integer conversions between int-like kinds of
// the same size on 64-bit (int <-> int64 <-> named ints).
func stripInt(v ssa.Value) ssa.Value {
	for {
		v = strip(v)
		c, ok := v.(*ssa.Convert)
		if !ok {
			return v
		}
		ba, ok1 := c.X.Type().Underlying().(*types.Basic)
		bb, ok2 := c.Type().Underlying().(*types.Basic)
		if ok1 && ok2 && ba.Info()&types.IsInteger != 0 && bb.Info()&types.IsInteger != 0 &&
			intBits(ba) <= intBits(bb) && (ba.Info()&types.IsUnsigned == bb.Info()&types.IsUnsigned) {
			v = c.X
			continue
		}
		return v
	}
}

func intBits(b *types.Basic) int {
	switch b.Kind() {
	case types.Int8, types.Uint8:
		return 8
	case types.Int16, types.Uint16:
		return 16
	case types.Int32, types.Uint32:
		return 32
	case types.Int, types.Uint, types.Uintptr:
		return 63 // conservatively below 64: int may be 32 bit
	case types.Int64, types.Uint64:
		return 64
	}
	return 0
}

func isNilConst(v ssa.Value) bool {
	c, ok := v.(*ssa.Const)
	return ok && c.Value == nil
}

func constString(v ssa.Value) (string, bool) {
	c, ok := strip(v).(*ssa.Const)
	if !ok || c.Value == nil || c.Value.Kind() != constant.String {
		return "", false
	}
	return constant.StringVal(c.Value), true
}

func constInt(v ssa.Value) (int64, bool) {
	c, ok := stripInt(v).(*ssa.Const)
	if !ok || c.Value == nil || c.Value.Kind() != constant.Int {
		return 0, false
	}
	i, ok := constant.Int64Val(c.Value)
	return i, ok
}

func constBool(v ssa.Value) (bool, bool) {
	c, ok := v.(*ssa.Const)
	if !ok || c.Value == nil || c.Value.Kind() != constant.Bool {
		return false, false
	}
	return constant.BoolVal(c.Value), true
}

func namedOf(t types.Type) *types.Named {
	if p, ok := t.(*types.Pointer); ok {
		t = p.Elem()
	}
	n, _ := t.(*types.Named)
	return n
}

func typeName(t types.Type) string {
	if n := namedOf(t); n != nil {
		return n.Obj().Name()
	}
	return t.String()
}

// isNamed reports whether t is the named type pkgpath.name.
func isNamed(t types.Type, pkg *types.Package, name string) bool {
	n, ok := t.(*types.Named)
	return ok && n.Obj().Pkg() == pkg && n.Obj().Name() == name
}

// ------------------------------------------------------------------ calls

// staticCallee returns the statically resolved callee of a call (function,
// method, or a closure created in the same function), following generic
// instantiation back to the origin for identification purposes.
func staticCallee(c ssa.CallInstruction) *ssa.Function {
	com := c.Common()
	if com.IsInvoke() {
		return nil
	}
	switch v := com.Value.(type) {
	case *ssa.Function:
		return v
	case *ssa.MakeClosure:
		return v.Fn.(*ssa.Function)
	}
	return closureValue(com.Value, 0)
}

// closureValue resolves a function value that is a local closure: a load of a
// variable (possibly captured by an enclosing closure) that is assigned
// exactly one function literal, or a free variable bound to such a value.
func closureValue(v ssa.Value, depth int) *ssa.Function {
	if depth > 4 {
		return nil
	}
	switch x := v.(type) {
	case *ssa.MakeClosure:
		f, _ := x.Fn.(*ssa.Function)
		return f
	case *ssa.Function:
		return x
	case *ssa.UnOp:
		if x.Op != token.MUL {
			return nil
		}
		cell := closureCell(x.X)
		al, ok := cell.(*ssa.Alloc)
		if !ok {
			return nil
		}
		var only *ssa.Function
		n := 0
		home := al.Parent()
		withClosures(home, func(f *ssa.Function) {
			allInstrs(f, func(in ssa.Instruction) {
				st, ok := in.(*ssa.Store)
				if !ok || closureCell(st.Addr) != ssa.Value(al) {
					return
				}
				n++
				only = closureValue(st.Val, depth+1)
			})
		})
		if n == 1 {
			return only
		}
	case *ssa.FreeVar:
		if b := closureCell(x); b != ssa.Value(x) {
			return closureValue(b, depth+1)
		}
	}
	return nil
}

func origin(fn *ssa.Function) *ssa.Function {
	if fn == nil {
		return nil
	}
	if o := fn.Origin(); o != nil {
		return o
	}
	return fn
}

// calleeFullName: "pkgpath.Name" or "(pkgpath.T).Name" for static callees,
// "invoke:Name" for interface calls.
func calleeFullName(c ssa.CallInstruction) string {
	com := c.Common()
	if com.IsInvoke() {
		return "invoke:" + com.Method.Name()
	}
	if fn := staticCallee(c); fn != nil {
		fn = origin(fn)
		if fn.Object() != nil {
			return fn.Object().(*types.Func).FullName()
		}
		return fn.String()
	}
	if b, ok := com.Value.(*ssa.Builtin); ok {
		return "builtin:" + b.Name()
	}
	return "dynamic"
}

func isBuiltinCall(v ssa.Value, name string) (*ssa.Call, bool) {
	c, ok := v.(*ssa.Call)
	if !ok {
		return nil, false
	}
	b, ok := c.Call.Value.(*ssa.Builtin)
	if !ok || b.Name() != name {
		return nil, false
	}
	return c, true
}

// callArgs returns the receiver (nil when none) and the non-receiver args.
func callArgs(c ssa.CallInstruction) (recv ssa.Value, args []ssa.Value) {
	com := c.Common()
	if com.IsInvoke() {
		return com.Value, com.Args
	}
	if fn := staticCallee(c); fn != nil && fn.Signature.Recv() != nil && len(com.Args) > 0 {
		return com.Args[0], com.Args[1:]
	}
	return nil, com.Args
}

// implementations resolves an invoke-mode call to the concrete methods of the
// program's types that can be its target (class hierarchy).
func (w *World) implementations(c ssa.CallInstruction) []*ssa.Function {
	com := c.Common()
	if !com.IsInvoke() {
		if fn := staticCallee(c); fn != nil {
			return []*ssa.Function{fn}
		}
		return nil
	}
	iface, _ := com.Value.Type().Underlying().(*types.Interface)
	var out []*ssa.Function
	for _, t := range w.Prog.RuntimeTypes() {
		if types.IsInterface(t) {
			continue
		}
		if iface != nil && !types.Implements(t, iface) {
			continue
		}
		ms := w.Prog.MethodSets.MethodSet(t)
		sel := ms.Lookup(com.Method.Pkg(), com.Method.Name())
		if sel == nil {
			continue
		}
		if fn := w.Prog.MethodValue(sel); fn != nil {
			out = append(out, fn)
		}
	}
	return out
}

// ------------------------------------------------------------------ CFG

type Edge struct {
	From *ssa.BasicBlock
	Idx  int // successor index
}

func (e Edge) To() *ssa.BasicBlock { return e.From.Succs[e.Idx] }

type EdgeSet map[Edge]bool

// reachable blocks from 'from' without traversing edges in cut.
func reachFrom(from *ssa.BasicBlock, cut EdgeSet) map[*ssa.BasicBlock]bool {
	seen := map[*ssa.BasicBlock]bool{from: true}
	work := []*ssa.BasicBlock{from}
	for len(work) > 0 {
		b := work[len(work)-1]
		work = work[:len(work)-1]
		for i, s := range b.Succs {
			if cut[Edge{b, i}] {
				continue
			}
			if !seen[s] {
				seen[s] = true
				work = append(work, s)
			}
		}
	}
	return seen
}

// cutsOff: with the edges in cut removed, none of the target blocks is
// reachable from the function entry.
func cutsOff(fn *ssa.Function, cut EdgeSet, targets ...*ssa.BasicBlock) bool {
	r := reachFrom(fn.Blocks[0], cut)
	for _, t := range targets {
		if r[t] {
			return false
		}
	}
	return true
}

// condEdges: for a block ending in `if cond`, the edges taken when cond is
// true / false. Looks through negation (!x).
func branchEdges(b *ssa.BasicBlock) (cond ssa.Value, onTrue, onFalse Edge, ok bool) {
	if len(b.Instrs) == 0 {
		return
	}
	iff, isIf := b.Instrs[len(b.Instrs)-1].(*ssa.If)
	if !isIf {
		return
	}
	cond = iff.Cond
	onTrue, onFalse = Edge{b, 0}, Edge{b, 1}
	for {
		u, isNot := cond.(*ssa.UnOp)
		if !isNot || u.Op != token.NOT {
			break
		}
		cond = u.X
		onTrue, onFalse = onFalse, onTrue
	}
	return cond, onTrue, onFalse, true
}

// edgesWhere collects, over the whole function, the edges on which the
// predicate-known condition holds: for every `if c` whose (un-negated)
// condition satisfies match, the true (want=true) or false edge. It also
// looks through the short-circuit lowering: a phi of boolean constants and
// conditions is handled by the caller via condTrueEdges.
func edgesWhere(fn *ssa.Function, match func(cond ssa.Value) bool, want bool) EdgeSet {
	out := EdgeSet{}
	for _, b := range fn.Blocks {
		cond, t, f, ok := branchEdges(b)
		if !ok || !match(cond) {
			continue
		}
		if want {
			out[t] = true
		} else {
			out[f] = true
		}
	}
	return out
}

// returnsOf lists the Return instructions of fn.
func returnsOf(fn *ssa.Function) []*ssa.Return {
	var out []*ssa.Return
	for _, b := range fn.Blocks {
		if len(b.Instrs) == 0 {
			continue
		}
		if r, ok := b.Instrs[len(b.Instrs)-1].(*ssa.Return); ok {
			out = append(out, r)
		}
	}
	return out
}

// ------------------------------------------------------------------ errors

// errAnalysis classifies returns of a function whose last result is `error`.
type errAnalysis struct {
	w        *World
	alwaysEr map[*ssa.Function]int // 0 unknown, 1 always non-nil error, 2 no
}

func newErrAnalysis(w *World) *errAnalysis {
	return &errAnalysis{w: w, alwaysEr: map[*ssa.Function]int{}}
}

func lastIsError(sig *types.Signature) bool {
	n := sig.Results().Len()
	if n == 0 {
		return false
	}
	return isErrorType(sig.Results().At(n - 1).Type())
}

func isErrorType(t types.Type) bool {
	n, ok := t.(*types.Named)
	return ok && n.Obj().Pkg() == nil && n.Obj().Name() == "error"
}

// alwaysErrors: every return of fn carries a non-nil error.
func (ea *errAnalysis) alwaysErrors(fn *ssa.Function) bool {
	if fn == nil || fn.Blocks == nil || !lastIsError(fn.Signature) {
		return false
	}
	switch ea.alwaysEr[fn] {
	case 1:
		return true
	case 2:
		return false
	}
	ea.alwaysEr[fn] = 2 // recursion: assume no
	rets := returnsOf(fn)
	if len(rets) == 0 {
		return false
	}
	for _, r := range rets {
		if !ea.nonNilError(r.Results[len(r.Results)-1], r.Block(), map[ssa.Value]bool{}) {
			return false
		}
	}
	ea.alwaysEr[fn] = 1
	return true
}

// nonNilError: v (of type error), used in block at, is certainly non-nil.
func (ea *errAnalysis) nonNilError(v ssa.Value, at *ssa.BasicBlock, seen map[ssa.Value]bool) bool {
	if seen[v] {
		return true
	}
	seen[v] = true
	switch x := v.(type) {
	case *ssa.Const:
		return false
	case *ssa.MakeInterface:
		return true // a concrete value boxed into error
	case *ssa.Call:
		name := calleeFullName(x)
		switch name {
		case "fmt.Errorf", "errors.New":
			return true
		}
		if fn := staticCallee(x); fn != nil && fn.Signature.Results().Len() == 1 && ea.alwaysErrors(fn) {
			return true
		}
		return ea.knownNonNilAt(v, at)
	case *ssa.Extract:
		if c, ok := x.Tuple.(*ssa.Call); ok {
			if fn := staticCallee(c); fn != nil && x.Index == fn.Signature.Results().Len()-1 && ea.alwaysErrors(fn) {
				return true
			}
			// a helper (often a local closure) that hands back the error it was given:
			// non-nil when the argument is
			if fn := staticCallee(c); fn != nil && fn.Blocks != nil && x.Index == fn.Signature.Results().Len()-1 {
				all := true
				rets := returnsOf(fn)
				for _, ret := range rets {
					rv := ret.Results[len(ret.Results)-1]
					idx := -1
					for i, p := range fn.Params {
						if ssa.Value(p) == rv {
							idx = i
						}
					}
					if idx < 0 || idx >= len(c.Call.Args) || !ea.nonNilError(c.Call.Args[idx], at, seen) {
						all = false
					}
				}
				if all && len(rets) > 0 {
					return true
				}
			}
		}
		return ea.knownNonNilAt(v, at)
	case *ssa.Phi:
		for _, e := range x.Edges {
			if !ea.nonNilError(e, at, seen) {
				// a phi edge may be nil, unless the use site is guarded
				return ea.knownNonNilAt(v, at)
			}
		}
		return true
	}
	return ea.knownNonNilAt(v, at)
}

// knownNonNilAt: block at is dominated by the true edge of `v != nil` (or
// false edge of `v == nil`).
func (ea *errAnalysis) knownNonNilAt(v ssa.Value, at *ssa.BasicBlock) bool {
	fn := at.Parent()
	for _, b := range fn.Blocks {
		cond, t, f, ok := branchEdges(b)
		if !ok {
			continue
		}
		bo, ok := cond.(*ssa.BinOp)
		if !ok || (bo.Op != token.NEQ && bo.Op != token.EQL) {
			continue
		}
		var other ssa.Value
		if bo.X == v {
			other = bo.Y
		} else if bo.Y == v {
			other = bo.X
		} else {
			continue
		}
		if !isNilConst(other) {
			continue
		}
		e := t
		if bo.Op == token.EQL {
			e = f
		}
		if edgeDominates(e, at) {
			return true
		}
	}
	return false
}

// edgeDominates: every path from entry to block x passes through edge e.
func edgeDominates(e Edge, x *ssa.BasicBlock) bool {
	to := e.To()
	if len(to.Preds) == 1 {
		return to.Dominates(x)
	}
	// general: removing e disconnects x
	return cutsOff(e.From.Parent(), EdgeSet{e: true}, x) && reachFrom(e.From.Parent().Blocks[0], nil)[x]
}

// isErrorReturn: the return certainly carries a non-nil error (or the
// function ends in a panic/exit there).
func (ea *errAnalysis) isErrorReturn(r *ssa.Return) bool {
	if len(r.Results) == 0 {
		return false
	}
	last := r.Results[len(r.Results)-1]
	if !isErrorType(last.Type()) {
		return false
	}
	return ea.nonNilError(last, r.Block(), map[ssa.Value]bool{})
}

// errorOnly: every function exit reachable from block b is an error return
// (or a panic).
func (ea *errAnalysis) errorOnly(b *ssa.BasicBlock) bool {
	for blk := range reachFrom(b, nil) {
		if len(blk.Instrs) == 0 {
			continue
		}
		switch t := blk.Instrs[len(blk.Instrs)-1].(type) {
		case *ssa.Return:
			if !ea.isErrorReturn(t) {
				return false
			}
		}
	}
	return true
}

// ------------------------------------------------------------------ access paths

// loadSource resolves a load (`*addr`) to the value it reads when that is
// determinable: a local Alloc with exactly one whole-value Store.
func singleStore(a *ssa.Alloc) (ssa.Value, bool) {
	var st *ssa.Store
	for _, ref := range *a.Referrers() {
		switch r := ref.(type) {
		case *ssa.Store:
			if r.Addr == a {
				if st != nil {
					return nil, false
				}
				st = r
			} else {
				return nil, false // address stored somewhere
			}
		case *ssa.UnOp, *ssa.FieldAddr, *ssa.IndexAddr, *ssa.DebugRef:
		default:
			return nil, false
		}
	}
	if st == nil {
		return nil, false
	}
	// field stores through FieldAddr of the alloc make it multi-store
	for _, ref := range *a.Referrers() {
		if fa, ok := ref.(*ssa.FieldAddr); ok {
			for _, r2 := range *fa.Referrers() {
				if s, ok := r2.(*ssa.Store); ok && s.Addr == fa {
					return nil, false
				}
			}
		}
	}
	return st.Val, true
}

// accessPath describes v as root + selectors, looking through loads of
// single-store locals, field and element selection and value-preserving
// conversions. Selectors: ".Name" for fields, "[]" for element access.
func accessPath(v ssa.Value) (root ssa.Value, sel []string) {
	v = strip(v)
	switch x := v.(type) {
	case *ssa.UnOp:
		if x.Op == token.MUL {
			return addrPath(x.X)
		}
	case *ssa.Field:
		r, s := accessPath(x.X)
		return r, append(s, "."+fieldName(x.X.Type(), x.Field))
	case *ssa.Index:
		r, s := accessPath(x.X)
		return r, append(s, "[]")
	case *ssa.Lookup:
		r, s := accessPath(x.X)
		return r, append(s, "[]")
	}
	return v, nil
}

// addrPath: access path of the storage an address denotes.
func addrPath(addr ssa.Value) (root ssa.Value, sel []string) {
	switch a := addr.(type) {
	case *ssa.Alloc:
		if s, ok := singleStore(a); ok {
			return accessPath(s)
		}
		return a, nil
	case *ssa.FieldAddr:
		r, s := addrPath(a.X)
		return r, append(s, "."+fieldName(a.X.Type(), a.Field))
	case *ssa.IndexAddr:
		if _, isPtr := a.X.Type().Underlying().(*types.Pointer); isPtr {
			r, s := addrPath(a.X)
			return r, append(s, "[]")
		}
		r, s := accessPath(a.X)
		return r, append(s, "[]")
	}
	// a pointer value (parameter, call result, ...): what it points to
	r, s := accessPath(addr)
	return r, append(s, "->")
}

func fieldName(t types.Type, i int) string {
	if p, ok := t.Underlying().(*types.Pointer); ok {
		t = p.Elem()
	}
	st, ok := t.Underlying().(*types.Struct)
	if !ok || i >= st.NumFields() {
		return fmt.Sprintf("#%d", i)
	}
	return st.Field(i).Name()
}

func selString(sel []string) string { return strings.Join(sel, "") }

// fieldIndex returns the index of the named field in struct type t.
func fieldIndex(t types.Type, name string) int {
	st, ok := t.Underlying().(*types.Struct)
	if !ok {
		return -1
	}
	for i := 0; i < st.NumFields(); i++ {
		if st.Field(i).Name() == name {
			return i
		}
	}
	return -1
}

// ------------------------------------------------------------------ misc

func sortedKeys[V any](m map[string]V) []string {
	ks := make([]string, 0, len(m))
	for k := range m {
		ks = append(ks, k)
	}
	sort.Strings(ks)
	return ks
}

// valueName gives a readable name for a value in messages.
func valueName(v ssa.Value) string {
	switch x := v.(type) {
	case *ssa.Parameter:
		return "parameter " + x.Name()
	case *ssa.Const:
		return "constant " + x.String()
	case *ssa.Call:
		return "result of " + calleeFullName(x)
	case *ssa.Extract:
		if c, ok := x.Tuple.(*ssa.Call); ok {
			return fmt.Sprintf("result #%d of %s", x.Index, calleeFullName(c))
		}
	case *ssa.Phi:
		return "phi(" + x.Comment + ")"
	case *ssa.Alloc:
		return "local " + x.Comment
	case *ssa.Slice:
		return "slice of " + valueName(x.X)
	}
	if v == nil {
		return "<nil>"
	}
	return fmt.Sprintf("%s (%T)", v.Name(), v)
}
