package main

import (
	"fmt"
	"go/constant"
	"go/token"
	"go/types"
	"sort"
	"strings"

	"golang.org/x/tools/go/ssa"
)

// cli bundles one `package main` (v2/jd or the top-level binary).
type cli struct {
	flagNames map[*ssa.Global]string // package-level flag variable -> command-line flag name
	w         *World
	pkg       *ssa.Package
	tag       string // "v2jd" | "top"
	fns       []*ssa.Function
	libs      map[*types.Package]bool // library packages (v2, lib)
}

func newCLI(w *World, path, tag string) *cli {
	c := &cli{w: w, pkg: w.Pkg(path), tag: tag, libs: map[*types.Package]bool{}}
	for _, fn := range w.FuncsOf(c.pkg) {
		if fn.Parent() == nil && fn.Synthetic == "" {
			c.fns = append(c.fns, fn)
		}
	}
	if w.HasPkg(pathV2) {
		c.libs[w.Pkg(pathV2).Pkg] = true
	}
	if w.HasPkg(pathLib) {
		c.libs[w.Pkg(pathLib).Pkg] = true
	}
	if len(c.fns) < 10 {
		infra("%s: only %d functions in package main", tag, len(c.fns))
	}
	// flags are identified by the name they are registered under, not by the
	// Go identifier that holds them
	c.flagNames = map[*ssa.Global]string{}
	if init := c.pkg.Func("init"); init != nil {
		allInstrs(init, func(in ssa.Instruction) {
			st, ok := in.(*ssa.Store)
			if !ok {
				return
			}
			g, ok := st.Addr.(*ssa.Global)
			if !ok {
				return
			}
			call, ok := st.Val.(*ssa.Call)
			if !ok || !strings.HasPrefix(calleeFullName(call), "flag.") || len(call.Call.Args) == 0 {
				return
			}
			if name, ok := constString(call.Call.Args[0]); ok {
				c.flagNames[g] = name
			}
		})
	}
	if len(c.flagNames) < 8 {
		infra("%s: only %d command-line flags found in package main's initialisation", tag, len(c.flagNames))
	}
	return c
}

// flagOf: v is `*flagVar` for a package-level flag pointer variable.
func (c *cli) flagOf(v ssa.Value) string {
	v = strip(v)
	u1, ok := v.(*ssa.UnOp)
	if !ok || u1.Op != token.MUL {
		return ""
	}
	u2, ok := u1.X.(*ssa.UnOp)
	if !ok || u2.Op != token.MUL {
		return ""
	}
	g, ok := u2.X.(*ssa.Global)
	if !ok || g.Pkg != c.pkg {
		return ""
	}
	return c.flagNames[g]
}

const otherValue = "\x00other"

// condUnder evaluates a branch condition under an assignment of flag values
// (flag name -> constant ExactString, "true"/"false" for bool flags,
// otherValue = none of the constants compared anywhere).
func (c *cli) condUnder(cond ssa.Value, assign map[string]string) (val, known bool) {
	return c.condUnderV(cond, assign, nil)
}

func (c *cli) condUnderV(cond ssa.Value, assign map[string]string, assignV map[ssa.Value]string) (val, known bool) {
	neg := false
	for {
		u, ok := cond.(*ssa.UnOp)
		if !ok || u.Op != token.NOT {
			break
		}
		cond = u.X
		neg = !neg
	}
	if f := c.flagOf(cond); f != "" {
		if a, ok := assign[f]; ok {
			return (a == "true") != neg, true
		}
		return false, false
	}
	bo, ok := cond.(*ssa.BinOp)
	if !ok || (bo.Op != token.EQL && bo.Op != token.NEQ) {
		return false, false
	}
	var f string
	var k *ssa.Const
	if a, ok := assignV[strip(bo.X)]; ok {
		if kc, isK := strip(bo.Y).(*ssa.Const); isK && kc.Value != nil {
			eq := a == kc.Value.ExactString()
			if bo.Op == token.NEQ {
				eq = !eq
			}
			return eq != neg, true
		}
	}
	if fl := c.flagOf(bo.X); fl != "" {
		f = fl
		k, _ = strip(bo.Y).(*ssa.Const)
	} else if fl := c.flagOf(bo.Y); fl != "" {
		f = fl
		k, _ = strip(bo.X).(*ssa.Const)
	}
	if f == "" || k == nil || k.Value == nil {
		return false, false
	}
	a, ok := assign[f]
	if !ok {
		return false, false
	}
	eq := a == k.Value.ExactString()
	if bo.Op == token.NEQ {
		eq = !eq
	}
	return eq != neg, true
}

// reachUnder: blocks of fn reachable when the flags have the assigned values.
func (c *cli) reachUnder(fn *ssa.Function, assign map[string]string) map[*ssa.BasicBlock]bool {
	return c.reachUnderV(fn, assign, nil)
}

func (c *cli) reachUnderV(fn *ssa.Function, assign map[string]string, assignV map[ssa.Value]string) map[*ssa.BasicBlock]bool {
	reach, _ := c.reachCutUnderV(fn, assign, assignV)
	return reach
}

// condPhiUnder decides a boolean that is a phi of conditions (a named boolean
// computed with && / ||): every edge that is still feasible must carry a value
// that is decided, and they must agree.
func (c *cli) condPhiUnder(cond ssa.Value, assign map[string]string, assignV map[ssa.Value]string, reach map[*ssa.BasicBlock]bool, cut EdgeSet, depth int) (bool, bool) {
	neg := false
	for {
		u, ok := cond.(*ssa.UnOp)
		if !ok || u.Op != token.NOT {
			break
		}
		cond, neg = u.X, !neg
	}
	if b, ok := constBool(cond); ok {
		return b != neg, true
	}
	if v, known := c.condUnderV(cond, assign, assignV); known {
		return v != neg, true
	}
	phi, ok := cond.(*ssa.Phi)
	if !ok || depth > 4 {
		return false, false
	}
	in := feasibleIn(phi, reach, cut)
	if len(in) == 0 {
		return false, false
	}
	var val, have bool
	for _, i := range in {
		v, known := c.condPhiUnder(phi.Edges[i], assign, assignV, reach, cut, depth+1)
		if !known {
			return false, false
		}
		if have && v != val {
			return false, false
		}
		val, have = v, true
	}
	return val != neg, true
}

// flagConsts: constants a string flag is compared with in fn.
func (c *cli) flagConsts(fn *ssa.Function, flag string) []string {
	set := map[string]bool{}
	allInstrs(fn, func(in ssa.Instruction) {
		bo, ok := in.(*ssa.BinOp)
		if !ok || (bo.Op != token.EQL && bo.Op != token.NEQ) {
			return
		}
		var k *ssa.Const
		if c.flagOf(bo.X) == flag {
			k, _ = strip(bo.Y).(*ssa.Const)
		} else if c.flagOf(bo.Y) == flag {
			k, _ = strip(bo.X).(*ssa.Const)
		}
		if k != nil && k.Value != nil && k.Value.Kind() == constant.String {
			set[k.Value.ExactString()] = true
		}
	})
	return sortedKeys(set)
}

// libCalls: names of library functions/methods called in the given blocks.
func (c *cli) libCalls(fn *ssa.Function, blocks map[*ssa.BasicBlock]bool) map[string]bool {
	out := map[string]bool{}
	for _, b := range fn.Blocks {
		if !blocks[b] {
			continue
		}
		for _, in := range b.Instrs {
			ci, ok := in.(ssa.CallInstruction)
			if !ok {
				continue
			}
			if n := c.libCallee(ci); n != "" {
				out[n] = true
			}
		}
	}
	return out
}

func (c *cli) libCallee(ci ssa.CallInstruction) string {
	com := ci.Common()
	if com.IsInvoke() {
		if com.Method.Pkg() != nil && c.libs[com.Method.Pkg()] {
			return com.Method.Name()
		}
		if n := namedOf(com.Value.Type()); n != nil && n.Obj().Pkg() != nil && c.libs[n.Obj().Pkg()] {
			return com.Method.Name()
		}
		return ""
	}
	if sf := staticCallee(ci); sf != nil {
		if p := fnPkg(sf); p != nil && c.libs[p] {
			return origin(sf).Name()
		}
	}
	return ""
}

func isExitCall(ci ssa.CallInstruction) (code int64, isExit bool) {
	if calleeFullName(ci) == "os.Exit" {
		if k, ok := constInt(ci.Common().Args[0]); ok {
			return k, true
		}
		return -1, true
	}
	return 0, false
}

// exitHelpers: functions of package main all of whose paths end in os.Exit(2).
func (c *cli) exitHelpers() map[*ssa.Function]bool {
	out := map[*ssa.Function]bool{}
	for iter := 0; iter < 3; iter++ {
		for _, fn := range c.fns {
			if out[fn] || fn.Signature.Results().Len() != 0 {
				continue
			}
			// the last block before return must call os.Exit(2) or a helper, on every path
			ok := true
			found := false
			for _, ret := range returnsOf(fn) {
				has := false
				for blk := ret.Block(); blk != nil; {
					for _, in := range blk.Instrs {
						if ci, isCall := in.(ssa.CallInstruction); isCall {
							if code, isExit := isExitCall(ci); isExit && code == 2 {
								has = true
							}
							if sf := staticCallee(ci); sf != nil && out[sf] {
								has = true
							}
						}
					}
					if has || len(blk.Preds) != 1 {
						break
					}
					blk = blk.Preds[0]
				}
				if !has {
					ok = false
				}
				found = true
			}
			if ok && found {
				out[fn] = true
			}
		}
	}
	return out
}

func (c *cli) key(fn *ssa.Function, what string) string {
	return fmt.Sprintf("%s:%s", fnName(fn), what)
}

// ------------------------------------------------------------------ E: exits and errors

func (c *cli) ruleExit(r *Report) {
	const rule = "R-CLI/E"
	helpers := c.exitHelpers()
	ea := newErrAnalysis(c.w)
	_ = ea
	for _, fn := range c.fns {
		r.Fn(fnName(fn))
		nExit := 0
		for _, b := range fn.Blocks {
			for _, in := range b.Instrs {
				ci, ok := in.(ssa.CallInstruction)
				if !ok {
					continue
				}
				_, isExit := isExitCall(ci)
				if !isExit {
					continue
				}
				nExit++
				// exit events: the constant handed to os.Exit, or — when the
				// status is chosen into a variable first — each constant that
				// arrives over an edge of the phi, located at that edge
				type event struct {
					code int64
					pred *ssa.BasicBlock // nil: at the call itself
					at   *ssa.BasicBlock
					ok   bool
				}
				var events []event
				arg := ci.Common().Args[0]
				if k, isK := constInt(arg); isK {
					events = append(events, event{k, nil, b, true})
				} else if phi, isPhi := arg.(*ssa.Phi); isPhi {
					for i, e := range phi.Edges {
						if k, isK := constInt(e); isK {
							events = append(events, event{k, phi.Block().Preds[i], phi.Block(), true})
						} else {
							events = append(events, event{-1, phi.Block().Preds[i], phi.Block(), false})
						}
					}
				} else {
					events = append(events, event{-1, nil, b, false})
				}
				for ei, ev := range events {
					key := c.key(fn, fmt.Sprintf("os.Exit#%d", nExit))
					if len(events) > 1 {
						key = c.key(fn, fmt.Sprintf("os.Exit#%d[%d]", nExit, ei))
					}
					pos := c.w.Pos(ci.Pos())
					code := ev.code
					if !ev.ok || code < 0 || code > 2 {
						r.Bad(rule, key, pos, "exit status is not one of the documented constants 0, 1, 2")
						continue
					}
					if code != 1 {
						r.Ok(rule, key, pos, fmt.Sprintf("constant exit status %d", code))
						continue
					}
					// E2: exit 1 only behind the diff routine's boolean
					ok2 := false
					why := "exit status 1 is not controlled by the boolean result of the diff routine"
					for _, bb := range fn.Blocks {
						cond, tE, fE, okb := branchEdges(bb)
						if !okb {
							continue
						}
						ex, isEx := cond.(*ssa.Extract)
						if !isEx {
							continue
						}
						call, isCall := ex.Tuple.(*ssa.Call)
						if !isCall {
							continue
						}
						sf := staticCallee(call)
						if sf == nil || fnPkg(sf) != c.pkg.Pkg || !isDiffRoutine(sf) || ex.Index != 1 {
							continue
						}
						behind := false
						if ev.pred == nil {
							behind = edgeDominates(tE, ev.at)
						} else {
							behind = edgeDominatesOrIs(tE, ev.pred, ev.at)
						}
						if !behind {
							continue
						}
						// the other side must exit 0
						other := false
						otherReach := reachFrom(fE.To(), nil)
						for blk := range otherReach {
							for _, in2 := range blk.Instrs {
								if c2, isC := in2.(ssa.CallInstruction); isC {
									if cd, isE := isExitCall(c2); isE && cd == 0 {
										other = true
									}
								}
							}
						}
						for _, e2 := range events {
							if e2.ok && e2.code == 0 && e2.pred != nil && (otherReach[e2.pred] && e2.pred != bb || (e2.pred == bb && fE.To() == e2.at)) {
								other = true
							}
						}
						if other {
							ok2, why = true, "exit status 1 exactly on the edge where the diff routine reports a difference; the other edge exits 0"
						}
					}
					r.Check(ok2, rule, key, pos, why, why)
				}
			}
		}
	}
	// E2': in a routine that branches on the diff routine's boolean, status 0 is
	// reached only over the edge on which that boolean is false (a process that
	// has found a difference must not end with 0 on some other path, e.g. the -o path)
	for _, fn := range c.fns {
		var falseEdges []Edge
		for _, bb := range fn.Blocks {
			cond, tE, fE, okb := branchEdges(bb)
			if !okb {
				continue
			}
			neg := false
			for {
				u, isU := cond.(*ssa.UnOp)
				if !isU || u.Op != token.NOT {
					break
				}
				cond, neg = u.X, !neg
			}
			ex, isEx := cond.(*ssa.Extract)
			if !isEx || ex.Index != 1 {
				continue
			}
			call, isCall := ex.Tuple.(*ssa.Call)
			if !isCall {
				continue
			}
			if sf := staticCallee(call); sf == nil || fnPkg(sf) != c.pkg.Pkg || !isDiffRoutine(sf) {
				continue
			}
			if neg {
				falseEdges = append(falseEdges, tE)
			} else {
				falseEdges = append(falseEdges, fE)
			}
		}
		if len(falseEdges) == 0 {
			continue
		}
		cut := EdgeSet{}
		for _, e := range falseEdges {
			cut[e] = true
		}
		// nothing runs after an exit
		for _, b := range fn.Blocks {
			for _, in := range b.Instrs {
				if ci, ok := in.(ssa.CallInstruction); ok {
					_, isExit := isExitCall(ci)
					if sf := staticCallee(ci); isExit || (sf != nil && helpers[sf]) {
						for j := range b.Succs {
							cut[Edge{b, j}] = true
						}
					}
				}
			}
		}
		k := 0
		for _, b := range fn.Blocks {
			for _, in := range b.Instrs {
				ci, ok := in.(ssa.CallInstruction)
				if !ok {
					continue
				}
				code, isExit := isExitCall(ci)
				if !isExit {
					continue
				}
				zero := code == 0
				var zeroPreds []*ssa.BasicBlock
				if phi, isPhi := ci.Common().Args[0].(*ssa.Phi); isPhi {
					for i, e := range phi.Edges {
						if kk, isK := constInt(e); isK && kk == 0 {
							zeroPreds = append(zeroPreds, phi.Block().Preds[i])
						}
					}
				} else if !zero {
					continue
				}
				k++
				okZero := true
				if len(zeroPreds) > 0 {
					for _, pb := range zeroPreds {
						if !cutsOff(fn, cut, pb) {
							// the edge itself may be the false edge
							direct := false
							for _, e := range falseEdges {
								if e.From == pb {
									direct = true
								}
							}
							if !direct {
								okZero = false
							}
						}
					}
				} else {
					okZero = cutsOff(fn, cut, b)
				}
				r.Check(okZero, rule, c.key(fn, fmt.Sprintf("exit-0-only-without-difference#%d", k)), c.w.Pos(ci.Pos()),
					"status 0 is reached only over the edge on which the diff routine reported no difference",
					"status 0 can be reached although the diff routine reported a difference (a path that bypasses the test of its boolean, e.g. the -o branch): differing inputs exit 0")
			}
		}
	}
	// E4 helpers
	for _, name := range []string{"errorAndExit", "errorfAndExit", "printUsageAndExit"} {
		fn := c.pkg.Func(name)
		if fn == nil {
			r.Bad(rule, c.tag+":"+name, "-", "exit helper "+name+" not found")
			continue
		}
		r.Check(helpers[fn], rule, c.key(fn, "always-exits-2"), c.w.Pos(fn.Pos()), "every path ends in os.Exit(2)", "some path through "+name+" returns without exiting with status 2")
	}
	// E3 every error is consumed
	c.ruleErrors(r, helpers)
}

func isDiffRoutine(fn *ssa.Function) bool {
	res := fn.Signature.Results()
	if res.Len() != 3 {
		return false
	}
	b0, ok0 := res.At(0).Type().Underlying().(*types.Basic)
	b1, ok1 := res.At(1).Type().Underlying().(*types.Basic)
	return ok0 && ok1 && b0.Kind() == types.String && b1.Kind() == types.Bool && isErrorType(res.At(2).Type())
}

var errExemptCallees = map[string]string{
	"fmt.Print": "stdout write", "fmt.Println": "stdout write", "fmt.Printf": "stdout write",
	"log.Print": "", "log.Printf": "",
	// documented to always return a nil error
	"(*strings.Builder).Write": "infallible", "(*strings.Builder).WriteString": "infallible", "(*strings.Builder).WriteByte": "infallible", "(*strings.Builder).WriteRune": "infallible",
	"(*bytes.Buffer).Write": "infallible", "(*bytes.Buffer).WriteString": "infallible", "(*bytes.Buffer).WriteByte": "infallible", "(*bytes.Buffer).WriteRune": "infallible",
}

func (c *cli) ruleErrors(r *Report, helpers map[*ssa.Function]bool) {
	const rule = "R-CLI/E3"
	for _, fn := range c.fns {
		if fn.Name() == "runAsGitHubAction" {
			continue // wrapper for the GitHub action image, outside the CLI contract (exempt by name)
		}
		ord := map[string]int{}
		for _, b := range fn.Blocks {
			for _, in := range b.Instrs {
				call, ok := in.(*ssa.Call)
				if !ok {
					continue
				}
				sig := call.Call.Signature()
				if sig == nil || !lastIsError(sig) {
					continue
				}
				name := calleeFullName(call)
				if _, ex := errExemptCallees[name]; ex {
					continue
				}
				ord[name]++
				key := c.key(fn, fmt.Sprintf("%s#%d", name, ord[name]))
				pos := c.w.Pos(call.Pos())
				var errVal ssa.Value
				if sig.Results().Len() == 1 {
					errVal = call
				} else {
					for _, ref := range *call.Referrers() {
						if ex, ok := ref.(*ssa.Extract); ok && ex.Index == sig.Results().Len()-1 {
							errVal = ex
						}
					}
				}
				if errVal == nil {
					r.Bad(rule, key, pos, "error result is discarded: a failure here ends with exit status 0 or 1 instead of 2")
					continue
				}
				ok2, why := c.errorHandled(errVal, helpers, map[ssa.Value]bool{})
				r.Check(ok2, rule, key, pos, why, why)
			}
		}
	}
}

// errorHandled: the error value reaches a nil test whose failing side calls an
// exit-2 helper (or returns the error to a caller), possibly through phis.
func (c *cli) errorHandled(v ssa.Value, helpers map[*ssa.Function]bool, seen map[ssa.Value]bool) (bool, string) {
	if seen[v] {
		return false, "error flows in a cycle"
	}
	seen[v] = true
	refs := v.Referrers()
	if refs == nil {
		return false, "error result is discarded"
	}
	for _, ref := range *refs {
		switch u := ref.(type) {
		case *ssa.Return:
			return true, "error is returned to the caller"
		case *ssa.Phi:
			if ok, why := c.errorHandled(u, helpers, seen); ok {
				return ok, why
			}
		case *ssa.MakeInterface:
			// boxed for a variadic call (fmt.Errorf("...%w", err), errorfAndExit(...))
			if ok, why := c.errorHandled(u, helpers, seen); ok {
				return ok, why
			}
			for _, call := range callsThroughVarargs(u) {
				if ok, why := c.errorPassed(call, helpers, seen); ok {
					return ok, why
				}
			}
		case *ssa.Call:
			if ok, why := c.errorPassed(u, helpers, seen); ok {
				return ok, why
			}
		case *ssa.Store:
			// spilled into a result cell (named results, range-over-func
			// bodies): handled when what is loaded from the cell is
			if u.Val != v {
				continue
			}
			cell, isCell := closureCell(u.Addr).(*ssa.Alloc)
			if !isCell {
				continue
			}
			handled, why := false, ""
			withClosures(cell.Parent(), func(f *ssa.Function) {
				allInstrs(f, func(in ssa.Instruction) {
					ld, ok := in.(*ssa.UnOp)
					if !ok || ld.Op != token.MUL || closureCell(ld.X) != ssa.Value(cell) || handled {
						return
					}
					if ok2, w2 := c.errorHandled(ld, helpers, seen); ok2 {
						handled, why = true, w2
					}
				})
			})
			if handled {
				return true, why
			}
		case *ssa.BinOp:
			if (u.Op != token.NEQ && u.Op != token.EQL) || !(isNilConst(u.X) || isNilConst(u.Y)) {
				continue
			}
			for _, r2 := range *u.Referrers() {
				iff, ok := r2.(*ssa.If)
				if !ok {
					continue
				}
				fail := iff.Block().Succs[0]
				if u.Op == token.EQL {
					fail = iff.Block().Succs[1]
				}
				region := []*ssa.BasicBlock{fail}
				if len(fail.Preds) == 1 {
					for _, bb := range fail.Parent().Blocks {
						if bb != fail && fail.Dominates(bb) {
							region = append(region, bb)
						}
					}
				}
				for _, bb := range region {
					for _, in := range bb.Instrs {
						switch x := in.(type) {
						case ssa.CallInstruction:
							if code, isExit := isExitCall(x); isExit && code == 2 {
								return true, "error is tested and the failing side exits with status 2"
							}
							if sf := staticCallee(x); sf != nil && helpers[sf] {
								return true, "error is tested and the failing side calls " + sf.Name()
							}
						case *ssa.Return:
							for _, rv := range x.Results {
								if rv == v {
									return true, "error is tested and returned to the caller"
								}
								// returned wrapped: fmt.Errorf("...: %w", err) and the like
								if call, isCall := rv.(*ssa.Call); isCall && isErrorType(rv.Type()) {
									for _, a := range variadicElems(call) {
										if strip(a) == v {
											return true, "error is tested and returned to the caller with added context"
										}
									}
								}
							}
						}
					}
				}
				return false, "error is tested but the failing side neither exits with status 2 nor returns it"
			}
		}
	}
	return false, "error result is never tested: a failure here ends with exit status 0 or 1 instead of 2"
}

// errorPassed: the error is handed to a call: an exit-2 helper handles it; a
// function that returns an error (a wrapper such as fmt.Errorf) passes the
// obligation on to its result.
func (c *cli) errorPassed(call *ssa.Call, helpers map[*ssa.Function]bool, seen map[ssa.Value]bool) (bool, string) {
	if sf := staticCallee(call); sf != nil && helpers[sf] {
		return true, "error is handed to " + sf.Name() + ", which exits with status 2"
	}
	// a helper of package main that does the nil test and the exit itself
	if sf := staticCallee(call); sf != nil && sf.Blocks != nil && sf.Pkg == c.pkg {
		for i, a := range call.Call.Args {
			if i >= len(sf.Params) || !isErrorType(sf.Params[i].Type()) || !isErrorType(a.Type()) {
				continue
			}
			if ok, why := c.errorHandled(sf.Params[i], helpers, seen); ok {
				return true, "error is handed to " + sf.Name() + ", where " + why
			}
		}
	}
	sig := call.Call.Signature()
	if sig != nil && sig.Results().Len() == 1 && isErrorType(sig.Results().At(0).Type()) {
		switch calleeFullName(call) {
		case "fmt.Errorf", "errors.Join":
			return c.errorHandled(call, helpers, seen)
		}
	}
	return false, ""
}

// callsThroughVarargs: calls that receive v through a varargs array (v stored into `new [n]T (varargs)`, sliced, passed).
func callsThroughVarargs(v ssa.Value) []*ssa.Call {
	var out []*ssa.Call
	refs := v.Referrers()
	if refs == nil {
		return nil
	}
	for _, ref := range *refs {
		st, ok := ref.(*ssa.Store)
		if !ok || st.Val != v {
			continue
		}
		ia, ok := st.Addr.(*ssa.IndexAddr)
		if !ok {
			continue
		}
		al, ok := ia.X.(*ssa.Alloc)
		if !ok {
			continue
		}
		for _, r2 := range *al.Referrers() {
			sl, ok := r2.(*ssa.Slice)
			if !ok {
				continue
			}
			for _, r3 := range *sl.Referrers() {
				if call, ok := r3.(*ssa.Call); ok {
					out = append(out, call)
				}
			}
		}
	}
	return out
}

// ------------------------------------------------------------------ O: output discipline

func isStdoutWrite(ci ssa.CallInstruction) bool {
	switch calleeFullName(ci) {
	case "fmt.Print", "fmt.Println", "fmt.Printf":
		return true
	}
	// os.Stdout.Write*, fmt.Fprint*(os.Stdout, ...)
	for _, a := range ci.Common().Args {
		if u, ok := strip(a).(*ssa.UnOp); ok && u.Op == token.MUL {
			if g, ok := u.X.(*ssa.Global); ok && g.Pkg != nil && g.Pkg.Pkg.Path() == "os" && g.Name() == "Stdout" {
				return true
			}
		}
	}
	return false
}

// rendering: v is exactly what the library rendered (or "" on error paths).
func (c *cli) rendering(v ssa.Value, seen map[ssa.Value]bool) (bool, string) {
	v = strip(v)
	if seen[v] {
		return true, ""
	}
	seen[v] = true
	switch x := v.(type) {
	case *ssa.Const:
		if s, ok := constString(x); ok && s == "" {
			return true, ""
		}
		return false, "constant " + x.String()
	case *ssa.Phi:
		for _, e := range x.Edges {
			if ok, why := c.rendering(e, seen); !ok {
				return false, why
			}
		}
		return true, ""
	case *ssa.Call:
		return c.renderingCall(x, 0, seen)
	case *ssa.Extract:
		if call, ok := x.Tuple.(*ssa.Call); ok {
			return c.renderingCall(call, x.Index, seen)
		}
	}
	return false, valueName(v)
}

var renderers = map[string]bool{"Render": true, "RenderPatch": true, "RenderMerge": true, "Json": true, "Yaml": true}

func (c *cli) renderingCall(call *ssa.Call, idx int, seen map[ssa.Value]bool) (bool, string) {
	if n := c.libCallee(call); n != "" {
		if renderers[n] && idx == 0 {
			return true, ""
		}
		return false, "result of library call " + n + ", which is not a renderer"
	}
	if sf := staticCallee(call); sf != nil && fnPkg(sf) == c.pkg.Pkg && sf.Blocks != nil {
		for _, ret := range returnsOf(sf) {
			if idx >= len(ret.Results) {
				return false, "result index"
			}
			if ok, why := c.rendering(ret.Results[idx], seen); !ok {
				return false, why
			}
		}
		return true, ""
	}
	// a function taken out of a package-level table of function literals that is only filled by the initialiser
	if fns := c.tableCallees(call); len(fns) > 0 {
		for _, sf := range fns {
			for _, ret := range returnsOf(sf) {
				if idx >= len(ret.Results) {
					return false, "result index"
				}
				// error returns hand back the empty string next to the error
				if ok, why := c.rendering(ret.Results[idx], seen); !ok {
					return false, "in " + fnName(sf) + ": " + why
				}
			}
		}
		return true, ""
	}
	return false, "result of " + calleeFullName(call)
}

// tableCallees: the call's function value is looked up in a package-level map
// whose values are function literals stored by the package initialiser and
// that is never written elsewhere; returns those functions.
func (c *cli) tableCallees(call *ssa.Call) []*ssa.Function {
	v := call.Call.Value
	if ex, ok := v.(*ssa.Extract); ok && ex.Index == 0 {
		v = ex.Tuple
	}
	lk, ok := v.(*ssa.Lookup)
	if !ok {
		return nil
	}
	ld, ok := lk.X.(*ssa.UnOp)
	if !ok || ld.Op != token.MUL {
		return nil
	}
	g, ok := ld.X.(*ssa.Global)
	if !ok || g.Pkg != c.pkg {
		return nil
	}
	initFn := c.pkg.Func("init")
	if initFn == nil {
		return nil
	}
	var mk *ssa.MakeMap
	stores, okAll := 0, true
	for fn := range c.w.AllFunctions() {
		home := fn
		for home.Parent() != nil {
			home = home.Parent()
		}
		if home.Pkg != c.pkg || fn.Blocks == nil {
			continue
		}
		allInstrs(fn, func(in ssa.Instruction) {
			switch x := in.(type) {
			case *ssa.Store:
				if x.Addr == ssa.Value(g) {
					stores++
					m, isMk := x.Val.(*ssa.MakeMap)
					if fn != initFn || !isMk {
						okAll = false
					}
					mk = m
				}
			case *ssa.MapUpdate:
				if l2, isLd := x.Map.(*ssa.UnOp); isLd && l2.X == ssa.Value(g) {
					okAll = false
				}
			}
		})
	}
	if !okAll || stores != 1 || mk == nil {
		return nil
	}
	var out []*ssa.Function
	for _, ref := range *mk.Referrers() {
		switch x := ref.(type) {
		case *ssa.MapUpdate:
			f := closureValue(x.Value, 0)
			if f == nil {
				if fv, isF := x.Value.(*ssa.Function); isF {
					f = fv
				}
			}
			if f == nil || f.Blocks == nil {
				return nil
			}
			out = append(out, f)
		case *ssa.Store:
		default:
			return nil
		}
	}
	return out
}

func (c *cli) ruleOutput(r *Report) {
	const rule = "R-CLI/O"
	n := 0
	for _, fn := range c.fns {
		// a print routine branches on *output == ""
		var branch *ssa.BasicBlock
		for _, b := range fn.Blocks {
			cond, _, _, ok := branchEdges(b)
			if !ok {
				continue
			}
			bo, ok := cond.(*ssa.BinOp)
			if !ok || bo.Op != token.EQL {
				continue
			}
			if c.flagOf(bo.X) == "o" {
				if s, ok := constString(bo.Y); ok && s == "" {
					branch = b
				}
			}
		}
		// stdout writes outside print routines
		if branch == nil {
			continue
		}
		n++
		r.Fn(fnName(fn))
		pos := c.w.Pos(fn.Pos())
		_, tE, fE, _ := branchEdges(branch)
		var printed, written ssa.Value
		nStdout, nWrite := 0, 0
		stdoutOnFile := false
		fileSide := reachFrom(fE.To(), EdgeSet{})
		// blocks reachable from the -o side without re-joining are those not
		// reachable from the stdout side's first block exclusively; a stdout
		// write is forbidden in any block only the file side can reach
		stdSide := reachFrom(tE.To(), EdgeSet{})
		for _, b := range fn.Blocks {
			for _, in := range b.Instrs {
				ci, ok := in.(ssa.CallInstruction)
				if !ok {
					continue
				}
				if isStdoutWrite(ci) {
					nStdout++
					if b == tE.To() && calleeFullName(ci) == "fmt.Print" {
						// single variadic argument: the slice holds exactly one element
						printed = singleVariadic(ci)
					}
					if fileSide[b] && !(stdSide[b] && b == tE.To()) && b != tE.To() {
						if fileSide[b] {
							stdoutOnFile = stdoutOnFile || !stdSide[b] || b != tE.To()
						}
					}
				}
				switch calleeFullName(ci) {
				case "os.OpenFile", "os.Create":
					args := ci.Common().Args
					if c.flagOf(args[0]) == "o" {
						trunc := calleeFullName(ci) == "os.Create"
						if len(args) > 1 {
							if fl, ok := constInt(args[1]); ok && fl&0x200 != 0 && fl&0x40 != 0 {
								trunc = true
							}
						}
						if !trunc {
							r.Bad(rule, c.key(fn, "output-file-truncated"), c.w.Pos(ci.Pos()), "the -o file is opened without O_CREATE|O_TRUNC: bytes of a longer previous content stay behind the new output")
						}
					}
				case "io/ioutil.WriteFile", "os.WriteFile":
					nWrite++
					if b == fE.To() {
						args := ci.Common().Args
						if c.flagOf(args[0]) == "o" {
							if cv, ok := args[1].(*ssa.Convert); ok {
								written = strip(cv.X)
							}
						}
					}
				}
			}
		}
		key := c.key(fn, "sinks")
		switch {
		case printed == nil:
			r.Bad(rule, key, pos, "on the edge where -o is empty the value is not handed to fmt.Print as its single argument")
		case written == nil:
			r.Bad(rule, key, pos, "on the -o edge the value is not written to the -o file with WriteFile(*output, []byte(s), …)")
		case strip(printed) != written:
			r.Bad(rule, key, pos, "the value printed to stdout and the value written to the -o file are not the same value")
		case nStdout != 1 || nWrite != 1:
			r.Bad(rule, key, pos, fmt.Sprintf("the routine has %d stdout writes and %d file writes; exactly one of each is expected (nothing else may reach stdout, in particular not with -o)", nStdout, nWrite))
		default:
			r.Ok(rule, key, pos, "one value, printed with fmt.Print when -o is empty and written with WriteFile otherwise; no other stdout write")
		}
		if printed != nil {
			if p, isParam := strip(printed).(*ssa.Parameter); isParam && p.Parent() == fn {
				// an extracted output helper: every caller must hand it a library rendering
				pi := -1
				for i, q := range fn.Params {
					if q == p {
						pi = i
					}
				}
				n-- // the helper itself is not a print routine; its call sites are
				for _, caller := range c.fns {
					k := 0
					allInstrs(caller, func(in ssa.Instruction) {
						call, ok := in.(*ssa.Call)
						if !ok || staticCallee(call) != fn || pi >= len(call.Call.Args) {
							return
						}
						k++
						n++
						ok2, why := c.rendering(call.Call.Args[pi], map[ssa.Value]bool{})
						r.Check(ok2, rule, c.key(caller, fmt.Sprintf("is-library-rendering→%s#%d", fn.Name(), k)), c.w.Pos(call.Pos()), "the value handed to the output helper is exactly the string the library rendered",
							"the value handed to the output helper is not exactly what the library rendered: "+why)
						// the caller itself writes nothing to stdout
						extra := false
						allInstrs(caller, func(in2 ssa.Instruction) {
							if ci, ok := in2.(ssa.CallInstruction); ok && isStdoutWrite(ci) {
								extra = true
							}
						})
						r.Check(!extra, rule, c.key(caller, "no-other-stdout"), c.w.Pos(caller.Pos()), "the routine writes nothing to stdout besides the output helper", "the routine writes to stdout besides the output helper: with -o something still reaches stdout")
					})
				}
			} else {
				ok, why := c.rendering(printed, map[ssa.Value]bool{})
				r.Check(ok, rule, c.key(fn, "is-library-rendering"), pos, "the printed value is exactly the string the library rendered",
					"the printed value is not exactly what the library rendered: "+why)
			}
		}
	}
	if n < 3 {
		r.Bad(rule, c.tag+":print-routines", "-", fmt.Sprintf("only %d print routines (functions branching on *output == \"\") found; at least 3 expected", n))
	}
	// no stdout writes in the diff routines / read helpers
	for _, fn := range c.fns {
		if !isDiffRoutine(fn) {
			continue
		}
		bad := false
		allInstrs(fn, func(in ssa.Instruction) {
			if ci, ok := in.(ssa.CallInstruction); ok && isStdoutWrite(ci) {
				bad = true
			}
		})
		r.Check(!bad, rule, c.key(fn, "no-stdout"), c.w.Pos(fn.Pos()), "the diff routine writes nothing to stdout", "the diff routine writes to stdout itself: with -o the output file is not the only place the bytes go")
	}
}

// singleVariadic: the only element of the variadic argument slice of a call
// (nil if there is not exactly one).
func singleVariadic(ci ssa.CallInstruction) ssa.Value {
	args := ci.Common().Args
	if len(args) == 0 {
		return nil
	}
	sl, ok := args[len(args)-1].(*ssa.Slice)
	if !ok {
		return nil
	}
	a, ok := sl.X.(*ssa.Alloc)
	if !ok {
		return nil
	}
	arr, ok := a.Type().(*types.Pointer).Elem().Underlying().(*types.Array)
	if !ok || arr.Len() != 1 {
		return nil
	}
	var val ssa.Value
	for _, ref := range *a.Referrers() {
		if ia, ok := ref.(*ssa.IndexAddr); ok {
			for _, r2 := range *ia.Referrers() {
				if st, ok := r2.(*ssa.Store); ok {
					val = st.Val
				}
			}
		}
	}
	if val == nil {
		return nil
	}
	return strip(val)
}

// ------------------------------------------------------------------ D: the diff routine's boolean and sentinels

var sentinelOf = map[string]string{"Render": `""`, "RenderPatch": `"[]"`, "RenderMerge": `"{}"`}

func (c *cli) ruleHaveDiff(r *Report) {
	const rule = "R-CLI/D"
	n := 0
	for _, fn := range c.fns {
		if !isDiffRoutine(fn) {
			continue
		}
		n++
		r.Fn(fnName(fn))
		ok, why, pos := c.haveDiffTable(fn)
		r.Check(ok, rule, c.key(fn, "haveDiff"), pos,
			"for every -f value the difference flag is true exactly when the rendered output differs from the library's empty rendering of that format",
			"the exit status is not derived from the rendered diff: "+why)
	}
	if n == 0 {
		r.Bad(rule, c.tag+":diff-routine", "-", "no diff routine (func returning string, bool, error) found in package main")
	}
	c.ruleOperands(r)
}

// ruleOperands — the two documents handed to the library's Diff are read from two different
// inputs on every path: the parameters of the calling function that the receiver derives from and
// those the argument derives from (through the library's readers, phis, locals and in-package
// helpers) are disjoint, and each side derives from one. A "same text, parse once" shortcut that
// lets the second operand be the first document (seeded change C05-r) makes the difference flag a
// statement about one document.
func (c *cli) ruleOperands(r *Report) {
	const rule = "R-CLI/AB"
	for _, fn := range c.fns {
		k := 0
		for _, b := range fn.Blocks {
			for _, in := range b.Instrs {
				ci, ok := in.(ssa.CallInstruction)
				if !ok || c.libCallee(ci) != "Diff" || !ci.Common().IsInvoke() || len(ci.Common().Args) < 1 {
					continue
				}
				k++
				key := c.key(fn, fmt.Sprintf("diff-operands#%d", k))
				pa, oa := map[int]bool{}, false
				pb, ob := map[int]bool{}, false
				operandParams(fn, ci.Common().Value, pa, &oa, map[ssa.Value]bool{}, 0)
				operandParams(fn, ci.Common().Args[0], pb, &ob, map[ssa.Value]bool{}, 0)
				if oa || ob {
					r.Ok(rule, key, c.w.Pos(ci.Pos()), "an operand of Diff does not derive from the function's parameters alone: this clause makes no claim (not decided)")
					continue
				}
				shared := ""
				for i := range pa {
					if pb[i] {
						shared = fn.Params[i].Name()
					}
				}
				r.Check(len(pa) > 0 && len(pb) > 0 && shared == "", rule, key, c.w.Pos(ci.Pos()),
					"the two documents handed to Diff derive from different inputs on every path",
					"the two documents handed to Diff can be one and the same input: both derive from parameter `"+shared+"` on some path, so the second input is not (always) what the first is compared with and the difference flag says nothing about it")
			}
		}
	}
}

// operandParams: the parameters of fn a value derives from; *other is set when it (also) derives
// from something that is neither a parameter nor a constant.
func operandParams(fn *ssa.Function, v ssa.Value, out map[int]bool, other *bool, seen map[ssa.Value]bool, depth int) {
	if v == nil || seen[v] {
		return
	}
	seen[v] = true
	if depth > 30 {
		*other = true
		return
	}
	switch x := v.(type) {
	case *ssa.Parameter:
		for i, p := range fn.Params {
			if p == x {
				out[i] = true
				return
			}
		}
		*other = true
	case *ssa.Const:
	case *ssa.Phi:
		for _, e := range x.Edges {
			operandParams(fn, e, out, other, seen, depth+1)
		}
	case *ssa.Extract:
		operandParams(fn, x.Tuple, out, other, seen, depth+1)
	case *ssa.Convert:
		operandParams(fn, x.X, out, other, seen, depth+1)
	case *ssa.ChangeType:
		operandParams(fn, x.X, out, other, seen, depth+1)
	case *ssa.ChangeInterface:
		operandParams(fn, x.X, out, other, seen, depth+1)
	case *ssa.MakeInterface:
		operandParams(fn, x.X, out, other, seen, depth+1)
	case *ssa.TypeAssert:
		operandParams(fn, x.X, out, other, seen, depth+1)
	case *ssa.UnOp:
		if x.Op != token.MUL {
			operandParams(fn, x.X, out, other, seen, depth+1)
			return
		}
		al, ok := x.X.(*ssa.Alloc)
		if !ok {
			// flags and other globals select a reader, they are not a document
			if _, isG := x.X.(*ssa.Global); isG {
				return
			}
			*other = true
			return
		}
		for _, ref := range *al.Referrers() {
			if st, ok := ref.(*ssa.Store); ok && st.Addr == ssa.Value(al) {
				operandParams(fn, st.Val, out, other, seen, depth+1)
			}
		}
	case *ssa.Call:
		if x.Call.IsInvoke() {
			operandParams(fn, x.Call.Value, out, other, seen, depth+1)
		}
		for _, a := range x.Call.Args {
			// option lists and the like are not documents: only string / []byte / node arguments count
			operandParams(fn, a, out, other, seen, depth+1)
		}
	case *ssa.Slice:
		operandParams(fn, x.X, out, other, seen, depth+1)
	default:
		*other = true
	}
}

// haveDiffTable evaluates the diff routine's boolean result as a predicate over
// the rendered string, per value of -f: with the string bound in turn to every
// constant it is compared with anywhere (and to "something else"), the
// boolean must be decided and equal to `string != empty rendering of the
// renderer that produced it`. Branches on flags and on the bound string are
// pruned; phis are resolved over the edges that remain; in-package helpers are
// evaluated with their parameters bound to the caller's arguments.
func (c *cli) haveDiffTable(fn *ssa.Function) (bool, string, string) {
	formats := append([]string{}, c.flagConsts(fn, "f")...)
	consts := c.stringConstsCompared()
	consts[otherValue] = true
	checked := 0
	pos := c.w.Pos(fn.Pos())
	for _, f := range formats {
		assign := map[string]string{"f": f}
		reach, cut := c.reachCutUnderV(fn, assign, nil)
		for _, ret := range returnsOf(fn) {
			if !reach[ret.Block()] {
				continue
			}
			if e := c.resolveUnder(ret.Results[2], reach, cut); !isNilConst(e) {
				continue
			}
			x := c.resolveUnder(ret.Results[0], reach, cut)
			rn := c.renderCallName(x)
			if rn == "" {
				if k, isK := strip(x).(*ssa.Const); isK && k.Value != nil {
					// a constant rendering on a success path: decided by R-CLI/P
					continue
				}
				return false, fmt.Sprintf("with -f %s the returned text is %s, not the result of a library renderer", f, valueName(x)), c.w.Pos(ret.Pos())
			}
			want := sentinelOf[rn]
			for _, k := range sortedKeys(consts) {
				ev := &boolEval{c: c, depth: 0}
				bind := map[ssa.Value]string{}
				c.bindAliases(fn, x, k, reach, cut, bind)
				val, known, why := ev.eval(fn, ret.Results[1], ret.Block(), assign, bind)
				shown := k
				if k == otherValue {
					shown = "any other text"
				}
				if !known {
					return false, fmt.Sprintf("with -f %s and output %s the boolean is undecided: %s", f, shown, why), c.w.Pos(ret.Pos())
				}
				if val != (k != want) {
					return false, fmt.Sprintf("with -f %s (%s, empty rendering %s) an output of %s gives difference=%v", f, rn, want, shown, val), c.w.Pos(ret.Pos())
				}
				checked++
			}
		}
	}
	if checked == 0 {
		return false, "no successful return of the diff routine renders through the library under any -f value", pos
	}
	return true, "", pos
}

// stringConstsCompared: every string constant used in an (in)equality in package main.
func (c *cli) stringConstsCompared() map[string]bool {
	out := map[string]bool{}
	for _, fn := range c.fns {
		allInstrs(fn, func(in ssa.Instruction) {
			bo, ok := in.(*ssa.BinOp)
			if !ok || (bo.Op != token.EQL && bo.Op != token.NEQ) {
				return
			}
			for _, v := range []ssa.Value{bo.X, bo.Y} {
				if k, isK := strip(v).(*ssa.Const); isK && k.Value != nil && k.Value.Kind() == constant.String {
					out[k.Value.ExactString()] = true
				}
			}
		})
	}
	return out
}

// reachCutUnderV is reachUnderV that also returns the edges decided away.
func (c *cli) reachCutUnderV(fn *ssa.Function, assign map[string]string, assignV map[ssa.Value]string) (map[*ssa.BasicBlock]bool, EdgeSet) {
	cut := EdgeSet{}
	reach := reachFrom(fn.Blocks[0], cut)
	for round := 0; round < 4; round++ {
		changed := false
		for _, b := range fn.Blocks {
			iff, ok := b.Instrs[len(b.Instrs)-1].(*ssa.If)
			if !ok || cut[Edge{b, 0}] || cut[Edge{b, 1}] {
				continue
			}
			v, known := c.condUnderV(iff.Cond, assign, assignV)
			if !known {
				v, known = c.condPhiUnder(iff.Cond, assign, assignV, reach, cut, 0)
			}
			if known {
				if v {
					cut[Edge{b, 1}] = true
				} else {
					cut[Edge{b, 0}] = true
				}
				changed = true
			}
		}
		if !changed {
			break
		}
		reach = reachFrom(fn.Blocks[0], cut)
	}
	return reach, cut
}

// feasibleIn: indices of the phi edges whose predecessor is reachable over an edge that was not cut.
func feasibleIn(phi *ssa.Phi, reach map[*ssa.BasicBlock]bool, cut EdgeSet) []int {
	var out []int
	b := phi.Block()
	for i, p := range b.Preds {
		if !reach[p] {
			continue
		}
		open := false
		for si, s := range p.Succs {
			if s == b && !cut[Edge{p, si}] {
				open = true
			}
		}
		if open {
			out = append(out, i)
		}
	}
	return out
}

// resolveUnder follows phis that have a single feasible incoming edge.
func (c *cli) resolveUnder(v ssa.Value, reach map[*ssa.BasicBlock]bool, cut EdgeSet) ssa.Value {
	for i := 0; i < 20; i++ {
		v = strip(v)
		phi, ok := v.(*ssa.Phi)
		if !ok {
			return v
		}
		in := feasibleIn(phi, reach, cut)
		if len(in) == 0 {
			return v
		}
		first := c.resolveUnder(phi.Edges[in[0]], reach, cut)
		for _, j := range in[1:] {
			if c.resolveUnder(phi.Edges[j], reach, cut) != first {
				return v
			}
		}
		v = first
	}
	return v
}

// bindAliases binds x and every phi of fn that resolves to x to the constant k.
func (c *cli) bindAliases(fn *ssa.Function, x ssa.Value, k string, reach map[*ssa.BasicBlock]bool, cut EdgeSet, bind map[ssa.Value]string) {
	bind[x] = k
	for _, b := range fn.Blocks {
		for _, in := range b.Instrs {
			phi, ok := in.(*ssa.Phi)
			if !ok {
				break
			}
			if reach[b] && c.resolveUnder(phi, reach, cut) == x {
				bind[phi] = k
			}
		}
	}
}

type boolEval struct {
	c     *cli
	depth int
}

// eval decides boolean v of fn (used in block at) under flag assignment and string bindings.
func (ev *boolEval) eval(fn *ssa.Function, v ssa.Value, at *ssa.BasicBlock, assign map[string]string, bind map[ssa.Value]string) (val, known bool, why string) {
	c := ev.c
	reach, cut := c.reachCutUnderV(fn, assign, bind)
	var rec func(v ssa.Value, depth int) (bool, bool, string)
	rec = func(v ssa.Value, depth int) (bool, bool, string) {
		if depth > 12 {
			return false, false, "nesting too deep"
		}
		v = strip(v)
		if b, ok := constBool(v); ok {
			return b, true, ""
		}
		if val, known := c.condUnderV(v, assign, bind); known {
			return val, true, ""
		}
		switch x := v.(type) {
		case *ssa.UnOp:
			if x.Op == token.NOT {
				val, known, why := rec(x.X, depth+1)
				return !val, known, why
			}
		case *ssa.BinOp:
			if x.Op == token.EQL || x.Op == token.NEQ {
				// both sides bound or constant strings
				l, okl := ev.strOf(x.X, reach, cut, bind, assign)
				rr, okr := ev.strOf(x.Y, reach, cut, bind, assign)
				if okl && okr && l != otherValue && rr != otherValue {
					return (l == rr) == (x.Op == token.EQL), true, ""
				}
				if okl && okr && (l == otherValue) != (rr == otherValue) {
					return x.Op == token.NEQ, true, ""
				}
			}
		case *ssa.Phi:
			in := feasibleIn(x, reach, cut)
			if len(in) == 0 {
				return false, false, "no feasible edge into " + valueName(x)
			}
			first, known, why := rec(x.Edges[in[0]], depth+1)
			if !known {
				return false, false, why
			}
			for _, j := range in[1:] {
				o, known, why := rec(x.Edges[j], depth+1)
				if !known {
					return false, false, why
				}
				if o != first {
					return false, false, "the value depends on something other than the -f flag and the rendered text (" + valueName(x) + ")"
				}
			}
			return first, true, ""
		case *ssa.Call:
			callee := staticCallee(x)
			if callee == nil || callee.Pkg != c.pkg || callee.Blocks == nil || ev.depth > 3 {
				break
			}
			res := callee.Signature.Results()
			if res.Len() != 1 {
				break
			}
			inner := map[ssa.Value]string{}
			innerAssign := assign
			for i, a := range x.Call.Args {
				if i >= len(callee.Params) {
					break
				}
				if s, ok := ev.strOf(a, reach, cut, bind, assign); ok {
					inner[callee.Params[i]] = s
				}
			}
			sub := &boolEval{c: c, depth: ev.depth + 1}
			rch, _ := c.reachCutUnderV(callee, innerAssign, inner)
			var out, have bool
			for _, ret := range returnsOf(callee) {
				if !rch[ret.Block()] {
					continue
				}
				val, known, why := sub.eval(callee, ret.Results[0], ret.Block(), innerAssign, inner)
				if !known {
					return false, false, "in " + fnName(callee) + ": " + why
				}
				if have && val != out {
					return false, false, fnName(callee) + " does not decide its result from its arguments"
				}
				out, have = val, true
			}
			if have {
				return out, true, ""
			}
		}
		return false, false, "it is computed from " + valueName(v) + ", not from comparing the rendered output with the empty rendering"
	}
	_ = at
	return rec(v, 0)
}

// strOf: the string a value is bound to (a constant, a bound value, or a flag with an assigned value).
func (ev *boolEval) strOf(v ssa.Value, reach map[*ssa.BasicBlock]bool, cut EdgeSet, bind map[ssa.Value]string, assign map[string]string) (string, bool) {
	v = strip(v)
	if k, ok := v.(*ssa.Const); ok && k.Value != nil && k.Value.Kind() == constant.String {
		return k.Value.ExactString(), true
	}
	if s, ok := bind[v]; ok {
		return s, true
	}
	if f := ev.c.flagOf(v); f != "" {
		if s, ok := assign[f]; ok {
			return s, true
		}
	}
	if call, ok := v.(*ssa.Call); ok && isStringType(call.Type()) && ev.depth < 3 {
		// a helper of package main that picks a string from its arguments (e.g. the empty rendering of a format)
		if sf := staticCallee(call); sf != nil && sf.Blocks != nil && sf.Pkg == ev.c.pkg && len(call.Call.Args) == len(sf.Params) {
			inner := map[ssa.Value]string{}
			for i, a := range call.Call.Args {
				if s, ok := ev.strOf(a, reach, cut, bind, assign); ok {
					inner[sf.Params[i]] = s
				}
			}
			rch, rcut := ev.c.reachCutUnderV(sf, assign, inner)
			sub := &boolEval{c: ev.c, depth: ev.depth + 1}
			out, have := "", false
			for _, ret := range returnsOf(sf) {
				if !rch[ret.Block()] {
					continue
				}
				s, ok := sub.strOf(ret.Results[0], rch, rcut, inner, assign)
				if !ok || (have && s != out) {
					return "", false
				}
				out, have = s, true
			}
			if have {
				return out, true
			}
		}
	}
	if lk, ok := v.(*ssa.Lookup); ok && !lk.CommaOk {
		// a lookup in a package-level table of string constants that is never written after initialisation
		if ld, ok := strip(lk.X).(*ssa.UnOp); ok && ld.Op == token.MUL {
			if g, ok := ld.X.(*ssa.Global); ok {
				if table, ok := ev.c.constStringMap(g); ok {
					if key, ok := ev.strOf(lk.Index, reach, cut, bind, assign); ok {
						if val, ok := table[key]; ok {
							return val, true
						}
						return `""`, true
					}
				}
			}
		}
	}
	r := ev.c.resolveUnder(v, reach, cut)
	if r != v {
		return ev.strOf(r, reach, cut, bind, assign)
	}
	return "", false
}

// constStringMap: g is a package-level map[string]string filled with constants
// by the package initialiser and never stored to or updated anywhere else.
func (c *cli) constStringMap(g *ssa.Global) (map[string]string, bool) {
	if g.Pkg != c.pkg {
		return nil, false
	}
	initFn := c.pkg.Func("init")
	if initFn == nil {
		return nil, false
	}
	var mk *ssa.MakeMap
	stores := 0
	table := map[string]string{}
	ok := true
	for fn := range c.w.AllFunctions() {
		if fn.Pkg != c.pkg && (fn.Parent() == nil || fn.Parent().Pkg != c.pkg) {
			continue
		}
		allInstrs(fn, func(in ssa.Instruction) {
			switch x := in.(type) {
			case *ssa.Store:
				if x.Addr == ssa.Value(g) {
					stores++
					m, isMk := x.Val.(*ssa.MakeMap)
					if fn != initFn || !isMk {
						ok = false
					}
					mk = m
				}
			case *ssa.MapUpdate:
				// updates of the map held by g: through the MakeMap in init (fine, constants only) or through a load of g (not fine)
				if ld, isLd := x.Map.(*ssa.UnOp); isLd && ld.X == ssa.Value(g) {
					ok = false
				}
			}
		})
	}
	if !ok || stores != 1 || mk == nil {
		return nil, false
	}
	for _, ref := range *mk.Referrers() {
		switch x := ref.(type) {
		case *ssa.MapUpdate:
			k, okk := strip(x.Key).(*ssa.Const)
			v, okv := strip(x.Value).(*ssa.Const)
			if !okk || !okv || k.Value == nil || v.Value == nil {
				return nil, false
			}
			table[k.Value.ExactString()] = v.Value.ExactString()
		case *ssa.Store:
		default:
			return nil, false
		}
	}
	return table, true
}

// renderCallName: v is the (string) result of a library Render* call.
func (c *cli) renderCallName(v ssa.Value) string {
	v = strip(v)
	switch x := v.(type) {
	case *ssa.Call:
		if n := c.libCallee(x); sentinelOf[n] != "" {
			return n
		}
	case *ssa.Extract:
		if call, ok := x.Tuple.(*ssa.Call); ok && x.Index == 0 {
			if n := c.libCallee(call); sentinelOf[n] != "" {
				return n
			}
		}
	}
	return ""
}

// ruleSentinels (library side): RenderPatch / RenderMerge return the sentinel
// constant on the len(d) == 0 edge.
func ruleSentinels(w *World, r *Report, pkg *ssa.Package, tag string) {
	const rule = "R-CLI/O3"
	for name, want := range map[string]string{"RenderPatch": `"[]"`, "RenderMerge": `"{}"`} {
		fn := w.MethodOpt(pkg, "Diff", name)
		if fn == nil {
			r.Bad(rule, tag+".(Diff)."+name, "-", "renderer not found")
			continue
		}
		ok := false
		for _, b := range fn.Blocks {
			cond, tE, _, okb := branchEdges(b)
			if !okb {
				continue
			}
			bo, isB := cond.(*ssa.BinOp)
			if !isB || bo.Op != token.EQL {
				continue
			}
			t, _, _, okT := termOf(bo.X)
			k, okK := constInt(bo.Y)
			if !okT || !t.isLen || t.v != ssa.Value(fn.Params[0]) || !okK || k != 0 {
				continue
			}
			for _, in := range tE.To().Instrs {
				if ret, isRet := in.(*ssa.Return); isRet {
					if c, isC := ret.Results[0].(*ssa.Const); isC && c.Value != nil && c.Value.ExactString() == want {
						ok = true
					}
				}
			}
		}
		r.Check(ok, rule, fnName(fn), w.Pos(fn.Pos()), "returns "+want+" for an empty diff, the sentinel the CLI compares with",
			"does not return "+want+" on the len(d) == 0 edge: the CLI's `no difference` test no longer matches the library")
	}
}

// ------------------------------------------------------------------ F: flags -> options

func (c *cli) ruleFlags(r *Report) {
	const rule = "R-CLI/F"
	expected := map[string][]string{
		"SET": {"set"}, "MULTISET": {"mset"}, "SetKeys": {"setkeys"}, "Setkeys": {"setkeys"},
		"MERGE": {"f"}, "Precision": {}, "SetPrecision": {},
	}
	n := 0
	for _, fn := range c.fns {
		res := fn.Signature.Results()
		if res.Len() != 2 || !isErrorType(res.At(1).Type()) || fn.Signature.Params().Len() != 0 {
			continue
		}
		if _, isSlice := res.At(0).Type().Underlying().(*types.Slice); !isSlice {
			continue
		}
		n++
		r.Fn(fnName(fn))
		seenOpt := map[string]bool{}
		allInstrs(fn, func(in ssa.Instruction) {
			call, ok := in.(*ssa.Call)
			if !ok {
				return
			}
			b, ok := call.Call.Value.(*ssa.Builtin)
			if !ok || b.Name() != "append" || len(call.Call.Args) < 2 {
				return
			}
			if !types.Identical(call.Type(), res.At(0).Type()) {
				return
			}
			el := singleVariadicOfSlice(call.Call.Args[1])
			if el == nil {
				return
			}
			opt := c.optionName(el)
			if opt == "" {
				r.Bad(rule, c.key(fn, "append:unknown"), c.w.Pos(call.Pos()), "an option of unknown origin is appended: "+valueName(el))
				return
			}
			seenOpt[opt] = true
			// flags whose tests dominate this append
			var flags []string
			fset := map[string]bool{}
			for _, bb := range fn.Blocks {
				cond, tE, _, okb := branchEdges(bb)
				if !okb || !edgeDominates(tE, call.Block()) {
					continue
				}
				for _, f := range c.flagsInCond(cond) {
					if !fset[f] {
						fset[f] = true
						flags = append(flags, f)
					}
				}
			}
			sort.Strings(flags)
			want, known := expected[opt]
			key := c.key(fn, "option:"+opt)
			pos := c.w.Pos(call.Pos())
			if !known {
				r.Bad(rule, key, pos, "option "+opt+" is not in the documented flag table")
				return
			}
			r.Check(strings.Join(flags, ",") == strings.Join(want, ","), rule, key, pos,
				fmt.Sprintf("option %s is added exactly under flag(s) %v", opt, want),
				fmt.Sprintf("option %s is added under flag(s) %v, the documented contract says %v", opt, flags, want))
			if opt == "MERGE" {
				// the format test must compare with "merge"
				okc := false
				for _, k := range c.flagConsts(fn, "f") {
					if k == `"merge"` {
						okc = true
					}
				}
				r.Check(okc, rule, c.key(fn, "option:MERGE:const"), pos, `MERGE is selected by -f merge`, `MERGE is not selected by the constant "merge"`)
			}
		})
		for _, must := range []string{"SET", "MULTISET", "MERGE"} {
			if !seenOpt[must] {
				r.Bad(rule, c.key(fn, "option:"+must), c.w.Pos(fn.Pos()), "flag table row missing: option "+must+" is never added")
			}
		}
		if !seenOpt["SetKeys"] && !seenOpt["Setkeys"] {
			r.Bad(rule, c.key(fn, "option:SetKeys"), c.w.Pos(fn.Pos()), "flag table row missing: -setkeys never adds an option")
		}
		if !seenOpt["Precision"] && !seenOpt["SetPrecision"] {
			r.Bad(rule, c.key(fn, "option:Precision"), c.w.Pos(fn.Pos()), "flag table row missing: -precision never adds an option")
		}
		// -precision with -set/-mset rejected
		rejected := false
		for _, b := range fn.Blocks {
			for _, in := range b.Instrs {
				ret, ok := in.(*ssa.Return)
				if !ok || isNilConst(ret.Results[1]) {
					continue
				}
				fl := map[string]bool{}
				for _, bb := range fn.Blocks {
					cond, tE, _, okb := branchEdges(bb)
					if okb && edgeDominates(tE, b) {
						for _, f := range c.flagsInCond(cond) {
							fl[f] = true
						}
					}
				}
				if fl["precision"] {
					rejected = true
				}
			}
		}
		r.Check(rejected, rule, c.key(fn, "precision-with-sets-rejected"), c.w.Pos(fn.Pos()),
			"an error return is guarded by a test of -precision (combined with -set/-mset)", "no error return is guarded by -precision: the documented rejection of -precision with -set/-mset is gone")
	}
	if n == 0 {
		r.Bad(rule, c.tag+":parse-metadata", "-", "no flag-to-option translation function found")
	}
}

func (c *cli) flagsInCond(cond ssa.Value) []string {
	var out []string
	if f := c.flagOf(cond); f != "" {
		return []string{f}
	}
	if bo, ok := cond.(*ssa.BinOp); ok {
		if f := c.flagOf(bo.X); f != "" {
			out = append(out, f)
		}
		if f := c.flagOf(bo.Y); f != "" {
			out = append(out, f)
		}
	}
	return out
}

func singleVariadicOfSlice(v ssa.Value) ssa.Value {
	sl, ok := v.(*ssa.Slice)
	if !ok {
		return nil
	}
	a, ok := sl.X.(*ssa.Alloc)
	if !ok {
		return nil
	}
	var val ssa.Value
	for _, ref := range *a.Referrers() {
		if ia, ok := ref.(*ssa.IndexAddr); ok {
			for _, r2 := range *ia.Referrers() {
				if st, ok := r2.(*ssa.Store); ok {
					val = st.Val
				}
			}
		}
	}
	return val
}

// optionName: the library option an appended element stands for.
func (c *cli) optionName(v ssa.Value) string {
	v = strip(v)
	switch x := v.(type) {
	case *ssa.UnOp:
		if g, ok := x.X.(*ssa.Global); ok && x.Op == token.MUL && g.Pkg != nil && c.libs[g.Pkg.Pkg] {
			return g.Name()
		}
	case *ssa.Call:
		if n := c.libCallee(x); n != "" {
			return n
		}
	}
	return ""
}

// ------------------------------------------------------------------ I: inputs

func (c *cli) ruleInputs(r *Report) {
	const rule = "R-CLI/I"
	helpers := c.exitHelpers()
	var readFile, readStdin *ssa.Function
	for _, fn := range c.fns {
		allInstrs(fn, func(in ssa.Instruction) {
			ci, ok := in.(ssa.CallInstruction)
			if !ok {
				return
			}
			switch calleeFullName(ci) {
			case "io/ioutil.ReadFile", "os.ReadFile":
				if len(fn.Params) == 1 && strip(ci.Common().Args[0]) == ssa.Value(fn.Params[0]) {
					readFile = fn
				}
			case "io/ioutil.ReadAll", "io.ReadAll":
				if len(fn.Params) == 0 && fn.Signature.Results().Len() == 1 {
					readStdin = fn
				}
			}
		})
	}
	for name, fn := range map[string]*ssa.Function{"readFile": readFile, "readStdin": readStdin} {
		if fn == nil {
			r.Bad(rule, c.tag+":"+name, "-", "input helper not found")
			continue
		}
		r.Fn(fnName(fn))
		pos := c.w.Pos(fn.Pos())
		// returns string(bytes) of the read, untransformed
		okRet := true
		whyRet := ""
		var readCall *ssa.Call
		for _, ret := range returnsOf(fn) {
			cv, ok := ret.Results[0].(*ssa.Convert)
			if !ok {
				okRet, whyRet = false, "returns "+valueName(ret.Results[0])
				continue
			}
			ex, ok := cv.X.(*ssa.Extract)
			if !ok || ex.Index != 0 {
				okRet, whyRet = false, "returns a conversion of "+valueName(cv.X)
				continue
			}
			call, ok := ex.Tuple.(*ssa.Call)
			if !ok {
				okRet = false
				continue
			}
			switch calleeFullName(call) {
			case "io/ioutil.ReadFile", "os.ReadFile", "io/ioutil.ReadAll", "io.ReadAll":
				readCall = call
			default:
				okRet, whyRet = false, "returns the result of "+calleeFullName(call)
			}
		}
		r.Check(okRet && readCall != nil, rule, c.key(fn, "returns-bytes-read"), pos, "returns string(bytes) of the read, untransformed", "the input is transformed before use: "+whyRet)
		// every branch in the helper is the read's error test; exits only on that edge
		okBr := true
		whyBr := ""
		for _, b := range fn.Blocks {
			cond, _, _, ok := branchEdges(b)
			if !ok {
				continue
			}
			bo, isB := cond.(*ssa.BinOp)
			good := false
			if isB && (bo.Op == token.NEQ || bo.Op == token.EQL) && (isNilConst(bo.X) || isNilConst(bo.Y)) {
				ev := bo.X
				if isNilConst(ev) {
					ev = bo.Y
				}
				if ex, ok := ev.(*ssa.Extract); ok && readCall != nil && ex.Tuple == ssa.Value(readCall) && ex.Index == 1 {
					good = true
				}
			}
			if !good {
				okBr, whyBr = false, "branch at "+c.w.Pos(b.Instrs[len(b.Instrs)-1].Pos())+" does not test the read's error"
			}
		}
		for _, b := range fn.Blocks {
			for _, in := range b.Instrs {
				ci, ok := in.(ssa.CallInstruction)
				if !ok {
					continue
				}
				_, isExit := isExitCall(ci)
				sf := staticCallee(ci)
				if !(isExit || (sf != nil && helpers[sf])) {
					continue
				}
				dominated := false
				for _, bb := range fn.Blocks {
					cond, tE, fE, ok := branchEdges(bb)
					if !ok {
						continue
					}
					if bo, isB := cond.(*ssa.BinOp); isB {
						e := tE
						if bo.Op == token.EQL {
							e = fE
						}
						if edgeDominates(e, b) {
							dominated = true
						}
					}
				}
				if !dominated {
					okBr, whyBr = false, "an exit at "+c.w.Pos(ci.Pos())+" is not confined to the read-error edge"
				}
			}
		}
		r.Check(okBr, rule, c.key(fn, "fails-only-on-read-error"), pos, "the only branch is the read's error test and the process exits only on that edge",
			"the helper can refuse or alter input for another reason than a read error: "+whyBr)
		if name == "readStdin" && readCall != nil {
			// the reader wraps os.Stdin
			d := NewDeriv(c.w, fn)
			okStd := false
			for root := range d.Roots(readCall.Call.Args[0]) {
				if g, ok := root.(*ssa.Global); ok && g.Pkg != nil && g.Pkg.Pkg.Path() == "os" && g.Name() == "Stdin" {
					okStd = true
				}
			}
			r.Check(okStd, rule, c.key(fn, "reads-os.Stdin"), pos, "reads from os.Stdin", "does not read from os.Stdin")
		}
	}
	// argument roles in main()
	mainFn := c.pkg.Func("main")
	if mainFn == nil || readFile == nil || readStdin == nil {
		return
	}
	r.Fn(fnName(mainFn))
	type src struct {
		fn  *ssa.Function
		arg int64
	}
	// srcCtx: the function a value lives in, the blocks feasible there under
	// the mode of the call being examined, and the values known to equal a
	// constant (the mode variable, bound through parameters)
	type srcCtx struct {
		feasible map[*ssa.BasicBlock]bool
		bind     map[ssa.Value]string
	}
	var feasible map[*ssa.BasicBlock]bool
	var bindMain map[ssa.Value]string
	// argIndex: v is the k-th positional command-line argument: flag.Arg(k) or flag.Args()[k]
	argIndex := func(v ssa.Value) string {
		v = strip(v)
		if ac, ok := v.(*ssa.Call); ok && calleeFullName(ac) == "flag.Arg" {
			if k, ok := constInt(ac.Call.Args[0]); ok {
				return fmt.Sprint(k)
			}
		}
		if u, ok := v.(*ssa.UnOp); ok && u.Op == token.MUL {
			if ia, ok := u.X.(*ssa.IndexAddr); ok {
				if ac, ok := strip(ia.X).(*ssa.Call); ok && calleeFullName(ac) == "flag.Args" {
					if k, ok := constInt(ia.Index); ok {
						return fmt.Sprint(k)
					}
				}
			}
		}
		return "?"
	}
	var sourcesIn func(v ssa.Value, ctx srcCtx, seen map[ssa.Value]bool, out map[string]bool, depth int)
	sourcesIn = func(v ssa.Value, ctx srcCtx, seen map[ssa.Value]bool, out map[string]bool, depth int) {
		v = strip(v)
		if seen[v] {
			return
		}
		seen[v] = true
		// a result of a function of package main other than the two readers:
		// look at what it returns, under the mode it was called with
		through := func(call *ssa.Call, idx int) bool {
			sf := staticCallee(call)
			if sf == nil || sf == readStdin || sf == readFile || fnPkg(sf) != c.pkg.Pkg || sf.Blocks == nil || depth > 3 || len(call.Call.Args) != len(sf.Params) {
				return false
			}
			bind := map[ssa.Value]string{}
			for i, a := range call.Call.Args {
				if k, ok := ctx.bind[strip(a)]; ok {
					bind[sf.Params[i]] = k
				} else if kc, ok := strip(a).(*ssa.Const); ok && kc.Value != nil {
					bind[sf.Params[i]] = kc.Value.ExactString()
				}
			}
			cctx := srcCtx{feasible: c.reachUnderV(sf, nil, bind), bind: bind}
			for _, ret := range returnsOf(sf) {
				if !cctx.feasible[ret.Block()] || idx >= len(ret.Results) {
					continue
				}
				sourcesIn(ret.Results[idx], cctx, map[ssa.Value]bool{}, out, depth+1)
			}
			return true
		}
		switch x := v.(type) {
		case *ssa.Phi:
			for i, e := range x.Edges {
				if ctx.feasible != nil && !ctx.feasible[x.Block().Preds[i]] {
					continue // this assignment belongs to another mode
				}
				sourcesIn(e, ctx, seen, out, depth)
			}
		case *ssa.Const:
			out["const"] = true
		case *ssa.Extract:
			if call, ok := x.Tuple.(*ssa.Call); ok && through(call, x.Index) {
				return
			}
			out["other:"+valueName(v)] = true
		case *ssa.Call:
			sf := staticCallee(x)
			switch {
			case sf == readStdin:
				out["stdin"] = true
			case sf == readFile:
				out["file"+argIndex(x.Call.Args[0])] = true
			case through(x, 0):
			default:
				out["other:"+calleeFullName(x)] = true
			}
		default:
			out["other:"+valueName(v)] = true
		}
	}
	sources := func(v ssa.Value, seen map[ssa.Value]bool, out map[string]bool) {
		sourcesIn(v, srcCtx{feasible: feasible, bind: bindMain}, seen, out, 0)
	}
	allInstrs(mainFn, func(in ssa.Instruction) {
		call, ok := in.(*ssa.Call)
		if !ok {
			return
		}
		sf := staticCallee(call)
		if sf == nil || fnPkg(sf) != c.pkg.Pkg || !strings.HasPrefix(sf.Name(), "print") || strings.HasPrefix(sf.Name(), "printUsage") || strings.HasPrefix(sf.Name(), "printGit") {
			return
		}
		// the local mode variable: the call sits on the true edge of `mode == K`
		feasible, bindMain = nil, nil
		for _, bb := range mainFn.Blocks {
			cond, tE, _, okb := branchEdges(bb)
			if !okb {
				continue
			}
			bo, isB := cond.(*ssa.BinOp)
			if !isB || bo.Op != token.EQL {
				continue
			}
			k, isK := strip(bo.Y).(*ssa.Const)
			modeV := strip(bo.X)
			_, isPhi := modeV.(*ssa.Phi)
			_, isCall := modeV.(*ssa.Call)
			if !(isPhi || isCall) || !isK || k.Value == nil || c.flagOf(bo.X) != "" {
				continue
			}
			if edgeDominates(tE, call.Block()) {
				bindMain = map[ssa.Value]string{modeV: k.Value.ExactString()}
				feasible = c.reachUnderV(mainFn, nil, bindMain)
			}
		}
		strArgs := 0
		for i, a := range call.Call.Args {
			b, ok := a.Type().Underlying().(*types.Basic)
			if !ok || b.Kind() != types.String {
				continue
			}
			strArgs++
			got := map[string]bool{}
			sources(a, map[ssa.Value]bool{}, got)
			delete(got, "const")
			var want []string
			nStr := 0
			for _, p := range sf.Params {
				if pb, ok := p.Type().Underlying().(*types.Basic); ok && pb.Kind() == types.String {
					nStr++
				}
			}
			switch {
			case nStr == 1:
				want = []string{"file0", "stdin"}
			case i == 0:
				want = []string{"file0"}
			default:
				want = []string{"file1", "stdin"}
			}
			gs := sortedKeys(got)
			r.Check(strings.Join(gs, ",") == strings.Join(want, ","), rule, fmt.Sprintf("%s→%s[arg%d]", fnName(mainFn), sf.Name(), i), c.w.Pos(call.Pos()),
				fmt.Sprintf("input #%d comes from %v", i, want),
				fmt.Sprintf("input #%d comes from %v, the documented contract says %v (FILE1, then FILE2 or stdin)", i, gs, want))
		}
	})
}

// ------------------------------------------------------------------ M: modes

func (c *cli) ruleModes(r *Report) {
	const rule = "R-CLI/M"
	readers := []string{"ReadDiffString", "ReadPatchString", "ReadMergeString"}
	rends := []string{"Render", "RenderPatch", "RenderMerge"}
	docReaders := []string{"ReadJsonString", "ReadYamlString"}
	docRends := []string{"Json", "Yaml"}
	only := func(calls map[string]bool, family []string) []string {
		var out []string
		for _, f := range family {
			if calls[f] {
				out = append(out, f)
			}
		}
		return out
	}
	fmtTable := map[string][2]string{`""`: {"ReadDiffString", "Render"}, `"jd"`: {"ReadDiffString", "Render"}, `"patch"`: {"ReadPatchString", "RenderPatch"}, `"merge"`: {"ReadMergeString", "RenderMerge"}}
	transTable := map[string][2]string{`"jd2patch"`: {"ReadDiffString", "RenderPatch"}, `"patch2jd"`: {"ReadPatchString", "Render"}, `"jd2merge"`: {"ReadDiffString", "RenderMerge"},
		`"merge2jd"`: {"ReadMergeString", "Render"}, `"json2yaml"`: {"ReadJsonString", "Yaml"}, `"yaml2json"`: {"ReadYamlString", "Json"}}
	for _, fn := range c.fns {
		all := c.libCalls(fn, reachFrom(fn.Blocks[0], nil))
		pos := c.w.Pos(fn.Pos())
		usesFormat := len(c.flagConsts(fn, "f")) > 0 && fn.Signature.Results().Len() != 2
		// a translation routine compares -t with at least one documented name
		// (main and mode selection only test it against "")
		usesTrans := false
		for _, k := range c.flagConsts(fn, "t") {
			if _, ok := transTable[k]; ok {
				usesTrans = true
			}
		}
		isPatchRoutine := len(only(all, readers)) > 0 && usesFormat
		isDiffR := isDiffRoutine(fn)
		switch {
		case usesFormat && (isPatchRoutine || isDiffR):
			r.Fn(fnName(fn))
			fam := readers
			col := 0
			if isDiffR {
				fam, col = rends, 1
			}
			consts := c.flagConsts(fn, "f")
			for k, row := range fmtTable {
				found := false
				for _, kk := range consts {
					if kk == k {
						found = true
					}
				}
				key := c.key(fn, "format="+k)
				if !found {
					r.Bad(rule, key, pos, "documented format value "+k+" is not recognised")
					continue
				}
				calls := c.libCalls(fn, c.reachUnder(fn, map[string]string{"f": k}))
				got := only(calls, fam)
				r.Check(len(got) == 1 && got[0] == row[col], rule, key, pos,
					fmt.Sprintf("-f %s selects %s", k, row[col]), fmt.Sprintf("-f %s reaches %v, the documented contract says %s", k, got, row[col]))
			}
			calls := c.libCalls(fn, c.reachUnder(fn, map[string]string{"f": otherValue}))
			got := only(calls, fam)
			okOther := len(got) == 0
			if isPatchRoutine && !isDiffR {
				// unknown format must not go on to patch
				okOther = okOther && c.exitsBefore(fn, map[string]string{"f": otherValue})
			}
			r.Check(okOther, rule, c.key(fn, "format=other"), pos, "an unknown -f value reaches no reader/renderer and is an error", fmt.Sprintf("an unknown -f value still reaches %v or is not an error", got))
			for _, k := range consts {
				if _, ok := fmtTable[k]; !ok {
					r.Ok(rule, c.key(fn, "format="+k), pos, "an additional -f value "+k+" is accepted: outside the documented contract, nothing is claimed about it")
				}
			}
		case usesTrans:
			r.Fn(fnName(fn))
			consts := c.flagConsts(fn, "t")
			fam := append(append(append(append([]string{}, readers...), rends...), docReaders...), docRends...)
			for k, row := range transTable {
				key := c.key(fn, "translate="+k)
				found := false
				for _, kk := range consts {
					if kk == k {
						found = true
					}
				}
				if !found {
					r.Bad(rule, key, pos, "documented translation "+k+" is not recognised")
					continue
				}
				calls := c.libCalls(fn, c.reachUnder(fn, map[string]string{"t": k}))
				got := only(calls, fam)
				want := []string{row[0], row[1]}
				sort.Strings(got)
				sort.Strings(want)
				r.Check(strings.Join(got, ",") == strings.Join(want, ","), rule, key, pos,
					fmt.Sprintf("-t %s reads with %s and renders with %s", k, row[0], row[1]), fmt.Sprintf("-t %s reaches %v, the documented contract says %v", k, got, want))
			}
			calls := c.libCalls(fn, c.reachUnder(fn, map[string]string{"t": otherValue}))
			got := only(calls, fam)
			r.Check(len(got) == 0 && c.exitsBefore(fn, map[string]string{"t": otherValue}), rule, c.key(fn, "translate=other"), pos,
				"an unknown -t value reaches no reader/renderer and is an error", fmt.Sprintf("an unknown -t value reaches %v or is not an error", got))
			for _, k := range consts {
				if _, ok := transTable[k]; !ok {
					r.Ok(rule, c.key(fn, "translate="+k), pos, "an additional -t value "+k+" is accepted: outside the documented contract, nothing is claimed about it")
				}
			}
		}
		// -yaml selects the document codec (never the diff codec)
		branchesOnYaml := false
		for _, b := range fn.Blocks {
			if cond, _, _, ok := branchEdges(b); ok && c.flagOf(cond) == "yaml" {
				branchesOnYaml = true
			}
		}
		if len(only(all, docReaders)) == 2 && branchesOnYaml {
			for _, yv := range []string{"true", "false"} {
				calls := c.libCalls(fn, c.reachUnder(fn, map[string]string{"yaml": yv}))
				gotR, gotW := only(calls, docReaders), only(calls, docRends)
				wantR, wantW := "ReadJsonString", "Json"
				if yv == "true" {
					wantR, wantW = "ReadYamlString", "Yaml"
				}
				okR := len(gotR) == 1 && gotR[0] == wantR
				okW := len(only(all, docRends)) == 0 || (len(gotW) == 1 && gotW[0] == wantW)
				r.Check(okR && okW, rule, c.key(fn, "yaml="+yv), pos, fmt.Sprintf("-yaml=%s reads documents with %s", yv, wantR),
					fmt.Sprintf("-yaml=%s reaches readers %v / renderers %v", yv, gotR, gotW))
			}
		}
	}
}

// exitsBefore: under the assignment every path from entry hits an exit helper
// (or an error return) — approximated as: some reachable block calls an exit
// helper / os.Exit(2) or returns a non-nil error, and no library call is
// reachable without passing it. Used for "unknown value is an error".
func (c *cli) exitsBefore(fn *ssa.Function, assign map[string]string) bool {
	helpers := c.exitHelpers()
	reach := c.reachUnder(fn, assign)
	for b := range reach {
		for _, in := range b.Instrs {
			if ci, ok := in.(ssa.CallInstruction); ok {
				if code, isExit := isExitCall(ci); isExit && code == 2 {
					return true
				}
				if sf := staticCallee(ci); sf != nil && helpers[sf] {
					return true
				}
			}
		}
	}
	return false
}

// ------------------------------------------------------------------ plumbing: which argument goes where

func (c *cli) rulePlumbing(r *Report) {
	const rule = "R-CLI/P"
	for _, fn := range c.fns {
		all := c.libCalls(fn, reachFrom(fn.Blocks[0], nil))
		if !(all["ReadJsonString"] && all["ReadYamlString"]) && !isDiffRoutine(fn) {
			continue
		}
		pos := c.w.Pos(fn.Pos())
		var strParams []*ssa.Parameter
		for _, p := range fn.Params {
			if b, ok := p.Type().Underlying().(*types.Basic); ok && b.Kind() == types.String {
				strParams = append(strParams, p)
			}
		}
		if len(strParams) != 2 {
			continue
		}
		r.Fn(fnName(fn))
		if isDiffRoutine(fn) {
			// what is rendered is what the library's Diff returned for the
			// two inputs — on every path (no zero diff standing in for
			// "inputs look the same, nothing was read")
			nR := 0
			allInstrs(fn, func(in ssa.Instruction) {
				call, ok := in.(*ssa.Call)
				if !ok {
					return
				}
				switch c.libCallee(call) {
				case "Render", "RenderPatch", "RenderMerge":
				default:
					return
				}
				recv, _ := callArgs(call)
				if recv == nil {
					return
				}
				nR++
				bad := ""
				var leaves func(v ssa.Value, seen map[ssa.Value]bool, depth int)
				leaves = func(v ssa.Value, seen map[ssa.Value]bool, depth int) {
					v = strip(v)
					if seen[v] || bad != "" {
						return
					}
					seen[v] = true
					switch x := v.(type) {
					case *ssa.Phi:
						for _, e := range x.Edges {
							leaves(e, seen, depth)
						}
					case *ssa.Call:
						if c.libCallee(x) == "Diff" {
							return
						}
						if sf := staticCallee(x); sf != nil && fnPkg(sf) == c.pkg.Pkg && sf.Blocks != nil && depth < 2 {
							for _, ret := range returnsOf(sf) {
								leaves(ret.Results[0], map[ssa.Value]bool{}, depth+1)
							}
							return
						}
						bad = valueName(v)
					case *ssa.Extract:
						if cc, ok := x.Tuple.(*ssa.Call); ok {
							if sf := staticCallee(cc); sf != nil && fnPkg(sf) == c.pkg.Pkg && sf.Blocks != nil && depth < 2 {
								for _, ret := range returnsOf(sf) {
									if x.Index < len(ret.Results) && !c.isErrRet(ret) {
										leaves(ret.Results[x.Index], map[ssa.Value]bool{}, depth+1)
									}
								}
								return
							}
						}
						bad = valueName(v)
					default:
						bad = valueName(v)
					}
				}
				leaves(recv, map[ssa.Value]bool{}, 0)
				r.Check(bad == "", rule, c.key(fn, fmt.Sprintf("rendered-is-Diff(a,b)#%d", nR)), c.w.Pos(call.Pos()),
					"the diff that is rendered is, on every path, the result of the library's Diff",
					"the diff that is rendered is not the result of the library's Diff on every path ("+bad+"): some inputs are reported without being read and compared")
			})
			// a -> receiver of Diff, b -> argument of Diff
			allInstrs(fn, func(in ssa.Instruction) {
				call, ok := in.(*ssa.Call)
				if !ok || c.libCallee(call) != "Diff" {
					return
				}
				d := NewDeriv(c.w, fn)
				recv, args := callArgs(call)
				okR := d.HasRoot(recv, strParams[0]) && !d.HasRoot(recv, strParams[1])
				okA := len(args) > 0 && d.HasRoot(args[0], strParams[1]) && !d.HasRoot(args[0], strParams[0])
				r.Check(okR && okA, rule, c.key(fn, "Diff(a,b)"), c.w.Pos(call.Pos()), "FILE1 is the receiver and FILE2 the argument of Diff", "the two inputs of Diff are not FILE1 and FILE2 in that order")
			})
			continue
		}
		// patch routine: first string -> diff reader, second -> document reader
		d := NewDeriv(c.w, fn)
		ok := true
		why := ""
		n := 0
		var scan func(f *ssa.Function, role map[ssa.Value]int, depth int)
		scan = func(f *ssa.Function, role map[ssa.Value]int, depth int) {
			allInstrs(f, func(in ssa.Instruction) {
				call, isCall := in.(*ssa.Call)
				if !isCall {
					return
				}
				name := c.libCallee(call)
				want := -1
				switch name {
				case "ReadDiffString", "ReadPatchString", "ReadMergeString":
					want = 0
				case "ReadJsonString", "ReadYamlString":
					want = 1
				}
				if want >= 0 {
					n++
					if got, has := role[strip(call.Call.Args[0])]; !has || got != want {
						ok, why = false, fmt.Sprintf("%s reads %s", name, valueName(strip(call.Call.Args[0])))
					}
					return
				}
				// a helper of package main that is handed one of the inputs reads on the routine's behalf
				sf := staticCallee(call)
				if sf == nil || sf.Blocks == nil || sf.Pkg != c.pkg || depth >= 3 {
					return
				}
				inner := map[ssa.Value]int{}
				for i, a := range call.Call.Args {
					if i < len(sf.Params) {
						if k, has := role[strip(a)]; has {
							inner[sf.Params[i]] = k
						}
					}
				}
				if len(inner) > 0 {
					scan(sf, inner, depth+1)
				}
			})
		}
		scan(fn, map[ssa.Value]int{strParams[0]: 0, strParams[1]: 1}, 0)
		_ = d
		r.Check(ok && n >= 5, rule, c.key(fn, "patch(FILE1)->document(FILE2)"), pos, "FILE1 is handed to the diff readers and FILE2/stdin to the document readers", "inputs are routed to the wrong reader: "+why)
	}
}

// ------------------------------------------------------------------ CLIERR (C13)

func (c *cli) ruleNoPanic(r *Report) {
	const rule = "R-CLIERR"
	n := 0
	for _, fn := range c.fns {
		allInstrs(fn, func(in ssa.Instruction) {
			switch x := in.(type) {
			case *ssa.Panic:
				if x.Pos() == token.NoPos || strings.HasPrefix(x.Block().Comment, "rangefunc.") || x.Block().Comment == "yield-invalid" {
					// the compiler's misuse guards of a range-over-func loop
					// (iterator resumed after exit / yield called after return):
					// not reachable with a well-behaved iterator, not written by anyone
					return
				}
				n++
				r.Bad(rule, c.key(fn, "panic"), c.w.Pos(x.Pos()), "package main panics: the user sees a Go stack trace instead of a one-line message and exit status 2")
			case ssa.CallInstruction:
				switch calleeFullName(x) {
				case "log.Fatal", "log.Fatalf", "log.Fatalln", "log.Panic", "log.Panicf", "log.Panicln":
					n++
					r.Bad(rule, c.key(fn, calleeFullName(x)), c.w.Pos(x.Pos()), "log.Fatal*/Panic* exits with status 1 or a stack trace; the contract is status 2 through errorAndExit")
				}
			}
		})
	}
	if n == 0 {
		r.Ok(rule, c.tag+":no-panic-no-fatal", "-", fmt.Sprintf("no panic, log.Fatal* or log.Panic* in the %d functions of package main", len(c.fns)))
	}
}

// ------------------------------------------------------------------ V: -v2 selects the library

// libPkgOf: the library package a call goes into (nil: not a library call).
func (c *cli) libPkgOf(ci ssa.CallInstruction) *types.Package {
	com := ci.Common()
	if com.IsInvoke() {
		if com.Method.Pkg() != nil && c.libs[com.Method.Pkg()] {
			return com.Method.Pkg()
		}
		if n := namedOf(com.Value.Type()); n != nil && n.Obj().Pkg() != nil && c.libs[n.Obj().Pkg()] {
			return n.Obj().Pkg()
		}
		return nil
	}
	if sf := staticCallee(ci); sf != nil {
		if p := fnPkg(sf); p != nil && c.libs[p] {
			return p
		}
	}
	return nil
}

// ruleLibrarySelect (top-level binary only): with -v2=false every library
// call the program can reach goes into package lib, with -v2 (the default)
// into package v2 — whatever the mode. The git diff driver has no v1
// implementation and is evaluated separately: it must still be handed the
// options parsed from the flags.
func (c *cli) ruleLibrarySelect(r *Report) {
	const rule = "R-CLI/V"
	if len(c.libs) < 2 || c.tag != "top" {
		return
	}
	mainFn := c.pkg.Func("main")
	hasFlag := func(name string) bool {
		for _, n := range c.flagNames {
			if n == name {
				return true
			}
		}
		return false
	}
	if mainFn == nil || !hasFlag("v2") || !hasFlag("git-diff-driver") {
		r.Bad(rule, c.tag+":flags", "-", "the -v2 / -git-diff-driver flags are not registered")
		return
	}
	r.Fn(fnName(mainFn))
	v2p, libp := c.w.Pkg(pathV2).Pkg, c.w.Pkg(pathLib).Pkg
	type hit struct {
		fn   *ssa.Function
		name string
		pos  token.Pos
	}
	walk := func(assign map[string]string, wrong *types.Package) (bad []hit, right int) {
		seen := map[*ssa.Function]bool{mainFn: true}
		work := []*ssa.Function{mainFn}
		for len(work) > 0 {
			fn := work[0]
			work = work[1:]
			withClosures(fn, func(f *ssa.Function) {
				reach := c.reachUnder(f, assign)
				for _, b := range f.Blocks {
					if !reach[b] {
						continue
					}
					for _, in := range b.Instrs {
						ci, ok := in.(ssa.CallInstruction)
						if !ok {
							continue
						}
						if p := c.libPkgOf(ci); p != nil {
							if p == wrong {
								bad = append(bad, hit{f, c.libCallee(ci), ci.Pos()})
							} else {
								right++
							}
							continue
						}
						if sf := staticCallee(ci); sf != nil && fnPkg(sf) == c.pkg.Pkg && sf.Blocks != nil && sf.Parent() == nil && !seen[sf] {
							seen[sf] = true
							work = append(work, sf)
						}
					}
				}
			})
		}
		return
	}
	for _, val := range []string{"true", "false"} {
		wrong, wname, rname := libp, "lib (v1)", "v2"
		if val == "false" {
			wrong, wname, rname = v2p, "v2", "lib (v1)"
		}
		bad, right := walk(map[string]string{"v2": val, "git-diff-driver": "false"}, wrong)
		key := c.key(mainFn, "-v2="+val+":library")
		pos := c.w.Pos(mainFn.Pos())
		switch {
		case len(bad) > 0:
			sort.Slice(bad, func(i, j int) bool { return bad[i].pos < bad[j].pos })
			r.Bad(rule, key, c.w.Pos(bad[0].pos), fmt.Sprintf("with -v2=%s the program reaches %s.%s in %s (and %d more calls into package %s): the output is not what package %s renders", val, wname, bad[0].name, fnName(bad[0].fn), len(bad)-1, wname, rname))
		case right < 10:
			r.Bad(rule, key, pos, fmt.Sprintf("with -v2=%s only %d calls into package %s are reachable", val, right, rname))
		default:
			r.Ok(rule, key, pos, fmt.Sprintf("with -v2=%s every reachable library call (%d) goes into package %s", val, right, rname))
		}
	}
	// option slices handed on from main are never the zero value on a feasible path
	for _, v := range []string{"true", "false"} {
		for _, g := range []string{"true", "false"} {
			assign := map[string]string{"v2": v, "git-diff-driver": g}
			reach := c.reachUnder(mainFn, assign)
			for _, b := range mainFn.Blocks {
				if !reach[b] {
					continue
				}
				for _, in := range b.Instrs {
					call, ok := in.(*ssa.Call)
					if !ok {
						continue
					}
					sf := staticCallee(call)
					if sf == nil || fnPkg(sf) != c.pkg.Pkg {
						continue
					}
					for i, a := range call.Call.Args {
						sl, ok := a.Type().Underlying().(*types.Slice)
						if !ok {
							continue
						}
						n := namedOf(sl.Elem())
						if n == nil || n.Obj().Pkg() == nil || !c.libs[n.Obj().Pkg()] {
							continue
						}
						zero := false
						var srcs func(x ssa.Value, seen map[ssa.Value]bool)
						srcs = func(x ssa.Value, seen map[ssa.Value]bool) {
							x = strip(x)
							if seen[x] {
								return
							}
							seen[x] = true
							switch y := x.(type) {
							case *ssa.Phi:
								for j, e := range y.Edges {
									pred := y.Block().Preds[j]
									if !reach[pred] {
										continue
									}
									if iff, isIf := pred.Instrs[len(pred.Instrs)-1].(*ssa.If); isIf {
										if cv, known := c.condUnder(iff.Cond, assign); known {
											want := pred.Succs[0]
											if !cv {
												want = pred.Succs[1]
											}
											if want != y.Block() {
												continue
											}
										}
									}
									srcs(e, seen)
								}
							case *ssa.Const:
								if y.Value == nil {
									zero = true
								}
							}
						}
						srcs(a, map[ssa.Value]bool{})
						key := c.key(mainFn, fmt.Sprintf("→%s[arg%d]:-v2=%s,-git-diff-driver=%s", sf.Name(), i, v, g))
						r.Check(!zero, rule, key, c.w.Pos(call.Pos()),
							"the options handed on are the ones parsed from the flags",
							fmt.Sprintf("with -v2=%s -git-diff-driver=%s the options handed to %s are the zero value, not what the flags say (-set, -mset, -setkeys, -precision are ignored)", v, g, sf.Name()))
					}
				}
			}
		}
	}
}

// isErrRet: the return certainly carries a non-nil error (its other results are placeholders).
func (c *cli) isErrRet(ret *ssa.Return) bool {
	return newErrAnalysis(c.w).isErrorReturn(ret)
}

// rulePatchedRender — R-CLI/R. The document `jd -p` prints is the patched
// document rendered under the options of the command line: every Json()/Yaml()
// call in package main whose receiver is (derived from) the result of a Patch
// call is handed an option list that is not empty by construction — a
// parameter of the routine or a value derived from the flag parser — so that
// `-set`/`-mset`/`-setkeys` shape the printed arrays exactly as the library
// renders them for those options.
func (c *cli) rulePatchedRender(r *Report) {
	const rule = "R-CLI/R"
	n := 0
	for _, fn := range c.fns {
		d := NewDeriv(c.w, fn)
		ord := 0
		allInstrs(fn, func(in ssa.Instruction) {
			call, ok := in.(*ssa.Call)
			if !ok || !call.Call.IsInvoke() {
				return
			}
			name := call.Call.Method.Name()
			if name != "Json" && name != "Yaml" {
				return
			}
			fromPatch := false
			var up func(v ssa.Value, depth int)
			seenUp := map[ssa.Value]bool{}
			up = func(v ssa.Value, depth int) {
				if depth > 8 || seenUp[v] {
					return
				}
				seenUp[v] = true
				switch x := strip(v).(type) {
				case *ssa.Extract:
					up(x.Tuple, depth+1)
				case *ssa.Phi:
					for _, e := range x.Edges {
						up(e, depth+1)
					}
				case *ssa.Call:
					if x.Call.IsInvoke() && x.Call.Method.Name() == "Patch" {
						fromPatch = true
					}
					if sf := staticCallee(x); sf != nil && sf.Name() == "Patch" {
						fromPatch = true
					}
				}
			}
			up(call.Call.Value, 0)
			if !fromPatch {
				// in a routine that patches, what is rendered for output is the patched document
				hasPatch := false
				allInstrs(fn, func(in2 ssa.Instruction) {
					if pc, ok := in2.(*ssa.Call); ok && pc.Call.IsInvoke() && pc.Call.Method.Name() == "Patch" {
						hasPatch = true
					}
				})
				if hasPatch {
					n++
					ord++
					r.Bad(rule, c.key(fn, fmt.Sprintf("renders-the-patched-document#%d", ord)), c.w.Pos(call.Pos()),
						"a routine that applies a patch renders a document that is not the result of Patch (the unpatched input): correct only while Patch happens to update its receiver in place; a root array that grows or shrinks, or a replaced root value, is printed unpatched")
				}
				return
			}
			n++
			ord++
			key := c.key(fn, fmt.Sprintf("patched-document-rendered-with-options#%d", ord))
			okOpts := false
			if len(call.Call.Args) == 1 {
				a := strip(call.Call.Args[0])
				switch x := a.(type) {
				case *ssa.Parameter:
					okOpts = true
				case *ssa.Const:
					okOpts = false
				default:
					_ = x
					// derived from a parameter or from a call (the flag parser)
					for v := range d.Visited(a) {
						switch v.(type) {
						case *ssa.Parameter, *ssa.Call:
							okOpts = true
						}
					}
					if sl, isSl := a.(*ssa.Slice); isSl {
						if al, isAl := sl.X.(*ssa.Alloc); isAl {
							if arr, isArr := al.Type().(*types.Pointer).Elem().Underlying().(*types.Array); isArr && arr.Len() == 0 {
								okOpts = false
							}
						}
					}
				}
			}
			r.Check(okOpts, rule, key, c.w.Pos(call.Pos()),
				"the patched document is rendered with the option list of the command line",
				"the patched document is rendered without the command line's options: with -set/-mset/-setkeys the array shape printed by -p differs from what the library renders for those options")
		})
	}
	if n < 2 {
		r.Bad(rule, c.tag+":patched-render", "-", fmt.Sprintf("only %d rendering(s) of a patched document found in package main", n))
	}
}
