package main

import (
	"fmt"
	"go/token"
	"go/types"

	"golang.org/x/tools/go/ssa"
)

// ruleCtxPos — R-CTXPOS (C03: "each before/after context line equals the
// adjacent element"; C10: the tests folded into context by ReadPatchString are
// enforced at exactly these positions).
//
// In the list patch, inside the loop that walks the before-context (role
// `before`, loop index j) the element of the node that is compared with
// before[j] is the one at  index - len(before) + j ; inside the loop over the
// after-context it is the one at  index + j  (in the list as it is after the
// removals). The index expression of the compared element is normalised to a
// linear form over {index, len(before), len(after), j} and must equal that
// form — so that the k-th line above the edit is compared with the k-th
// element above it, in document order. Hoisted sub-expressions, index loops
// and helper variables are followed; if the loops or the comparison cannot be
// located the rule makes no claim.
func ruleCtxPos(w *World, r *Report, pf *patchFamily) {
	const rule = "R-CTXPOS"
	var fn *ssa.Function
	for _, f := range pf.methods {
		if f.Signature.Recv() == nil {
			continue
		}
		if _, isSlice := f.Signature.Recv().Type().Underlying().(*types.Slice); !isSlice {
			continue
		}
		// the list: the implementation that asserts a PathIndex
		isList := false
		allInstrs(f, func(in ssa.Instruction) {
			if ta, ok := in.(*ssa.TypeAssert); ok && typeName(ta.AssertedType) == "PathIndex" {
				isList = true
			}
		})
		if isList {
			fn = f
		}
	}
	if fn == nil {
		r.Ok(rule, pf.tag+":list-patch", "-", "no list patch implementation located: this rule makes no claim (not decided)")
		return
	}
	r.Fn(fnName(fn))
	lps := loopsOf(fn)
	roles := map[string]*ssa.Parameter{"before": pf.roleParam(fn, "before"), "after": pf.roleParam(fn, "after")}
	// linear forms over I (the path index), LB, LA (lengths of the context lists), J (loop position)
	var lf func(v ssa.Value, j ssa.Value, depth int) (map[string]int64, bool)
	lf = func(v ssa.Value, j ssa.Value, depth int) (map[string]int64, bool) {
		if depth > 12 {
			return nil, false
		}
		for {
			switch x := v.(type) {
			case *ssa.ChangeType:
				v = x.X
				continue
			case *ssa.Convert:
				v = x.X
				continue
			}
			break
		}
		if v == j {
			return map[string]int64{"J": 1}, true
		}
		if k, ok := constInt(v); ok {
			return map[string]int64{"1": k}, true
		}
		switch x := v.(type) {
		case *ssa.BinOp:
			if x.Op != token.ADD && x.Op != token.SUB {
				return nil, false
			}
			a, ok1 := lf(x.X, j, depth+1)
			b, ok2 := lf(x.Y, j, depth+1)
			if !ok1 || !ok2 {
				return nil, false
			}
			out := map[string]int64{}
			for k, c := range a {
				out[k] += c
			}
			sign := int64(1)
			if x.Op == token.SUB {
				sign = -1
			}
			for k, c := range b {
				out[k] += sign * c
			}
			return out, true
		case *ssa.Call:
			if c, ok := isBuiltinCall(x, "len"); ok {
				a := strip(c.Call.Args[0])
				if a == ssa.Value(roles["before"]) {
					return map[string]int64{"LB": 1}, true
				}
				if a == ssa.Value(roles["after"]) {
					return map[string]int64{"LA": 1}, true
				}
			}
		case *ssa.Extract:
			if ta, ok := x.Tuple.(*ssa.TypeAssert); ok && x.Index == 0 && typeName(ta.AssertedType) == "PathIndex" {
				return map[string]int64{"I": 1}, true
			}
		case *ssa.TypeAssert:
			if typeName(x.AssertedType) == "PathIndex" {
				return map[string]int64{"I": 1}, true
			}
		case *ssa.Phi:
			// a hoisted value that does not change: all edges agree
			var first map[string]int64
			for _, e := range x.Edges {
				if e == ssa.Value(x) {
					continue
				}
				m, ok := lf(e, j, depth+1)
				if !ok {
					return nil, false
				}
				if first == nil {
					first = m
				} else if fmt.Sprint(norm(first)) != fmt.Sprint(norm(m)) {
					return nil, false
				}
			}
			if first != nil {
				return first, true
			}
		}
		return nil, false
	}
	want := map[string]map[string]int64{
		"before": {"I": 1, "LB": -1, "J": 1},
		"after":  {"I": 1, "J": 1},
	}
	found := 0
	for role, p := range roles {
		if p == nil {
			continue
		}
		// the loop whose body loads role[j]
		for _, l := range lps {
			var elem *ssa.IndexAddr
			for b := range l.Blocks {
				for _, in := range b.Instrs {
					if ia, ok := in.(*ssa.IndexAddr); ok && strip(ia.X) == ssa.Value(p) && innermostLoop(lps, b) == l {
						elem = ia
					}
				}
			}
			if elem == nil {
				continue
			}
			j := elem.Index
			for {
				if c, ok := j.(*ssa.Convert); ok {
					j = c.X
					continue
				}
				break
			}
			// the context element value
			var ctxVal ssa.Value
			for _, ref := range *elem.Referrers() {
				if ld, ok := ref.(*ssa.UnOp); ok && ld.Op == token.MUL {
					ctxVal = ld
				}
			}
			if ctxVal == nil {
				continue
			}
			// Equals between ctxVal and an element of the node list: find the element's index
			for b := range l.Blocks {
				for _, in := range b.Instrs {
					c, ok := in.(*ssa.Call)
					if !ok || !c.Call.IsInvoke() || !(methodIs(c.Call.Method, "Equals") || c.Call.Method.Name() == "Equals") {
						continue
					}
					var other ssa.Value
					if strip(c.Call.Value) == ctxVal && len(c.Call.Args) >= 1 {
						other = c.Call.Args[0]
					} else if len(c.Call.Args) >= 1 && strip(c.Call.Args[0]) == ctxVal {
						other = c.Call.Value
					} else {
						continue
					}
					ld, ok := strip(other).(*ssa.UnOp)
					if !ok || ld.Op != token.MUL {
						continue
					}
					nodeElem, ok := ld.X.(*ssa.IndexAddr)
					if !ok {
						continue
					}
					got, okf := lf(nodeElem.Index, j, 0)
					if !okf {
						r.Ok(rule, fmt.Sprintf("%s:%s-context-position", fnName(fn), role), w.Pos(c.Pos()), "the index of the compared element is not a linear form the rule can read: no claim (not decided)")
						found++
						continue
					}
					found++
					r.Check(fmt.Sprint(norm(got)) == fmt.Sprint(norm(want[role])), rule, fmt.Sprintf("%s:%s-context-position", fnName(fn), role), w.Pos(c.Pos()),
						fmt.Sprintf("the %s-context line j is compared with the element at %s", role, showLin(want[role])),
						fmt.Sprintf("the %s-context line j is compared with the element at %s, not at %s: with more than one context line (hand-edited patches, RFC 6902 tests read as context) the lines are matched against the wrong elements — a patch whose context does not hold applies, and one whose context holds is rejected", role, showLin(got), showLin(want[role])))
				}
			}
		}
	}
	if found == 0 {
		r.Ok(rule, fnName(fn)+":context-positions", w.Pos(fn.Pos()), "the context comparisons of the list patch were not located in loops over the context lists: this rule makes no claim (not decided)")
	}
}

func norm(m map[string]int64) []string {
	var out []string
	for _, k := range []string{"I", "LB", "LA", "J", "1"} {
		if m[k] != 0 {
			out = append(out, fmt.Sprintf("%s*%d", k, m[k]))
		}
	}
	return out
}

func showLin(m map[string]int64) string {
	names := map[string]string{"I": "index", "LB": "len(before)", "LA": "len(after)", "J": "j", "1": "1"}
	s := ""
	for _, k := range []string{"I", "LB", "LA", "J", "1"} {
		c := m[k]
		if c == 0 {
			continue
		}
		sign := " + "
		if c < 0 {
			sign = " - "
			c = -c
		}
		if s == "" && sign == " + " {
			sign = ""
		}
		if c == 1 || k == "1" {
			if k == "1" {
				s += fmt.Sprintf("%s%d", sign, c)
			} else {
				s += sign + names[k]
			}
		} else {
			s += fmt.Sprintf("%s%d*%s", sign, c, names[k])
		}
	}
	if s == "" {
		return "0"
	}
	return s
}

// ruleDashAppend — R-DASHAPPEND (C10). The JSON Pointer token "-" is read as
// index -1, and RFC 6902 says it names no existing element: test and remove on
// it must fail, only add may use it. In the list patch the exit that is taken
// for index -1 may therefore commit only where the hunk removes nothing:
// the guard facts at every success return that is control-dependent on
// `index == -1` must bound len(removeValues) by 0.
func ruleDashAppend(w *World, r *Report, pf *patchFamily) {
	const rule = "R-DASHAPPEND"
	var fn *ssa.Function
	for _, f := range pf.methods {
		if f.Signature.Recv() == nil {
			continue
		}
		if _, isSlice := f.Signature.Recv().Type().Underlying().(*types.Slice); !isSlice {
			continue
		}
		isList := false
		allInstrs(f, func(in ssa.Instruction) {
			if ta, ok := in.(*ssa.TypeAssert); ok && typeName(ta.AssertedType) == "PathIndex" {
				isList = true
			}
		})
		if isList {
			fn = f
		}
	}
	if fn == nil {
		r.Ok(rule, pf.tag+":list-patch", "-", "no list patch implementation located: no claim (not decided)")
		return
	}
	old := pf.roleParam(fn, "oldValues")
	if old == nil {
		r.Ok(rule, fnName(fn)+":append-exit", w.Pos(fn.Pos()), "the removed-values parameter was not identified: no claim (not decided)")
		return
	}
	fs := NewFacts(fn, closedEnums(w, pf.pkg))
	n := 0
	for _, b := range fn.Blocks {
		cond, tE, fE, ok := branchEdges(b)
		if !ok {
			continue
		}
		bo, ok := cond.(*ssa.BinOp)
		if !ok || (bo.Op != token.EQL && bo.Op != token.NEQ) {
			continue
		}
		k, isK := constInt(bo.Y)
		if !isK || k != -1 {
			continue
		}
		edge := tE
		if bo.Op == token.NEQ {
			edge = fE
		}
		for _, ret := range returnsOf(fn) {
			if !isNilErrReturn(ret) || !(edgeDominates(edge, ret.Block()) || edge.To() == ret.Block()) {
				continue
			}
			n++
			st, reach := fs.At(ret.Block())
			okB := !reach
			if reach {
				f := st.get(term{v: old, isLen: true})
				okB = f.maxVal() <= 0
			}
			r.Check(okB, rule, fmt.Sprintf("%s:append-exit#%d", fnName(fn), n), w.Pos(ret.Pos()),
				"the exit taken for index -1 (the pointer token `-`) commits only where the hunk removes nothing",
				"the exit taken for index -1 (the pointer token `-`) can commit although the hunk removes values: a test/remove pair addressed to `-` is accepted without comparing anything, where RFC 6902 fails")
			// order: the appended values go behind the members the list already has
			if c, isApp := isBuiltinCall(strip(ret.Results[0]), "append"); isApp && len(c.Call.Args) == 2 {
				newP := pf.roleParam(fn, "newValues")
				recv := fn.Params[0]
				base := func(v ssa.Value) ssa.Value {
					v = strip(v)
					if sl, ok := v.(*ssa.Slice); ok {
						v = strip(sl.X)
					}
					return v
				}
				a0, a1 := base(c.Call.Args[0]), base(c.Call.Args[1])
				isR := func(v ssa.Value) bool { return v == ssa.Value(recv) }
				isN := func(v ssa.Value) bool { return newP != nil && v == ssa.Value(newP) }
				if (isR(a0) || isN(a0)) && (isR(a1) || isN(a1)) {
					r.Check(isR(a0) && isN(a1), rule, fmt.Sprintf("%s:append-exit#%d:order", fnName(fn), n), w.Pos(ret.Pos()),
						"the exit taken for index -1 returns the list's members followed by the added values",
						"the exit taken for index -1 does not return the list's own members followed by the added values: `add …/-` must append behind the last member")
				}
			}
			// context: test ops folded into Before/After must be enforced somewhere. The indexed path
			// checks them against the neighbours of the index; the append exit has no index, so it may
			// commit only where every context element is the boundary marker (nothing to enforce).
			x := &expectCtx{w: w, pf: pf, fn: fn, d: NewDeriv(w, fn), ea: newErrAnalysis(w), lps: loopsOf(fn)}
			for _, role := range []string{"before", "after"} {
				rp := pf.roleParam(fn, role)
				if rp == nil {
					continue
				}
				acc := EdgeSet{}
				for _, b2 := range fn.Blocks {
					c2, t2, _, ok2 := branchEdges(b2)
					if !ok2 {
						continue
					}
					if cc, isC := c2.(*ssa.Call); isC {
						if sf := staticCallee(cc); sf != nil && w.helperIs(sf, "isVoid") && len(cc.Call.Args) == 1 && x.d.HasRoot(cc.Call.Args[0], rp) {
							acc[t2] = true
						}
					}
				}
				okC := false
				why := "no loop over the " + role + " context lies between the test for index -1 and this success return"
				for _, l := range x.roleLoops(rp) {
					if !edgeDominates(edge, l.Header) && edge.To() != l.Header {
						continue
					}
					hcut := EdgeSet{}
					for _, p := range l.Header.Preds {
						for j, sc := range p.Succs {
							if sc == l.Header {
								hcut[Edge{p, j}] = true
							}
						}
					}
					if !cutsOff(fn, hcut, ret.Block()) {
						continue
					}
					if ok3, w3 := x.loopVerified(l, acc); ok3 {
						okC = true
					} else {
						why = w3
					}
				}
				r.Check(okC, rule, fmt.Sprintf("%s:append-exit#%d[%s]", fnName(fn), n, role), w.Pos(ret.Pos()),
					"the exit taken for index -1 commits only behind a loop over the "+role+" context that lets nothing but the boundary marker pass",
					"the exit taken for index -1 (the pointer token `-`) commits without looking at the "+role+" context ("+why+"): test ops that the JSON Patch reader folded into the context of an `add …/-` are never evaluated, where RFC 6902 fails on a mismatch")
			}
		}
	}
	if n == 0 {
		r.Ok(rule, fnName(fn)+":append-exit", w.Pos(fn.Pos()), "no success return is tied to index -1 in the list patch: nothing to decide")
	}
}
