#!/bin/bash
# usage: ingest6.sh Cnn  — copies a round-6 agent's OUT/Cnn-{a,b} to /tmp/seed6/Cnn-{m,n}
p=$1; mkdir -p /tmp/seed6
for pair in a:m b:n; do
  s=${pair%%:*}; t=${pair##*:}
  src=/tmp/wt/S6$p/OUT/$p-$s
  [ -d $src ] || { echo "missing $src"; continue; }
  rm -rf /tmp/seed6/$p-$t; cp -r $src /tmp/seed6/$p-$t
done
