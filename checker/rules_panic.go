package main

import (
	"bufio"
	"bytes"
	"fmt"
	"go/token"
	"go/types"
	"math"
	"os/exec"
	"path/filepath"
	"regexp"
	"sort"
	"strconv"
	"strings"

	"golang.org/x/tools/go/ssa"
)

// bceReport runs the Go compiler with -d=ssa/check_bce and returns the set of
// positions (file base name:line:col) at which a bounds check remains.
func bceReport(w *World, pkgDir string) map[string]string {
	cmd := exec.Command("go", "build", "-gcflags=-d=ssa/check_bce/debug=1", ".")
	cmd.Dir = pkgDir
	cmd.Env = goEnv()
	var buf bytes.Buffer
	cmd.Stdout, cmd.Stderr = &buf, &buf
	err := cmd.Run()
	out := map[string]string{}
	re := regexp.MustCompile(`^\./([^:]+):(\d+):(\d+): Found (IsInBounds|IsSliceInBounds)`)
	sc := bufio.NewScanner(&buf)
	n := 0
	for sc.Scan() {
		m := re.FindStringSubmatch(sc.Text())
		if m != nil {
			out[m[1]+":"+m[2]+":"+m[3]] = m[4]
			n++
		}
	}
	if err != nil && n == 0 {
		infra("compiler bounds-check report failed in %s: %v: %s", pkgDir, err, firstLine(buf.String()))
	}
	if n == 0 {
		infra("compiler bounds-check report is empty for %s: the flag no longer produces output", pkgDir)
	}
	return out
}

func (w *World) relKey(p token.Pos) string {
	pos := w.Fset.Position(p)
	return filepath.Base(pos.Filename) + ":" + strconv.Itoa(pos.Line) + ":" + strconv.Itoa(pos.Column)
}

// reachableIn: functions of pkg reachable from the entries over the VTA call
// graph (edges are followed through other packages too, e.g. sort calling
// back into Less/Swap).
func reachableIn(w *World, pkg *ssa.Package, entries []*ssa.Function) map[*ssa.Function]bool {
	cg := w.CG()
	seen := map[*ssa.Function]bool{}
	var work []*ssa.Function
	for _, e := range entries {
		if e != nil && !seen[e] {
			seen[e] = true
			work = append(work, e)
		}
	}
	for len(work) > 0 {
		fn := work[len(work)-1]
		work = work[:len(work)-1]
		n := cg.Nodes[fn]
		if n == nil {
			continue
		}
		for _, e := range n.Out {
			c := e.Callee.Func
			if !seen[c] {
				seen[c] = true
				work = append(work, c)
			}
		}
		for _, a := range fn.AnonFuncs {
			if !seen[a] {
				seen[a] = true
				work = append(work, a)
			}
		}
	}
	out := map[*ssa.Function]bool{}
	for fn := range seen {
		if fnPkg(fn) == pkg.Pkg && fn.Blocks != nil {
			out[fn] = true
		}
	}
	return out
}

func panicEntries(w *World, pkg *ssa.Package) []*ssa.Function {
	var entries []*ssa.Function
	for _, n := range []string{"ReadDiffFile", "ReadDiffString", "ReadPatchFile", "ReadPatchString", "ReadMergeFile", "ReadMergeString",
		"ReadJsonFile", "ReadJsonString", "ReadYamlFile", "ReadYamlString", "NewPath", "NewJsonNode"} {
		entries = append(entries, w.Func(pkg, n))
	}
	nt := newNodeTypes(w, pkg, "v2")
	for _, t := range nt.names {
		entries = append(entries, nt.method(t, "Patch"))
	}
	return entries
}

// rulePanic: inventory of every instruction that can panic in the functions
// reachable from reading text and applying a read diff; each must be
// discharged by a named schema.
func rulePanic(w *World, r *Report, pkg *ssa.Package) {
	const rule = "R-PANIC"
	entries := panicEntries(w, pkg)
	scope := reachableIn(w, pkg, entries)
	var fns []*ssa.Function
	for fn := range scope {
		fns = append(fns, fn)
	}
	sort.Slice(fns, func(i, j int) bool {
		return fnName(fns[i]) < fnName(fns[j]) || (fnName(fns[i]) == fnName(fns[j]) && fns[i].Pos() < fns[j].Pos())
	})
	if len(fns) < 60 {
		infra("R-PANIC: only %d functions of %s are in scope", len(fns), pkg.Pkg.Path())
	}
	pkgDir := filepath.Dir(w.Fset.Position(w.Func(pkg, "NewJsonNode").Pos()).Filename)
	bce := bceReport(w, pkgDir)
	enums := closedEnums(w, pkg)
	constructed := constructedPathKinds(w, pkg)
	nSites, nS1, nS2, nS3 := 0, 0, 0, 0
	nInvoke := 0
	entryF := newEntryFacts(w, enums)
	for _, fn := range fns {
		if fn.Synthetic != "" {
			continue
		}
		r.Fn(fnName(fn))
		var facts *Facts
		getFacts := func() *Facts {
			if facts == nil {
				facts = entryF.factsOf(fn)
			}
			return facts
		}
		ord := map[string]int{}
		mk := func(kind string) string {
			ord[kind]++
			return fmt.Sprintf("%s:%s#%d", fnName(fn), kind, ord[kind])
		}
		sortCB := isSortCallback(w, fn)
		lessCB := sortSliceCallback(fn)
		for _, b := range fn.Blocks {
			for _, in := range b.Instrs {
				switch x := in.(type) {
				case *ssa.IndexAddr, *ssa.Index, *ssa.Slice, *ssa.Lookup:
					if lk, ok := x.(*ssa.Lookup); ok {
						if _, isMap := lk.X.Type().Underlying().(*types.Map); isMap {
							continue
						}
					}
					nSites++
					key := mk("index")
					pos := in.Pos()
					switch {
					case !pos.IsValid():
						nS3++
						r.Ok(rule, key, "-", "S3: compiler-generated index of a range loop over the ranged value")
					case bce[w.relKey(pos)] == "":
						nS1++
						r.Ok(rule, key, w.Pos(pos), "S1: the compiler's prove pass eliminated the bounds check")
					case sortCB:
						r.Ok(rule, key, w.Pos(pos), "S7: sort.Interface callback, sort passes indices in [0,Len())")
					case lessCB != nil && indexesSortedSlice(in, fn, lessCB):
						r.Ok(rule, key, w.Pos(pos), "S7: `less` callback of sort.Slice indexing the very slice being sorted with the indices sort passes in [0,len)")
					default:
						why, ok := indexSafe(getFacts(), in)
						if ok {
							nS2++
							r.Ok(rule, key, w.Pos(pos), "S2: guard facts: "+why)
						} else {
							r.Bad(rule, key, w.Pos(pos), "unproved may-panic site: bounds check remains after compilation and the guard facts at the site do not imply it ("+why+")")
						}
					}
				case *ssa.MakeSlice:
					nSites++
					key := mk("make")
					why, ok := nonNegSize(getFacts(), x.Len, b)
					if ok && x.Cap != nil && x.Cap != x.Len {
						why2, ok2 := nonNegSize(getFacts(), x.Cap, b)
						ok, why = ok2, why+"; cap: "+why2
					}
					r.Check(ok, rule, key, w.Pos(x.Pos()), "S3/S2: make size is non-negative: "+why, "unproved may-panic site: make with a size that may be negative ("+why+")")
				case *ssa.TypeAssert:
					if x.CommaOk {
						continue
					}
					nSites++
					key := mk("typeassert")
					why, ok := assertSafe(x)
					r.Check(ok, rule, key, w.Pos(x.Pos()), why, "unproved may-panic site: unchecked type assertion to "+typeName(x.AssertedType)+" ("+why+")")
				case *ssa.Panic:
					nSites++
					key := mk("panic")
					why, ok := panicUnreachable(w, pkg, x, constructed)
					r.Check(ok, rule, key, w.Pos(x.Pos()), why, "explicit panic is reachable from reading/patching: "+why)
				case *ssa.BinOp:
					if (x.Op == token.QUO || x.Op == token.REM) && isIntType(x.Type()) {
						nSites++
						key := mk("divide")
						c, ok := constInt(x.Y)
						r.Check(ok && c != 0, rule, key, w.Pos(x.Pos()), "constant non-zero divisor", "unproved may-panic site: integer division by a value that may be zero")
					}
				case ssa.CallInstruction:
					if x.Common().IsInvoke() {
						nInvoke++
						if why, src := nilReceiver(w, x.Common().Value, b); src {
							nSites++
							key := mk("nil-invoke")
							r.Check(why == "", rule, key, w.Pos(x.Pos()), "S10: the zero value of a failed comma-ok lookup/assertion (or a nil constant) cannot reach this method call",
								"unproved may-panic site: method call on an interface value that may be nil: "+why)
						}
					}
					name := calleeFullName(x)
					if why, bad := panickingExternals[name]; bad {
						nSites++
						key := mk("call:" + name)
						r.Bad(rule, key, w.Pos(x.Pos()), "call to "+name+" which panics on bad arguments: "+why)
					}
				}
			}
		}
	}
	r.Note("R-PANIC: %d interface method calls examined for nil receivers (S10)", nInvoke)
	r.Note("R-PANIC scope: %d functions of v2 reachable from %d entry points; %d may-panic sites (S1 compiler-proved %d, S2 guard facts %d, S3 range/len %d); compiler left %d bounds checks in the whole package", len(fns), len(entries), nSites, nS1, nS2, nS3, len(bce))
	if nS1 < 40 {
		infra("R-PANIC: only %d sites matched a compiler-proved position; the position mapping between go/ssa and the compiler report is broken", nS1)
	}
	ruleFinite(w, r, pkg)
}

func isIntType(t types.Type) bool {
	b, ok := t.Underlying().(*types.Basic)
	return ok && b.Info()&types.IsInteger != 0
}

var panickingExternals = map[string]string{
	"strings.Repeat": "negative count", "bytes.Repeat": "negative count", "regexp.MustCompile": "bad pattern",
	"text/template.Must": "error", "html/template.Must": "error", "log.Panic": "always", "log.Panicf": "always", "log.Panicln": "always",
	"log.Fatal": "exits the process", "log.Fatalf": "exits the process", "log.Fatalln": "exits the process", "os.Exit": "exits the process",
}

// isSortCallback: fn is Less/Swap/Len of a type implementing sort.Interface
// and is not called from inside its own package.
func isSortCallback(w *World, fn *ssa.Function) bool {
	switch fn.Name() {
	case "Less", "Swap", "Len":
	default:
		return false
	}
	if fn.Signature.Recv() == nil {
		return false
	}
	ms := w.Prog.MethodSets.MethodSet(fn.Signature.Recv().Type())
	for _, m := range []string{"Less", "Swap", "Len"} {
		if ms.Lookup(fn.Pkg.Pkg, m) == nil && ms.Lookup(nil, m) == nil {
			return false
		}
	}
	n := w.CG().Nodes[fn]
	if n == nil {
		return true
	}
	for _, e := range n.In {
		if fnPkg(e.Caller.Func) == fnPkg(fn) && e.Caller.Func.Synthetic == "" {
			return false
		}
	}
	return true
}

// indexSafe decides an index/slice expression by guard facts.
func indexSafe(fs *Facts, in ssa.Instruction) (string, bool) {
	b := in.Block()
	s, reach := fs.At(b)
	if !reach {
		return "site is unreachable under the guard facts", true
	}
	lenOf := func(x ssa.Value) (int64, bool) {
		// minimal length of x known at the site
		if p, ok := x.Type().Underlying().(*types.Pointer); ok {
			if arr, ok := p.Elem().Underlying().(*types.Array); ok {
				return arr.Len(), true
			}
		}
		if arr, ok := x.Type().Underlying().(*types.Array); ok {
			return arr.Len(), true
		}
		return s.get(term{v: strip(x), isLen: true}).minVal(), true
	}
	idxBounds := func(v ssa.Value) (int64, int64) {
		lo, hi, ok := fs.bounds(v, b)
		if !ok {
			return math.MinInt64, math.MaxInt64
		}
		return lo, hi
	}
	switch x := in.(type) {
	case *ssa.IndexAddr, *ssa.Index, *ssa.Lookup:
		var X, I ssa.Value
		switch y := x.(type) {
		case *ssa.IndexAddr:
			X, I = y.X, y.Index
		case *ssa.Index:
			X, I = y.X, y.Index
		case *ssa.Lookup:
			X, I = y.X, y.Index
		}
		minLen, _ := lenOf(X)
		lo, hi := idxBounds(I)
		// idiom x[len(x)-k]
		if t, off, isC, ok := termOf(I); ok && !isC && t.isLen && t.v == strip(X) && off < 0 {
			if minLen >= -off {
				return fmt.Sprintf("index is len-%d and len >= %d", -off, minLen), true
			}
			return fmt.Sprintf("index is len-%d but len may be %d", -off, minLen), false
		}
		if lo >= 0 && hi < minLen {
			return fmt.Sprintf("index in [%d,%d], length at least %d", lo, hi, minLen), true
		}
		// relational upper bound: a guard compared the index with the length
		if t, off, isC, ok := termOf(I); ok && !isC && lo >= 0 && s.noWrap(t, off) {
			if _, isSl := X.Type().Underlying().(*types.Slice); isSl || isStringType(X.Type()) {
				if d := s.diffHi(t, term{v: strip(X), isLen: true}); d != math.MaxInt64 && sat(d, off) <= -1 {
					return fmt.Sprintf("index at least %d and a dominating guard bounds it below the length", lo), true
				}
			}
		}
		// S14: the index is what a function of the package answered for this very slice, and every
		// return of that function is a negative constant ("none") or a position it proved to lie inside
		// its parameter (0 <= j < len(param)); the caller has excluded the negative answers
		if c, ok := stripInt(I).(*ssa.Call); ok && lo >= 0 {
			if g := staticCallee(c); g != nil && g.Blocks != nil && g.Signature.Results().Len() == 1 {
				for k, a := range c.Call.Args {
					if strip(a) == strip(X) && k < len(g.Params) && returnsPositionIn(fs, g, k) {
						return "S14: the index is a position " + g.Name() + " found in this slice (every non-negative answer of it lies inside its argument), guarded against the negative answer", true
					}
				}
			}
		}
		return fmt.Sprintf("index in [%s,%s], length at least %d", b64(lo), b64(hi), minLen), false
	case *ssa.Slice:
		minLen, _ := lenOf(x.X)
		ok := true
		desc := ""
		// S9: an index returned by strings.Index*/LastIndex* on the sliced
		// string itself lies in [-1, len]; with a guard against -1 it is a
		// valid slice bound (library contract)
		bound := x.High
		if bound == nil {
			bound = x.Low
		}
		if (x.High == nil) != (x.Low == nil) && bound != nil {
			if c, isC := stripInt(bound).(*ssa.Call); isC {
				switch calleeFullName(c) {
				case "strings.Index", "strings.LastIndex", "strings.IndexByte", "strings.LastIndexByte", "strings.IndexRune", "strings.IndexAny", "strings.LastIndexAny":
					if strip(c.Call.Args[0]) == strip(x.X) {
						if lo, _ := idxBounds(bound); lo >= 0 {
							return "S9: bound is the result of " + calleeFullName(c) + " on the sliced string, guarded against -1", true
						}
					}
				}
			}
		}
		// S13: fixed-width records laid out back to back: x = make(T, len(y)*k), x[i*k:(i+1)*k] with 0 <= i < len(y)
		if x.Low != nil && x.High != nil {
			if why, ok := recordSlice(fs, x, b); ok {
				return why, true
			}
		}
		// S12: the low bound is what copy() reported to have filled of this very slice:
		// copy returns min(len(dst), len(src)), so n := copy(x, ..) satisfies 0 <= n <= len(x),
		// and n + copy(x[n:], ..) again lies in [0, len(x)]
		if x.Low != nil && x.High == nil && filledByCopy(x.Low, strip(x.X), 0) {
			return "S12: the bound is the number of elements copy() reported for this slice (0 <= n <= len)", true
		}
		if x.Low != nil {
			lo, hi := idxBounds(x.Low)
			if !(lo >= 0 && hi <= minLen) {
				// low bound is checked against high/len
				if x.High == nil {
					ok = false
				}
			}
			desc += fmt.Sprintf("low in [%s,%s] ", b64(lo), b64(hi))
			if x.High == nil && !(lo >= 0 && hi <= minLen) {
				ok = false
			}
		}
		if x.High != nil {
			lo, hi := idxBounds(x.High)
			desc += fmt.Sprintf("high in [%s,%s] ", b64(lo), b64(hi))
			// high <= cap is what is checked for slices; len <= cap, so high <= len suffices
			if !(lo >= 0 && hi <= minLen) {
				ok = false
			}
			if x.Low != nil {
				llo, lhi := idxBounds(x.Low)
				if !(llo >= 0 && lhi <= lo) {
					ok = false
				}
			}
		}
		desc += fmt.Sprintf("length at least %d", minLen)
		return desc, ok
	}
	return "unknown instruction", false
}

func b64(v int64) string {
	switch v {
	case math.MinInt64:
		return "-inf"
	case math.MaxInt64:
		return "+inf"
	}
	return strconv.FormatInt(v, 10)
}

// nonNegSize: a make() size that cannot be negative.
func nonNegSize(fs *Facts, v ssa.Value, b *ssa.BasicBlock) (string, bool) {
	if v == nil {
		return "no size", true
	}
	var nonNeg func(v ssa.Value, depth int) bool
	nonNeg = func(v ssa.Value, depth int) bool {
		v = stripInt(v)
		if c, ok := constInt(v); ok {
			return c >= 0
		}
		if _, ok := isBuiltinCall(v, "len"); ok {
			return true
		}
		if _, ok := isBuiltinCall(v, "cap"); ok {
			return true
		}
		if bo, ok := v.(*ssa.BinOp); ok && depth < 4 && (bo.Op == token.ADD || bo.Op == token.MUL) {
			return nonNeg(bo.X, depth+1) && nonNeg(bo.Y, depth+1)
		}
		lo, _, ok := fs.bounds(v, b)
		return ok && lo >= 0
	}
	if nonNeg(v, 0) {
		return "constant, length, sum/product of lengths, or bounded below by a guard", true
	}
	if why, ok := internalCounter(v); ok {
		return "S11: " + why, true
	}
	lo, _, _ := fs.bounds(v, b)
	return "lower bound " + b64(lo), false
}

// internalCounter — schema S11. The size is built, by additions only, from
// constants, lengths and counters the function keeps itself in local maps or
// variables (every value stored into such a map is again of that kind): no
// number controlled by the input text (a path index, a parsed number, an
// integer parameter) reaches it. Whether such a tally can go negative is a
// statement about the function's own bookkeeping (e.g. "counts were checked
// to be non-negative in the loop before"), which this schema does not decide
// — stated as an assumption; what it excludes is the input-controlled size,
// which is what C13 is about.
func internalCounter(v ssa.Value) (string, bool) {
	seen := map[ssa.Value]bool{}
	var ok func(v ssa.Value, depth int) bool
	ok = func(v ssa.Value, depth int) bool {
		if depth > 25 {
			return false
		}
		v = stripInt(v)
		if seen[v] {
			return true
		}
		seen[v] = true
		if _, isK := constInt(v); isK {
			return true
		}
		if _, isLen := isBuiltinCall(v, "len"); isLen {
			return true
		}
		if _, isCap := isBuiltinCall(v, "cap"); isCap {
			return true
		}
		switch x := v.(type) {
		case *ssa.Phi:
			for _, e := range x.Edges {
				if !ok(e, depth+1) {
					return false
				}
			}
			return true
		case *ssa.BinOp:
			if x.Op != token.ADD && x.Op != token.SUB {
				return false
			}
			return ok(x.X, depth+1) && ok(x.Y, depth+1)
		case *ssa.Extract:
			if nx, isNext := x.Tuple.(*ssa.Next); isNext && x.Index == 2 {
				if rg, isRg := nx.Iter.(*ssa.Range); isRg {
					return localCounterMap(rg.X, ok, depth)
				}
			}
			if lk, isLk := x.Tuple.(*ssa.Lookup); isLk && x.Index == 0 {
				return localCounterMap(lk.X, ok, depth)
			}
		case *ssa.Lookup:
			return localCounterMap(x.X, ok, depth)
		}
		return false
	}
	if _, isInt := v.Type().Underlying().(*types.Basic); !isInt {
		return "", false
	}
	if ok(v, 0) {
		return "the size is a tally of the function's own counters and lengths; no input-controlled number reaches it (that the tally is non-negative is assumed, not decided)", true
	}
	return "", false
}

// localCounterMap: m is a map made in this function whose stored values are all internal counters.
func localCounterMap(m ssa.Value, ok func(ssa.Value, int) bool, depth int) bool {
	mk, isMk := m.(*ssa.MakeMap)
	if !isMk {
		return false
	}
	if b, isB := mk.Type().Underlying().(*types.Map).Elem().Underlying().(*types.Basic); !isB || b.Info()&types.IsInteger == 0 {
		return false
	}
	for _, ref := range *mk.Referrers() {
		switch x := ref.(type) {
		case *ssa.MapUpdate:
			if x.Map == ssa.Value(mk) && !ok(x.Value, depth+1) {
				return false
			}
		case *ssa.Lookup, *ssa.Range, *ssa.DebugRef:
		case ssa.CallInstruction:
			if b, isB := x.Common().Value.(*ssa.Builtin); isB && (b.Name() == "len" || b.Name() == "delete") {
				continue
			}
			return false // handed to a function that may fill it
		default:
			return false
		}
	}
	return true
}

// assertSafe: x.(T) without comma-ok where the operand is the result of a
// function all of whose returns are of type T.
func assertSafe(ta *ssa.TypeAssert) (string, bool) {
	v := ta.X
	if c, ok := v.(*ssa.Call); ok {
		if sf := staticCallee(c); sf != nil && sf.Blocks != nil {
			all := true
			for _, ret := range returnsOf(sf) {
				mi, ok := ret.Results[0].(*ssa.MakeInterface)
				if !ok || !types.Identical(mi.X.Type(), ta.AssertedType) {
					all = false
				}
			}
			if all {
				return "operand is the result of " + fnName(sf) + ", every return of which has the asserted type", true
			}
		}
	}
	return "operand type is not established", false
}

// constructedPathKinds: concrete types converted to PathElement anywhere in
// the package's non-test code.
func constructedPathKinds(w *World, pkg *ssa.Package) map[string]bool {
	pe := pkg.Type("PathElement")
	if pe == nil {
		infra("type PathElement not found")
	}
	out := map[string]bool{}
	for _, fn := range w.FuncsOf(pkg) {
		allInstrs(fn, func(in ssa.Instruction) {
			if mi, ok := in.(*ssa.MakeInterface); ok && types.Identical(mi.Type(), pe.Type()) {
				out[typeName(mi.X.Type())] = true
			}
		})
	}
	return out
}

// panicUnreachable discharges an explicit panic by one of two lemmas.
func panicUnreachable(w *World, pkg *ssa.Package, p *ssa.Panic, constructed map[string]bool) (string, bool) {
	fn := p.Parent()
	b := p.Block()
	// S5: default arm of a type switch over a PathElement: the handled kinds
	// cover every kind the package ever constructs
	pe := pkg.Type("PathElement")
	handled := map[string]bool{}
	var subject ssa.Value
	for _, blk := range fn.Blocks {
		for _, in := range blk.Instrs {
			ta, ok := in.(*ssa.TypeAssert)
			if !ok || !ta.CommaOk || !types.Identical(ta.X.Type(), pe.Type()) {
				continue
			}
			// the panic block must be reachable only over the false edges
			for _, ref := range *ta.Referrers() {
				ex, ok := ref.(*ssa.Extract)
				if !ok || ex.Index != 1 {
					continue
				}
				for _, bb := range fn.Blocks {
					cond, tE, _, ok := branchEdges(bb)
					if ok && cond == ssa.Value(ex) {
						// removing the true edge must not disconnect the panic (it is on the false side)
						if !reachFrom(tE.To(), nil)[b] || tE.To() != b {
							if reachFrom(bb.Succs[1], nil)[b] && bb.Dominates(b) {
								handled[typeName(ta.AssertedType)] = true
								subject = ta.X
							}
						}
					}
				}
			}
		}
	}
	if subject != nil {
		var missing []string
		for k := range constructed {
			if !handled[k] {
				missing = append(missing, k)
			}
		}
		sort.Strings(missing)
		if len(missing) == 0 {
			return fmt.Sprintf("S5: closed path kinds: the type switch handles all %d kinds the package constructs", len(constructed)), true
		}
		return "path element kinds constructed but not handled before the panic: " + strings.Join(missing, ", "), false
	}
	// S6: panic(err) after Marshal of a raw() value
	if c, ok := marshalErrPanic(p); ok {
		return c, true
	}
	return "no lemma applies to this panic", false
}

// marshalErrPanic: panic(err) where err is the error of json/yaml.Marshal and
// the panic is on the err != nil edge. Discharged together with R-FINITE and
// the raw() type-set check (ruleFinite).
func marshalErrPanic(p *ssa.Panic) (string, bool) {
	ex, ok := strip(p.X).(*ssa.Extract)
	if !ok {
		return "", false
	}
	c, ok := ex.Tuple.(*ssa.Call)
	if !ok {
		return "", false
	}
	switch calleeFullName(c) {
	case "encoding/json.Marshal", "gopkg.in/yaml.v2.Marshal":
		return "S6: marshal cannot fail: the marshalled value is built by raw() from marshal-safe types and numbers are finite (see R-FINITE, R-RAWTYPES)", true
	}
	return "", false
}

// ruleFinite: the premises of lemma S6.
func ruleFinite(w *World, r *Report, pkg *ssa.Package) {
	ruleRawTypes(w, r, pkg)
	ruleFiniteOnly(w, r, pkg)
}

// ruleRawTypes: every raw() returns only the dynamic types both codecs render
// faithfully and that read back as the same node type.
func ruleRawTypes(w *World, r *Report, pkg *ssa.Package) { ruleRawTypesTag(w, r, pkg, "v2") }

func ruleRawTypesTag(w *World, r *Report, pkg *ssa.Package, tag string) {
	nt := newNodeTypes(w, pkg, tag)
	ruleName := "R-RAWTYPES"
	if tag != "v2" {
		ruleName += "(" + tag + ")"
	}
	safe := map[string]bool{"map[string]interface{}": true, "[]interface{}": true, "float64": true, "string": true, "bool": true,
		"map[string]any": true, "[]any": true}
	for _, t := range nt.names {
		fn := nt.method(t, "raw")
		bad := ""
		for _, ret := range returnsOf(fn) {
			v := ret.Results[0]
			switch x := v.(type) {
			case *ssa.MakeInterface:
				if !safe[x.X.Type().String()] {
					bad = x.X.Type().String()
				}
			case *ssa.Const:
				if !x.IsNil() {
					bad = "constant " + x.String()
				}
			case *ssa.Call:
				if sf := staticCallee(x); sf == nil || !w.fnIs(sf, "raw") {
					bad = "result of " + calleeFullName(x)
				}
			default:
				bad = valueName(v)
			}
		}
		r.Check(bad == "", ruleName, fnName(fn), w.Pos(fn.Pos()), "raw() returns only map[string]interface{}, []interface{}, float64, string, bool or nil",
			"raw() may return "+bad+": json/yaml.Marshal can fail on it (the renderers panic on a marshal error) or encode it differently from the value the node holds (an integer conversion overflows beyond 2^63), so rendered text no longer reads back as the same document")
	}
}

func ruleFiniteOnly(w *World, r *Report, pkg *ssa.Package) {
	// every float64 -> jsonNumber conversion in NewJsonNode is behind a finiteness test
	fn := w.Func(pkg, "NewJsonNode")
	n := 0
	allInstrs(fn, func(in ssa.Instruction) {
		conv, ok := in.(*ssa.ChangeType)
		var X ssa.Value
		if ok {
			X = conv.X
		} else if cv, ok2 := in.(*ssa.Convert); ok2 {
			X = cv.X
			conv = nil
			if typeName(cv.Type()) != "jsonNumber" {
				return
			}
		} else {
			return
		}
		if conv != nil && typeName(conv.Type()) != "jsonNumber" {
			return
		}
		b, isB := X.Type().Underlying().(*types.Basic)
		if !isB || b.Info()&types.IsFloat == 0 {
			return
		}
		n++
		key := fmt.Sprintf("v2.NewJsonNode:float->jsonNumber#%d", n)
		okNaN, okInf := false, false
		for _, blk := range fn.Blocks {
			cond, _, fE, ok := branchEdges(blk)
			if !ok {
				continue
			}
			c, ok := cond.(*ssa.Call)
			if !ok || len(c.Call.Args) == 0 || strip(c.Call.Args[0]) != strip(X) {
				continue
			}
			switch calleeFullName(c) {
			case "math.IsNaN":
				if edgeDominates(fE, in.Block()) {
					okNaN = true
				}
			case "math.IsInf":
				if k, isK := constInt(c.Call.Args[1]); isK && k == 0 && edgeDominates(fE, in.Block()) {
					okInf = true
				}
			}
		}
		r.Check(okNaN && okInf, "R-FINITE", key, w.Pos(in.Pos()), "conversion is dominated by the false edges of math.IsNaN and math.IsInf(·,0)",
			"a float64 becomes a jsonNumber without a finiteness test: NaN/Inf (YAML .nan/.inf) crash json.Marshal in the renderers")
	})
	if n == 0 {
		r.Bad("R-FINITE", "v2.NewJsonNode:float->jsonNumber", w.Pos(fn.Pos()), "no float64 to jsonNumber conversion found in NewJsonNode: the anchor of the lemma is gone")
	}
}

// nilReceiver — schema S10. The receiver of an interface method call is
// traced back through phis. A source is "nil-capable" when the program itself
// knows the value can be absent: the value result of a comma-ok map lookup or
// comma-ok type assertion (zero when ok is false), or a nil constant.
// Returns src=true if such a source exists; why != "" if it can reach the call
// without passing the ok-true edge (or a != nil test).
func nilReceiver(w *World, recv ssa.Value, at *ssa.BasicBlock) (why string, src bool) {
	fn := at.Parent()
	okTrueEdges := func(ex *ssa.Extract) []Edge {
		var out []Edge
		for _, ref := range *ex.Tuple.Referrers() {
			okv, isEx := ref.(*ssa.Extract)
			if !isEx || okv.Index != 1 {
				continue
			}
			for _, b := range fn.Blocks {
				cond, tE, fE, okb := branchEdges(b)
				if !okb {
					continue
				}
				neg := false
				c := cond
				for {
					u, isU := c.(*ssa.UnOp)
					if !isU || u.Op != token.NOT {
						break
					}
					c = u.X
					neg = !neg
				}
				if c == ssa.Value(okv) {
					if neg {
						out = append(out, fE)
					} else {
						out = append(out, tE)
					}
				}
			}
		}
		return out
	}
	nonNilEdges := func(v ssa.Value) []Edge {
		var out []Edge
		for _, b := range fn.Blocks {
			cond, tE, fE, okb := branchEdges(b)
			if !okb {
				continue
			}
			bo, isB := cond.(*ssa.BinOp)
			if !isB || (bo.Op != token.NEQ && bo.Op != token.EQL) {
				continue
			}
			var other ssa.Value
			if bo.X == v {
				other = bo.Y
			} else if bo.Y == v {
				other = bo.X
			} else {
				continue
			}
			if k, isK := other.(*ssa.Const); isK && k.IsNil() {
				if bo.Op == token.NEQ {
					out = append(out, tE)
				} else {
					out = append(out, fE)
				}
			}
		}
		return out
	}
	// guarded: block b (or the edge pred->b) lies behind one of the edges
	guarded := func(edges []Edge, b, into *ssa.BasicBlock) bool {
		for _, e := range edges {
			if (into != nil && e.From == b && e.To() == into) || edgeDominates(e, b) {
				return true
			}
		}
		return false
	}
	seen := map[ssa.Value]bool{}
	var walk func(v ssa.Value, use, into *ssa.BasicBlock, depth int)
	walk = func(v ssa.Value, use, into *ssa.BasicBlock, depth int) {
		if depth > 8 || why != "" {
			return
		}
		switch x := v.(type) {
		case *ssa.Const:
			if x.IsNil() {
				src = true
				why = "a nil constant reaches the receiver"
			}
		case *ssa.Extract:
			if x.Index != 0 {
				return
			}
			commaOk := false
			switch t := x.Tuple.(type) {
			case *ssa.Lookup:
				commaOk = t.CommaOk
			case *ssa.TypeAssert:
				commaOk = t.CommaOk
			}
			if !commaOk {
				return
			}
			src = true
			if guarded(okTrueEdges(x), use, into) || guarded(nonNilEdges(x), use, into) {
				return
			}
			why = "the value of the comma-ok expression at " + w.Pos(x.Tuple.Pos()) + " is used on a path where ok is false (zero value, a nil interface)"
		case *ssa.Phi:
			if seen[x] {
				return
			}
			seen[x] = true
			if guarded(nonNilEdges(x), use, into) {
				return
			}
			for i, e := range x.Edges {
				walk(e, x.Block().Preds[i], x.Block(), depth+1)
			}
		case *ssa.ChangeInterface:
			walk(x.X, use, into, depth+1)
		}
	}
	walk(recv, at, nil, 0)
	return why, src
}

// sortSliceCallback: fn is a function literal passed as the `less` argument of
// sort.Slice / sort.SliceStable; returns that call.
func sortSliceCallback(fn *ssa.Function) *ssa.Call {
	if fn.Parent() == nil || fn.Referrers() == nil {
		return nil
	}
	var found *ssa.Call
	n := 0
	for _, ref := range *fn.Referrers() {
		mc, ok := ref.(*ssa.MakeClosure)
		if !ok {
			return nil
		}
		for _, r2 := range *mc.Referrers() {
			n++
			c, ok := r2.(*ssa.Call)
			if !ok {
				return nil
			}
			switch calleeFullName(c) {
			case "sort.Slice", "sort.SliceStable":
				if len(c.Call.Args) == 2 && c.Call.Args[1] == ssa.Value(mc) {
					found = c
					continue
				}
			}
			return nil
		}
	}
	if n != 1 {
		return nil
	}
	return found
}

// indexesSortedSlice: the instruction indexes, with one of fn's own
// parameters, the slice variable that is the first argument of the sort call.
func indexesSortedSlice(in ssa.Instruction, fn *ssa.Function, sortCall *ssa.Call) bool {
	var base, idx ssa.Value
	switch x := in.(type) {
	case *ssa.IndexAddr:
		base, idx = x.X, x.Index
	case *ssa.Index:
		base, idx = x.X, x.Index
	default:
		return false
	}
	isParam := false
	for _, p := range fn.Params {
		if strip(idx) == ssa.Value(p) {
			isParam = true
		}
	}
	if !isParam {
		return false
	}
	// the sorted value in the parent: load of a cell (captured variable) or a plain value
	sorted := strip(sortCall.Call.Args[0])
	var sortedCell ssa.Value
	if ld, ok := sorted.(*ssa.UnOp); ok && ld.Op == token.MUL {
		sortedCell = ld.X
	}
	// the base in the closure: load of a free variable bound to that cell, or a free variable bound to the value
	var fv *ssa.FreeVar
	viaLoad := false
	switch b := strip(base).(type) {
	case *ssa.UnOp:
		if b.Op == token.MUL {
			fv, _ = b.X.(*ssa.FreeVar)
			viaLoad = true
		}
	case *ssa.FreeVar:
		fv = b
	}
	if fv == nil {
		return false
	}
	for _, ref := range *fn.Referrers() {
		mc := ref.(*ssa.MakeClosure)
		for i, f := range fn.FreeVars {
			if f != fv || i >= len(mc.Bindings) {
				continue
			}
			if viaLoad && sortedCell != nil && mc.Bindings[i] == sortedCell {
				// the cell must not be re-assigned between the sort call's load and the callback: stores to it inside the closure are excluded
				reassigned := false
				allInstrs(fn, func(i2 ssa.Instruction) {
					if st, ok := i2.(*ssa.Store); ok && st.Addr == ssa.Value(fv) {
						reassigned = true
					}
				})
				return !reassigned
			}
			if !viaLoad && strip(mc.Bindings[i]) == sorted {
				return true
			}
		}
	}
	return false
}

// ruleErrPropagate — R-ERRPROP. In the functions reachable from the readers
// and Patch, when a call has reported an error (`err != nil` on the error
// result of a call) the function gives up: every path from the failing side
// of the test ends in an error return. A failing side that merely constructs
// an error value and falls through keeps going with the zero results of the
// failed call (a nil JsonNode stored into a hunk, a nil path), which is what
// C13's "error, never a crash" excludes, and hides the malformed input from
// the caller.
func ruleErrPropagate(w *World, r *Report, pkg *ssa.Package, tag string, exempt map[string]string) {
	rule := "R-ERRPROP"
	if tag != "v2" {
		rule += "(" + tag + ")"
	}
	scope := reachableIn(w, pkg, panicEntries(w, pkg))
	ea := newErrAnalysis(w)
	var fns []*ssa.Function
	for fn := range scope {
		fns = append(fns, fn)
	}
	sort.Slice(fns, func(i, j int) bool { return fnName(fns[i]) < fnName(fns[j]) })
	n := 0
	for _, fn := range fns {
		if fn.Synthetic != "" || fn.Blocks == nil || !lastIsError(fn.Signature) {
			continue // only functions that can report the error themselves
		}
		k := 0
		for _, b := range fn.Blocks {
			cond, tE, fE, ok := branchEdges(b)
			if !ok {
				continue
			}
			bo, ok := cond.(*ssa.BinOp)
			if !ok || (bo.Op != token.NEQ && bo.Op != token.EQL) {
				continue
			}
			var ev ssa.Value
			if isNilConst(bo.Y) && isErrorType(bo.X.Type()) {
				ev = bo.X
			} else if isNilConst(bo.X) && isErrorType(bo.Y.Type()) {
				ev = bo.Y
			} else {
				continue
			}
			// the error result of a call (directly or the last element of its tuple)
			// ... of a function of this package: its errors mean "this input is not acceptable".
			// (Errors of external parsers are also used to classify, e.g. Atoi failing means "a key, not an index".)
			var call *ssa.Call
			switch x := ev.(type) {
			case *ssa.Call:
				call = x
			case *ssa.Extract:
				call, _ = x.Tuple.(*ssa.Call)
			}
			if call == nil {
				continue
			}
			if sf := staticCallee(call); sf == nil || fnPkg(sf) != pkg.Pkg {
				if !(call.Call.IsInvoke() && call.Call.Method.Pkg() == pkg.Pkg) {
					// an external callee's error counts when this very function passes it on as
					// its own failure somewhere (`return nil, err`): then it means "give up" here
					// too, not a classification (Atoi failing = "a key, not an index" is never returned)
					passedOn := false
					for _, ret := range returnsOf(fn) {
						if len(ret.Results) > 0 && ret.Results[len(ret.Results)-1] == ev {
							passedOn = true
						}
					}
					if !passedOn {
						continue
					}
				}
			}
			fail := tE
			if bo.Op == token.EQL {
				fail = fE
			}
			k++
			n++
			key := fmt.Sprintf("%s:on-error#%d", fnName(fn), k)
			if why, ok := exempt[key]; ok {
				r.Ok(rule, key, w.Pos(bo.Pos()), "exempt by name: "+why)
				continue
			}
			// the other polarity of the same slip: a failure-shaped return (`return nil, err`) on the
			// edge on which err is known to be nil reports success with the zero value
			okSide := fE
			if bo.Op == token.EQL {
				okSide = tE
			}
			for _, ret := range returnsOf(fn) {
				if len(ret.Results) < 2 || ret.Results[len(ret.Results)-1] != ev {
					continue
				}
				zero := true
				for _, res := range ret.Results[:len(ret.Results)-1] {
					if c, isC := res.(*ssa.Const); !isC || !(c.IsNil() || c.Value == nil) {
						zero = false
					}
				}
				if zero && (okSide.To() == ret.Block() && len(ret.Block().Preds) == 1 || edgeDominates(okSide, ret.Block())) {
					r.Bad(rule, key+":nil-error-returned-as-failure", w.Pos(ret.Pos()),
						"the error value is passed on with zero results on the edge on which it is known to be nil: the function reports success with a nil result exactly when the call succeeded (inverted error test)")
				}
			}
			// every exit behind the failing edge is an error return; a return that hands on the
			// tested value itself is one — the value is known to be non-nil on this side, also where
			// the returning block is shared with a path on which it was not tested (`err != nil || …`)
			gaveUp := true
			for blk := range reachFrom(fail.To(), nil) {
				if len(blk.Instrs) == 0 {
					continue
				}
				if ret, isRet := blk.Instrs[len(blk.Instrs)-1].(*ssa.Return); isRet {
					if !ea.isErrorReturn(ret) && !(len(ret.Results) > 0 && ret.Results[len(ret.Results)-1] == ev) {
						gaveUp = false
					}
				}
			}
			r.Check(gaveUp, rule, key, w.Pos(bo.Pos()),
				"once the call has reported an error every path ends in an error return",
				"after a call has reported an error the function can go on and return success: it continues with the zero results of the failed call (a nil node or path ends up in the diff or document and is dereferenced later) and the malformed input is not reported")
		}
	}
	if n < 20 {
		r.Bad(rule, tag+":instance-floor", "-", fmt.Sprintf("only %d error tests found in the read/patch call graph", n))
	}
}

// filledByCopy: v is copy(x, _), or a + copy(x[a:], _) with a itself of that form.
func filledByCopy(v ssa.Value, x ssa.Value, depth int) bool {
	if depth > 6 {
		return false
	}
	v = stripInt(v)
	isCopyInto := func(c ssa.Value, low ssa.Value) bool {
		call, ok := c.(*ssa.Call)
		if !ok {
			return false
		}
		if b, isB := call.Call.Value.(*ssa.Builtin); !isB || b.Name() != "copy" {
			return false
		}
		dst := strip(call.Call.Args[0])
		if low == nil {
			return dst == x
		}
		sl, ok := dst.(*ssa.Slice)
		return ok && strip(sl.X) == x && sl.High == nil && sl.Low != nil && stripInt(sl.Low) == low
	}
	if isCopyInto(v, nil) {
		return true
	}
	if bo, ok := v.(*ssa.BinOp); ok && bo.Op == token.ADD {
		a, b := stripInt(bo.X), stripInt(bo.Y)
		if filledByCopy(a, x, depth+1) && isCopyInto(b, a) {
			return true
		}
		if filledByCopy(b, x, depth+1) && isCopyInto(a, b) {
			return true
		}
	}
	return false
}

// recordSlice — schema S13.
func recordSlice(fs *Facts, x *ssa.Slice, b *ssa.BasicBlock) (string, bool) {
	mk, ok := strip(x.X).(*ssa.MakeSlice)
	if !ok {
		return "", false
	}
	mulOf := func(v ssa.Value) (ssa.Value, int64, bool) {
		bo, ok := stripInt(v).(*ssa.BinOp)
		if !ok || bo.Op != token.MUL {
			return nil, 0, false
		}
		if k, ok := constInt(bo.Y); ok {
			return stripInt(bo.X), k, true
		}
		if k, ok := constInt(bo.X); ok {
			return stripInt(bo.Y), k, true
		}
		return nil, 0, false
	}
	n, k, ok := mulOf(mk.Len)
	if !ok || k <= 0 {
		return "", false
	}
	lenCall, ok := n.(*ssa.Call)
	if !ok {
		return "", false
	}
	if bi, isB := lenCall.Call.Value.(*ssa.Builtin); !isB || bi.Name() != "len" {
		return "", false
	}
	y := strip(lenCall.Call.Args[0])
	i, k1, ok := mulOf(x.Low)
	if !ok || k1 != k {
		return "", false
	}
	hi, k2, ok := mulOf(x.High)
	if !ok || k2 != k {
		return "", false
	}
	// hi = i + 1
	hb, ok := hi.(*ssa.BinOp)
	if !ok || hb.Op != token.ADD {
		return "", false
	}
	one, isOne := constInt(hb.Y)
	if !isOne || one != 1 || stripInt(hb.X) != i {
		return "", false
	}
	// 0 <= i < len(y)
	lo, _, okb := fs.bounds(i, b)
	s, reach := fs.At(b)
	if !reach {
		return "site is unreachable under the guard facts", true
	}
	if !okb || lo < 0 {
		return "", false
	}
	t, off, isC, okT := termOf(i)
	if !okT || isC {
		return "", false
	}
	if d := s.diffHi(t, term{v: y, isLen: true}); d != math.MaxInt64 && sat(d, off) <= -1 {
		return fmt.Sprintf("S13: record %d-wide number i of a buffer made with len(y)*%d, with 0 <= i < len(y)", k, k), true
	}
	return "", false
}

// ruleExplicitPanics — R-PANICERR. An explicit `panic(err)` with the error
// result of a call is the package's way of saying "cannot happen" (the codecs'
// Marshal on values built by this package). It may only sit on the edge on
// which that error is known to be non-nil; on any other edge it fires on the
// ordinary, successful path (an inverted test makes every rendering panic).
func ruleExplicitPanics(w *World, r *Report, pkg *ssa.Package, tag string) {
	const rule = "R-PANICERR"
	n := 0
	for _, fn := range w.FuncsOf(pkg) {
		withClosures(fn, func(g *ssa.Function) {
			k := 0
			for _, b := range g.Blocks {
				for _, in := range b.Instrs {
					p, ok := in.(*ssa.Panic)
					if !ok {
						continue
					}
					v := p.X
					if mi, ok := v.(*ssa.MakeInterface); ok {
						v = mi.X
					}
					if ci, ok := v.(*ssa.ChangeInterface); ok {
						v = ci.X
					}
					if !isErrorType(v.Type()) {
						continue
					}
					var call *ssa.Call
					switch x := v.(type) {
					case *ssa.Call:
						call = x
					case *ssa.Extract:
						call, _ = x.Tuple.(*ssa.Call)
					}
					if call == nil {
						continue
					}
					k++
					n++
					behind := false
					for _, b2 := range g.Blocks {
						cond, tE, fE, okb := branchEdges(b2)
						if !okb {
							continue
						}
						bo, okc := cond.(*ssa.BinOp)
						if !okc || (bo.Op != token.NEQ && bo.Op != token.EQL) {
							continue
						}
						if !((bo.X == v && isNilConst(bo.Y)) || (bo.Y == v && isNilConst(bo.X))) {
							continue
						}
						fail := tE
						if bo.Op == token.EQL {
							fail = fE
						}
						if fail.To() == b && len(b.Preds) == 1 || edgeDominates(fail, b) {
							behind = true
						}
					}
					r.Fn(fnName(g))
					r.Check(behind, rule, fmt.Sprintf("%s:panic-on-error#%d", fnName(g), k), w.Pos(p.Pos()),
						"panic(err) sits on the edge on which the call's error is known to be non-nil",
						"panic(err) is reachable where the call's error is not known to be non-nil (inverted or missing test): the function panics on the successful path")
				}
			}
		})
	}
	if n == 0 {
		r.Ok(rule, tag+":no-panic-on-error", "-", "no explicit panic(err) in the package")
	}
}


// returnsPositionIn: every return of g is a negative constant or a value v with 0 <= v < len(g.Params[k])
// under g's own guard facts.
func returnsPositionIn(fs *Facts, g *ssa.Function, k int) bool {
	gf := NewFacts(g, fs.enums)
	rets := returnsOf(g)
	if len(rets) == 0 {
		return false
	}
	for _, ret := range rets {
		if len(ret.Results) != 1 {
			return false
		}
		if c, ok := constInt(ret.Results[0]); ok {
			if c < 0 {
				continue
			}
			return false
		}
		st, reach := gf.At(ret.Block())
		if !reach {
			continue
		}
		lo, _, ok := gf.bounds(ret.Results[0], ret.Block())
		if !ok || lo < 0 {
			return false
		}
		t, off, isC, ok := termOf(ret.Results[0])
		if !ok || isC || !st.noWrap(t, off) {
			return false
		}
		d := st.diffHi(t, term{v: strip(g.Params[k]), isLen: true})
		if d == math.MaxInt64 || sat(d, off) > -1 {
			return false
		}
	}
	return true
}
