#!/bin/bash
# Builds the analyser offline from /verif/checker with the pre-installed go1.26.8.
set -e
cd "$(dirname "$0")/../checker"
export PATH=/opt/veriftools/go1.26.8/bin:$PATH GOTOOLCHAIN=local GOFLAGS=-mod=mod GOPROXY=off GOSUMDB=off GOWORK=off
mkdir -p ../bin ../evidence ../replay
go build -o ../bin/jdlint .
echo "built $(cd .. && pwd)/bin/jdlint"
