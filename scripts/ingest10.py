#!/usr/bin/env python3
"""Round 10: confirms the changes an author left in /tmp/wt/S9<Cnn>/OUT/<Cnn>-{a,b} and stores the
confirmed ones as /verif/seeded/<Cnn>-{c,d}/ (patch.diff, demonstration, NOTES.md, meta.json) at once,
so nothing lives only under /tmp.   usage: ingest8.py Cnn [Cnn ...]"""
import json, os, re, shutil, subprocess, sys
from concurrent.futures import ThreadPoolExecutor
OUT = '/verif/seeded'
KIND = {'a': 'looks like a behaviour-preserving refactoring or clean-up a reviewer would approve, but is not equivalent in a corner',
        'b': 'a change on a rarely visited path: boundary, error path, unusual option combination inside the quantifier, or sibling implementations drifting apart'}
MAP = {'a': 'c', 'b': 'd'}

def para(notes, pat):
    ps = [p.strip() for p in re.split(r'\n\s*\n', notes) if p.strip() and not p.strip().startswith('#')]
    for p in ps:
        if re.search(pat, p, re.I):
            return re.sub(r'\s+', ' ', p)[:600]
    return re.sub(r'\s+', ' ', ps[0])[:600] if ps else ''

def one(arg):
    prop, k = arg
    src = f'/tmp/wt/S10{prop}/OUT/{prop}-{k}'
    sid = f'{prop}-{MAP[k]}'
    if not os.path.isdir(src):
        return (sid, None, None, 'missing')
    stage = f'/tmp/seed10/{sid}'
    shutil.rmtree(stage, ignore_errors=True)
    os.makedirs(os.path.dirname(stage), exist_ok=True)
    shutil.copytree(src, stage)
    p = subprocess.run(['/verif/scripts/seedcheck.sh', stage, prop], capture_output=True, text=True)
    o = p.stdout + p.stderr
    open(f'/tmp/seed10/{sid}.log', 'w').write(o)
    def section(a, b):
        m = re.search(re.escape(a) + r'(.*?)' + re.escape(b), o, re.S)
        return m.group(1) if m else ''
    wo = section('--- demo WITHOUT change', '--- suite WITH change')
    su = section('--- suite WITH change', '--- demo WITH change')
    wi = section('--- demo WITH change', '--- check')
    suite_ok = 'not passing now 0' in su
    demo_without_ok = ('FAIL' not in wo) and ('ok' in wo)
    demo_with_fail = 'FAIL' in wi
    news = re.findall(r'   NEW \[([^\]]+)\] (.*?) @', o)
    err = 'CHECKER-ERROR' in o
    confirmed = suite_ok and demo_without_ok and demo_with_fail
    if not confirmed:
        return (sid, False, bool(news), f'suite_ok={suite_ok} demo_without_ok={demo_without_ok} demo_with_fail={demo_with_fail}')
    dst = os.path.join(OUT, sid)
    shutil.rmtree(dst, ignore_errors=True)
    os.makedirs(dst)
    for f in os.listdir(stage):
        if os.path.isfile(os.path.join(stage, f)) and f not in ('go.mod', 'go.sum'):
            shutil.copy(os.path.join(stage, f), os.path.join(dst, f))
    notes = open(os.path.join(stage, 'NOTES.md')).read() if os.path.exists(os.path.join(stage, 'NOTES.md')) else ''
    demos = [f for f in os.listdir(stage) if f.endswith('_test.go')]
    meta = {
        'id': sid, 'property': prop,
        'change': para(notes, r'\b(change|changed|file|function)\b'),
        'needs_to_manifest': para(notes, r'manifest|needs|requires|only when|input'),
        'kind_asked_for': KIND[k],
        'origin': 'written by an independent sub-agent given only the property text with its anchors and a scratch worktree of /repo (nothing from /verif); round 10: two changes per author of two prescribed kinds (refactoring that is not equivalent in a corner / rarely visited path or sibling drift), no list of earlier ideas',
        'round': 10,
        'files': {'patch': 'patch.diff', 'demonstration': demos, 'author_notes': 'NOTES.md'},
        'confirmed': True,
        'what_was_run': [
            'scratch copy of /repo (rsync, outside /repo and /verif), demonstration run on the unchanged copy: passes',
            'git apply patch.diff; pinned suite (scripts/baseline.sh, 8249 tests, both modules): all pass',
            'demonstration on the changed copy: fails',
            f'bin/jdlint -property {prop} -root <changed copy> -json',
        ],
        'detected_when_first_run': len(news) > 0 and not err,
        'detected': len(news) > 0 and not err,
        'detected_by': sorted(set(n[0] for n in news)),
        'reported_constructs': [n[1] for n in news][:4],
    }
    old = os.path.join(dst, 'meta.json')
    json.dump(meta, open(old, 'w'), indent=1)
    return (sid, True, meta['detected'], ','.join(meta['detected_by']) + (' CHECKER-ERROR' if err else ''))

args = [(p, k) for p in sys.argv[1:] for k in 'ab']
with ThreadPoolExecutor(max_workers=int(os.environ.get("INGEST_WORKERS","3"))) as ex:
    for r in ex.map(one, args):
        print(*r)
