package main

import (
	"fmt"
	"go/token"
	"go/types"
	"math"
	"os"
	"strings"

	"golang.org/x/tools/go/ssa"
)

// R-EXPECT — a strict patch commits only behind its checks (cut-set rule).
//
// In every implementation F of jsonNodeInternals.patch and in the shared leaf
// patch(): a *commit* is a return with a nil error whose node result is not
// the outcome of a nested patch-family call. Every commit must be cut off from
// the function entry by (a) an edge on which merge strategy is known, or (b)
// the successful verification of the removed values — single-valued: the true
// edge of an Equals between something derived from the node and something
// derived from oldValues; looped: the commit lies behind the header of a loop
// that consumes oldValues, every way round the loop passes such a true edge
// and every other way out of the loop body only returns errors; multiset:
// the count-underflow schema. jsonList.patch additionally owes the same for
// its before and after context on every commit of an indexed hunk.

type expectCtx struct {
	infeasible EdgeSet
	w          *World
	pf         *patchFamily
	fn         *ssa.Function
	d          *Deriv
	ea         *errAnalysis
	lps        []*Loop
	// node: the value standing for the node being patched (receiver by
	// default; the matching parameter inside a checking helper)
	node ssa.Value
}

func (x *expectCtx) nodeVal() ssa.Value {
	if x.node != nil {
		return x.node
	}
	return x.fn.Params[0]
}

func isNilErrReturn(ret *ssa.Return) bool {
	if len(ret.Results) == 0 {
		return false
	}
	last := ret.Results[len(ret.Results)-1]
	return isErrorType(last.Type()) && isNilConst(last)
}

// delegated: the returned node is the outcome of a nested family call, or the
// return is dominated by a successful nested family call.
func (x *expectCtx) delegated(ret *ssa.Return, calls []patchCall) bool {
	for _, pc := range calls {
		cv, ok := pc.call.(*ssa.Call)
		if !ok {
			continue
		}
		if ex, ok := strip(ret.Results[0]).(*ssa.Extract); ok && ex.Tuple == ssa.Value(cv) {
			return true
		}
		if cv.Block().Dominates(ret.Block()) {
			return true
		}
	}
	return false
}

// mergeEdges: edges on which strategy == mergePatchStrategy is known.
func (x *expectCtx) mergeEdges() EdgeSet {
	out := EdgeSet{}
	strat := x.pf.roleParam(x.fn, "strategy")
	merge := x.pf.strategyConst("mergePatchStrategy").Value.Value.ExactString()
	for _, b := range x.fn.Blocks {
		cond, tE, fE, ok := branchEdges(b)
		if !ok {
			continue
		}
		bo, ok := cond.(*ssa.BinOp)
		if !ok || (bo.Op != token.EQL && bo.Op != token.NEQ) {
			continue
		}
		var other ssa.Value
		if strip(bo.X) == ssa.Value(strat) {
			other = bo.Y
		} else if strip(bo.Y) == ssa.Value(strat) {
			other = bo.X
		} else {
			continue
		}
		k, ok := other.(*ssa.Const)
		if !ok || k.Value == nil || k.Value.ExactString() != merge {
			continue
		}
		if bo.Op == token.EQL {
			out[tE] = true
		} else {
			out[fE] = true
		}
	}
	return out
}

// strictInfeasible: edges that cannot be taken when strategy is the strict
// constant (case split over the closed enumeration patchStrategy): every
// branch comparing the strategy parameter with one of its constants is
// decided. Commits reachable only over such edges belong to merge patching.
func (x *expectCtx) strictInfeasible() EdgeSet {
	out := EdgeSet{}
	strat := x.pf.roleParam(x.fn, "strategy")
	strict := x.pf.strategyConst("strictPatchStrategy").Value.Value.ExactString()
	for _, b := range x.fn.Blocks {
		cond, tE, fE, ok := branchEdges(b)
		if !ok {
			continue
		}
		bo, ok := cond.(*ssa.BinOp)
		if !ok || (bo.Op != token.EQL && bo.Op != token.NEQ) {
			continue
		}
		var other ssa.Value
		if strip(bo.X) == ssa.Value(strat) {
			other = bo.Y
		} else if strip(bo.Y) == ssa.Value(strat) {
			other = bo.X
		} else {
			continue
		}
		k, ok := other.(*ssa.Const)
		if !ok || k.Value == nil {
			continue
		}
		isStrict := k.Value.ExactString() == strict
		holds := isStrict == (bo.Op == token.EQL) // value of the condition when strategy == strict
		if holds {
			out[fE] = true
		} else {
			out[tE] = true
		}
	}
	return out
}

// edgesOnCond: true edges of `lhs op const` conditions selected by match.
func (x *expectCtx) condEdges(match func(bo *ssa.BinOp) bool) EdgeSet {
	out := EdgeSet{}
	for _, b := range x.fn.Blocks {
		cond, tE, _, ok := branchEdges(b)
		if !ok {
			continue
		}
		if bo, ok := cond.(*ssa.BinOp); ok && match(bo) {
			out[tE] = true
		}
	}
	return out
}

type verif struct {
	call  *ssa.Call
	trueE Edge
	failE Edge
}

// verifications: Equals calls comparing something derived from the node being
// patched with something derived from role parameter rp.
func (x *expectCtx) verifications(rp *ssa.Parameter) []verif {
	var out []verif
	node := x.nodeVal()
	for _, b := range x.fn.Blocks {
		for _, in := range b.Instrs {
			c, ok := in.(*ssa.Call)
			if !ok {
				continue
			}
			isEq := false
			if c.Call.IsInvoke() {
				isEq = c.Call.Method.Name() == "Equals"
			} else if sf := staticCallee(c); sf != nil {
				isEq = sf.Name() == "Equals"
			}
			if !isEq {
				continue
			}
			recv, args := callArgs(c)
			if recv == nil || len(args) == 0 {
				continue
			}
			a, bb := recv, args[0]
			okPair := (x.d.HasRoot(a, rp) && x.d.HasRoot(bb, node)) || (x.d.HasRoot(bb, rp) && x.d.HasRoot(a, node))
			if !okPair {
				continue
			}
			// the branch that consumes the result
			for _, blk := range x.fn.Blocks {
				cond, tE, fE, ok := branchEdges(blk)
				if ok && cond == ssa.Value(c) {
					out = append(out, verif{c, tE, fE})
				}
			}
		}
	}
	return out
}

// roleLoops: loops whose body reads elements of (a value derived by
// re-slicing/phi from) role parameter rp.
func (x *expectCtx) roleLoops(rp *ssa.Parameter) []*Loop {
	var out []*Loop
	isRoleSlice := func(v ssa.Value) bool {
		seen := map[ssa.Value]bool{}
		var walk func(v ssa.Value) bool
		walk = func(v ssa.Value) bool {
			v = strip(v)
			if seen[v] {
				return false
			}
			seen[v] = true
			if v == ssa.Value(rp) {
				return true
			}
			switch y := v.(type) {
			case *ssa.Phi:
				for _, e := range y.Edges {
					if walk(e) {
						return true
					}
				}
			case *ssa.Slice:
				return walk(y.X)
			}
			return false
		}
		return walk(v)
	}
	for _, l := range x.lps {
		reads := false
		for b := range l.Blocks {
			for _, in := range b.Instrs {
				if ia, ok := in.(*ssa.IndexAddr); ok && isRoleSlice(ia.X) {
					reads = true
				}
			}
		}
		if !reads {
			continue
		}
		// keep the innermost loop only once
		out = append(out, l)
	}
	// drop loops that strictly contain another role loop (outer loops)
	var inner []*Loop
	for _, l := range out {
		isOuter := false
		for _, m := range out {
			if m != l && l.Blocks[m.Header] && len(m.Blocks) < len(l.Blocks) {
				isOuter = true
			}
		}
		if !isOuter {
			inner = append(inner, l)
		}
	}
	return inner
}

// loopVerified: every way round loop l passes an accepting edge, every other
// way out of the body is error-only. accept: the set of accepting edges.
func (x *expectCtx) loopVerified(l *Loop, accept EdgeSet) (bool, string) {
	// body entries: successors of the header inside the loop
	for i, s := range l.Header.Succs {
		if !l.Blocks[s] {
			continue
		}
		_ = i
		// restrict reachability to the loop, cutting accepting edges and edges into the header
		seen := map[*ssa.BasicBlock]bool{s: true}
		work := []*ssa.BasicBlock{s}
		for len(work) > 0 {
			b := work[len(work)-1]
			work = work[:len(work)-1]
			for j, nx := range b.Succs {
				e := Edge{b, j}
				if accept[e] || x.infeasible[e] {
					continue
				}
				if nx == l.Header {
					return false, fmt.Sprintf("a path round the loop at %s reaches the next iteration without a successful comparison of the current element", x.w.Pos(firstPos(b)))
				}
				if !l.Blocks[nx] {
					// leaves the loop from the body: must be error-only
					if !x.ea.errorOnly(nx) {
						return false, fmt.Sprintf("the loop body can be left at %s towards a success return without a successful comparison", x.w.Pos(firstPos(b)))
					}
					continue
				}
				if !seen[nx] {
					seen[nx] = true
					work = append(work, nx)
				}
			}
		}
	}
	return true, ""
}

func firstPos(b *ssa.BasicBlock) token.Pos {
	for _, in := range b.Instrs {
		if in.Pos().IsValid() {
			return in.Pos()
		}
	}
	return token.NoPos
}

// boundaryAccepts: true edges of isVoid(element of role) that are only
// reachable after a comparison of the checked position with an array boundary
// (== -1 or == len(node)).
func (x *expectCtx) boundaryAccepts(rp *ssa.Parameter) EdgeSet {
	out := EdgeSet{}
	node := x.nodeVal()
	for _, b := range x.fn.Blocks {
		cond, tE, _, ok := branchEdges(b)
		if !ok {
			continue
		}
		c, ok := cond.(*ssa.Call)
		if !ok {
			continue
		}
		sf := staticCallee(c)
		if sf == nil || !x.w.helperIs(sf, "isVoid") || !x.d.HasRoot(c.Call.Args[0], rp) {
			continue
		}
		// dominated by a boundary comparison's true edge
		for _, bb := range x.fn.Blocks {
			cond2, tE2, fE2, ok2 := branchEdges(bb)
			if !ok2 {
				continue
			}
			bo, ok := cond2.(*ssa.BinOp)
			if !ok || (bo.Op != token.EQL && bo.Op != token.NEQ) {
				continue
			}
			if bo.Op == token.NEQ {
				// `pos != len(l) || !isVoid(want)` (benign A-r1): the boundary is the false outcome
				tE2 = fE2
			}
			isBoundary := false
			if k, ok := constInt(bo.Y); ok && k == -1 {
				isBoundary = true
			}
			if t, off, _, ok := termOf(bo.Y); ok && t.isLen && off == 0 && x.d.HasRoot(t.v, node) {
				isBoundary = true
			}
			if isBoundary && (edgeDominates(tE2, b) || tE2.To() == b) {
				out[tE] = true
			}
		}
	}
	return out
}

// helperAccepts: the no-error edges behind calls of checking helpers. A call
// of a function of the package that receives something derived from the node
// and something derived from role parameter rp and returns an error is a
// check when the helper itself obeys the rule: each of its returns that may
// carry a nil error lies behind a successful comparison of the two (single
// Equals, or the loop over the role's values with every way round verified;
// for context roles the boundary marker counts at the boundary).
func (x *expectCtx) helperAccepts(rp *ssa.Parameter, context bool, depth int) EdgeSet {
	out := EdgeSet{}
	node := x.nodeVal()
	for _, b := range x.fn.Blocks {
		for _, in := range b.Instrs {
			c, ok := in.(*ssa.Call)
			if !ok {
				continue
			}
			sf := staticCallee(c)
			if sf == nil || sf.Blocks == nil || fnPkg(sf) != fnPkg(x.fn) || !lastIsError(sf.Signature) || len(c.Call.Args) != len(sf.Params) {
				continue
			}
			if x.pf != nil && x.pf.member[sf] {
				continue
			}
			// which argument carries the role's values and which the node: the
			// derivation is an over-approximation at container granularity, so
			// an argument derived from only one of the two is preferred
			nodeIdx, roleIdx := -1, -1
			var inR, inN []bool
			for _, a := range c.Call.Args {
				inR = append(inR, x.d.HasRoot(a, rp))
				inN = append(inN, x.d.HasRoot(a, node))
			}
			for pass := 0; pass < 2 && roleIdx < 0; pass++ {
				for i := range c.Call.Args {
					if inR[i] && (pass == 1 || !inN[i]) && roleIdx < 0 {
						roleIdx = i
					}
				}
			}
			for pass := 0; pass < 2 && nodeIdx < 0; pass++ {
				for i := range c.Call.Args {
					if i != roleIdx && inN[i] && (pass == 1 || !inR[i]) && nodeIdx < 0 {
						nodeIdx = i
					}
				}
			}
			if os.Getenv("JDLINT_DEBUG") != "" {
				fmt.Fprintf(os.Stderr, "helperAccepts %s -> %s node=%d role=%d\n", fnName(x.fn), fnName(sf), nodeIdx, roleIdx)
			}
			if nodeIdx < 0 || roleIdx < 0 {
				continue
			}
			if !x.helperVerified(sf, nodeIdx, roleIdx, context, depth) {
				continue
			}
			// the error value and the edge on which it is nil
			var errV ssa.Value = c
			if sf.Signature.Results().Len() > 1 {
				errV = nil
				for _, ref := range *c.Referrers() {
					if ex, ok := ref.(*ssa.Extract); ok && ex.Index == sf.Signature.Results().Len()-1 {
						errV = ex
					}
				}
			}
			if errV == nil {
				continue
			}
			for _, bb := range x.fn.Blocks {
				cond, tE, fE, ok := branchEdges(bb)
				if !ok {
					continue
				}
				bo, ok := cond.(*ssa.BinOp)
				if !ok || !(bo.X == errV && isNilConst(bo.Y) || bo.Y == errV && isNilConst(bo.X)) {
					continue
				}
				switch bo.Op {
				case token.NEQ:
					out[fE] = true
				case token.EQL:
					out[tE] = true
				}
			}
		}
	}
	return out
}

func (x *expectCtx) helperVerified(sf *ssa.Function, nodeIdx, roleIdx int, context bool, depth int) bool {
	if depth > 2 {
		return false
	}
	hx := &expectCtx{w: x.w, pf: x.pf, fn: sf, d: NewDeriv(x.w, sf), ea: x.ea, lps: loopsOf(sf), node: sf.Params[nodeIdx], infeasible: EdgeSet{}}
	rp := sf.Params[roleIdx]
	vs := hx.verifications(rp)
	acc := EdgeSet{}
	if context {
		acc = hx.boundaryAccepts(rp)
	}
	for _, v := range vs {
		if !x.ea.errorOnly(v.failE.To()) {
			return false
		}
		acc[v.trueE] = true
	}
	for e := range hx.helperAccepts(rp, context, depth+1) {
		acc[e] = true
	}
	if len(acc) == 0 {
		return false
	}
	loops := hx.roleLoops(rp)
	for _, ret := range returnsOf(sf) {
		if x.ea.isErrorReturn(ret) {
			continue
		}
		if cutsOff(sf, acc, ret.Block()) {
			continue
		}
		ok := false
		for _, l := range loops {
			hcut := EdgeSet{}
			for _, p := range l.Header.Preds {
				for j, s := range p.Succs {
					if s == l.Header {
						hcut[Edge{p, j}] = true
					}
				}
			}
			if !cutsOff(sf, hcut, ret.Block()) {
				continue
			}
			if ok2, _ := hx.loopVerified(l, acc); ok2 {
				ok = true
			}
		}
		if !ok {
			return false
		}
	}
	return true
}

func ruleExpect(w *World, r *Report, pf *patchFamily, scope func(*ssa.Function) bool) {
	const rule = "R-EXPECT"
	ea := newErrAnalysis(w)
	for _, fn := range pf.functions() {
		if scope != nil && !scope(fn) {
			continue
		}
		r.Fn(fnName(fn))
		x := &expectCtx{w: w, pf: pf, fn: fn, d: NewDeriv(w, fn), ea: ea, lps: loopsOf(fn)}
		calls := pf.familyCalls(fn)
		var commits []*ssa.Return
		for _, ret := range returnsOf(fn) {
			if isNilErrReturn(ret) && !x.delegated(ret, calls) {
				commits = append(commits, ret)
			}
		}
		pos := w.Pos(fn.Pos())
		if len(commits) == 0 {
			r.Ok(rule, fnName(fn)+":no-own-commit", pos, "every success return hands on the outcome of a nested patch (forwarding only)")
			continue
		}
		exempt := x.mergeEdges()
		if _, closed := closedEnums(w, pf.pkg)[namedOf(pf.roleParam(fn, "strategy").Type())]; closed {
			// patchStrategy is a closed enumeration: analyse the strict case only
			for e := range x.strictInfeasible() {
				exempt[e] = true
			}
		}
		x.infeasible = exempt
		isList := fn.Signature.Recv() != nil && typeName(fn.Signature.Recv().Type()) == "jsonList"
		if isList {
			// the -1 append marker commits without consulting context or removals (outside C03's quantifier)
			for e := range x.condEdges(func(bo *ssa.BinOp) bool {
				k, ok := constInt(bo.Y)
				return ok && k == -1 && bo.Op == token.EQL && isIntType(bo.X.Type())
			}) {
				exempt[e] = true
			}
		}
		oldP := x.pf.roleParam(fn, "oldValues")
		vs := x.verifications(oldP)
		// inverted-condition guard: the failing side of every verification only returns errors
		for i, v := range vs {
			key := fmt.Sprintf("%s:old-check#%d:fail-side", fnName(fn), i+1)
			r.Check(ea.errorOnly(v.failE.To()), rule, key, w.Pos(v.call.Pos()), "the branch taken when the removed value does not match only returns errors",
				"the branch taken when the removed value does NOT match can reach a success return (inverted or dropped check)")
		}
		oldLoops := x.roleLoops(oldP)
		oldHelpers := x.helperAccepts(oldP, false, 0)
		for ci, c := range commits {
			key := fmt.Sprintf("%s:commit#%d[oldValues]", fnName(fn), ci+1)
			cpos := w.Pos(c.Pos())
			if cutsOff(fn, exempt, c.Block()) {
				r.Ok(rule, key, cpos, "commit is reachable only with merge strategy (or the -1 append marker): no expectation to check")
				continue
			}
			cut := EdgeSet{}
			for e := range exempt {
				cut[e] = true
			}
			for _, v := range vs {
				cut[v.trueE] = true
			}
			for e := range oldHelpers {
				cut[e] = true
			}
			if len(vs)+len(oldHelpers) > 0 && cutsOff(fn, cut, c.Block()) {
				r.Ok(rule, key, cpos, "every path to this commit passes a successful Equals between the node and the removed value")
				continue
			}
			// looped verification
			okLoop := false
			why := "no successful comparison of the node with the hunk's removed values lies on every path to this success return"
			for _, l := range oldLoops {
				hcut := EdgeSet{}
				for e := range exempt {
					hcut[e] = true
				}
				for i := range l.Header.Preds {
					p := l.Header.Preds[i]
					for j, s := range p.Succs {
						if s == l.Header {
							hcut[Edge{p, j}] = true
						}
					}
				}
				if !cutsOff(fn, hcut, c.Block()) {
					continue
				}
				acc := EdgeSet{}
				for _, v := range vs {
					acc[v.trueE] = true
				}
				for e := range oldHelpers {
					acc[e] = true
				}
				if ok, w2 := x.loopVerified(l, acc); ok {
					okLoop = true
				} else {
					why = w2
				}
			}
			if okLoop {
				r.Ok(rule, key, cpos, "commit lies behind the loop over the removed values; every way round the loop passes a successful Equals and every other way out only returns errors")
				continue
			}
			if ok, w2 := x.multisetSchema(c, oldP); ok {
				r.Ok(rule, key, cpos, w2)
				continue
			} else if w2 != "" {
				why = w2
			}
			r.Bad(rule, key, cpos, why)
		}
		if !isList {
			continue
		}
		// context roles: owed by commits of indexed hunks (not the whole-list replacement)
		leaf := x.condEdges(func(bo *ssa.BinOp) bool {
			t, off, _, ok := termOf(bo.X)
			k, okk := constInt(bo.Y)
			return ok && okk && bo.Op == token.EQL && t.isLen && off == 0 && k == 0 && t.v == ssa.Value(x.pf.roleParam(fn, "pathAhead"))
		})
		for _, role := range []string{"before", "after"} {
			rp := x.pf.roleParam(fn, role)
			loops := x.roleLoops(rp)
			acc := x.boundaryAccepts(rp)
			rvs := x.verifications(rp)
			ctxHelpers := x.helperAccepts(rp, true, 0)
			for i, v := range rvs {
				acc[v.trueE] = true
				key := fmt.Sprintf("%s:%s-check#%d:fail-side", fnName(fn), role, i+1)
				r.Check(ea.errorOnly(v.failE.To()), rule, key, w.Pos(v.call.Pos()), "the branch taken when the context does not match only returns errors",
					"the branch taken when the context does NOT match can reach a success return (inverted or dropped check)")
			}
			for ci, c := range commits {
				key := fmt.Sprintf("%s:commit#%d[%s]", fnName(fn), ci+1, role)
				cpos := w.Pos(c.Pos())
				ex := EdgeSet{}
				for e := range exempt {
					ex[e] = true
				}
				for e := range leaf {
					ex[e] = true
				}
				if cutsOff(fn, ex, c.Block()) {
					continue // not an indexed-hunk commit
				}
				ok := false
				why := fmt.Sprintf("this success return of an indexed hunk is reachable without passing the loop that checks the %s context", role)
				if len(ctxHelpers) > 0 {
					hc := EdgeSet{}
					for e := range ex {
						hc[e] = true
					}
					for e := range ctxHelpers {
						hc[e] = true
					}
					if cutsOff(fn, hc, c.Block()) {
						ok = true
					}
				}
				for _, l := range loops {
					hcut := EdgeSet{}
					for e := range ex {
						hcut[e] = true
					}
					for _, p := range l.Header.Preds {
						for j, s := range p.Succs {
							if s == l.Header {
								hcut[Edge{p, j}] = true
							}
						}
					}
					if !cutsOff(fn, hcut, c.Block()) {
						continue
					}
					if ok2, w2 := x.loopVerified(l, acc); ok2 {
						ok = true
					} else {
						why = w2
					}
				}
				r.Check(ok, rule, key, cpos, fmt.Sprintf("commit lies behind the %s-context loop; every way round it passes a successful Equals (or the boundary marker at the boundary); every other way out only returns errors", role), why)
			}
		}
	}
}

// multisetSchema: the commit is dominated by a loop over a count map that
// returns an error for a negative count, and that map is decremented in a
// loop over the removed values.
func (x *expectCtx) multisetSchema(c *ssa.Return, oldP *ssa.Parameter) (bool, string) {
	for _, l := range x.lps {
		// loop over a map
		var rg *ssa.Range
		for _, in := range l.Header.Instrs {
			if nx, ok := in.(*ssa.Next); ok {
				if r0, ok := nx.Iter.(*ssa.Range); ok {
					if _, isMap := r0.X.Type().Underlying().(*types.Map); isMap {
						rg = r0
					}
				}
			}
		}
		if rg == nil || !l.Header.Dominates(c.Block()) {
			continue
		}
		// error-only exit on a negative count: the count is the map value
		// of the iteration, or a field of it
		isCount := func(v ssa.Value) bool {
			for {
				switch y := v.(type) {
				case *ssa.Field:
					v = y.X
					continue
				case *ssa.UnOp:
					// a field of a local copy of the value
					if y.Op == token.MUL {
						if fa, ok := y.X.(*ssa.FieldAddr); ok {
							if a, ok := fa.X.(*ssa.Alloc); ok {
								var only ssa.Value
								n := 0
								for _, ref := range *a.Referrers() {
									if st, ok := ref.(*ssa.Store); ok && st.Addr == ssa.Value(a) {
										only = st.Val
										n++
									}
								}
								if n == 1 {
									v = only
									continue
								}
							}
						}
					}
				}
				break
			}
			ex, ok := v.(*ssa.Extract)
			if !ok {
				return false
			}
			nx, ok := ex.Tuple.(*ssa.Next)
			return ok && nx.Iter == ssa.Value(rg)
		}
		under := false
		for b := range l.Blocks {
			cond, tE, _, ok := branchEdges(b)
			if !ok {
				continue
			}
			bo, ok := cond.(*ssa.BinOp)
			if !ok {
				continue
			}
			X, Y, op := bo.X, bo.Y, bo.Op
			if _, isK := constInt(X); isK {
				X, Y, op = Y, X, swapOp(op)
			}
			k, isK := constInt(Y)
			if !isK || !((op == token.LSS && k == 0) || (op == token.LEQ && k == -1)) {
				continue
			}
			if x.ea.errorOnly(tE.To()) && isCount(X) {
				under = true
			}
		}
		if !under {
			continue
		}
		// the map is decremented in a loop over oldValues: directly, or by a
		// helper that receives the map, the removed value and a negative step
		dec := false
		allInstrs(x.fn, func(in ssa.Instruction) {
			switch mu := in.(type) {
			case *ssa.MapUpdate:
				if mu.Map != rg.X {
					return
				}
				bo, ok := mu.Value.(*ssa.BinOp)
				if !ok || bo.Op != token.SUB {
					return
				}
				if k, ok := constInt(bo.Y); !ok || k != 1 {
					return
				}
				if x.d.HasRoot(mu.Key, oldP) {
					dec = true
				}
			case *ssa.Call:
				sf := staticCallee(mu)
				if sf == nil || sf.Blocks == nil || len(mu.Call.Args) != len(sf.Params) {
					return
				}
				inOldLoop := false
				for _, ol := range x.roleLoops(oldP) {
					if ol.Blocks[mu.Block()] {
						inOldLoop = true
					}
				}
				if !inOldLoop {
					return
				}
				var pm, pd, pe *ssa.Parameter
				for i, a := range mu.Call.Args {
					switch {
					case a == rg.X:
						pm = sf.Params[i]
					case isIntType(a.Type()):
						if k, ok := constInt(a); ok && k == -1 {
							pd = sf.Params[i]
						}
					case x.d.HasRoot(a, oldP) && pe == nil:
						pe = sf.Params[i]
					}
				}
				if pm == nil || pd == nil || pe == nil {
					return
				}
				hd := NewDeriv(x.w, sf)
				allInstrs(sf, func(in2 ssa.Instruction) {
					if u, ok := in2.(*ssa.MapUpdate); ok && u.Map == ssa.Value(pm) && hd.HasRoot(u.Value, pd) && hd.HasRoot(u.Key, pe) {
						// the step is added to the stored count
						added := false
						allInstrs(sf, func(in3 ssa.Instruction) {
							if bo, ok := in3.(*ssa.BinOp); ok && bo.Op == token.ADD && (bo.X == ssa.Value(pd) || bo.Y == ssa.Value(pd)) {
								added = true
							}
						})
						if added {
							dec = true
						}
					}
				})
			}
		})
		// the underflow test looks at the counts after the removals only: no
		// count is raised from the hunk's added values on a path that still
		// leads to the test (a value that is removed and re-added by the same
		// hunk would mask a missing element)
		if newP := x.pf.roleParam(x.fn, "newValues"); newP != nil && dec {
			masked := ""
			allInstrs(x.fn, func(in ssa.Instruction) {
				raises := false
				switch mu := in.(type) {
				case *ssa.MapUpdate:
					raises = mu.Map == rg.X && x.d.HasRoot(mu.Key, newP)
				case *ssa.Call:
					if sf := staticCallee(mu); sf != nil && sf.Blocks != nil {
						hasMap, hasNew := false, false
						for _, a := range mu.Call.Args {
							if a == rg.X {
								hasMap = true
							} else if !isIntType(a.Type()) && x.d.HasRoot(a, newP) {
								hasNew = true
							}
						}
						raises = hasMap && hasNew
					}
				}
				if raises && reachFrom(in.Block(), nil)[l.Header] {
					masked = x.w.Pos(in.Pos())
				}
			})
			if masked != "" {
				return false, "the counts are raised from the added values (at " + masked + ") before the test for a negative count: an element that is removed and re-added by the same hunk is not missed when absent"
			}
		}
		if dec {
			return true, "multiset schema: the count of every removed value is decremented and a negative count is an error before the commit"
		}
	}
	return false, ""
}

// ruleDescend: a hunk whose path is not exhausted must be handed on: in
// jsonObject.patch and in the leaf patch() every success return on a path
// where pathAhead is not known to be a leaf is the outcome of a nested
// patch-family call (creating intermediate objects for merge patches and
// reporting missing containers for strict ones).
func ruleDescend(w *World, r *Report, pf *patchFamily) {
	const rule = "R-DESCEND"
	var targets []*ssa.Function
	for _, fn := range pf.methods {
		if fn.Signature.Recv() != nil && typeName(fn.Signature.Recv().Type()) == "jsonObject" {
			targets = append(targets, fn)
		}
	}
	targets = append(targets, pf.leaf)
	for _, fn := range targets {
		r.Fn(fnName(fn))
		x := &expectCtx{w: w, pf: pf, fn: fn, d: NewDeriv(w, fn), ea: newErrAnalysis(w), lps: loopsOf(fn)}
		calls := pf.familyCalls(fn)
		pa := pf.roleParam(fn, "pathAhead")
		leaf := EdgeSet{}
		for _, b := range fn.Blocks {
			cond, tE, fE, ok := branchEdges(b)
			if !ok {
				continue
			}
			switch c := cond.(type) {
			case *ssa.BinOp:
				t, off, _, okT := termOf(c.X)
				k, okK := constInt(c.Y)
				if okT && okK && t.isLen && off == 0 && k == 0 && t.v == ssa.Value(pa) {
					switch c.Op {
					case token.EQL:
						leaf[tE] = true
					case token.NEQ, token.GTR:
						leaf[fE] = true
					}
				}
			case *ssa.Call:
				if sf := staticCallee(c); sf != nil && w.fnIs(sf, "isLeaf") && len(c.Call.Args) == 1 && strip(c.Call.Args[0]) == ssa.Value(pa) {
					leaf[tE] = true
				}
			}
		}
		if len(leaf) == 0 {
			r.Unk(rule, fnName(fn)+":leaf-test", w.Pos(fn.Pos()), "no test of `pathAhead is exhausted` found")
			continue
		}
		n := 0
		bad := ""
		for _, ret := range returnsOf(fn) {
			if !isNilErrReturn(ret) || x.delegated(ret, calls) {
				continue
			}
			n++
			if !cutsOff(fn, leaf, ret.Block()) {
				bad = w.Pos(ret.Pos())
			}
		}
		r.Check(bad == "", rule, fnName(fn)+":own-commits-only-at-leaf", w.Pos(fn.Pos()),
			fmt.Sprintf("all %d success returns that are not the outcome of a nested patch lie behind `pathAhead is exhausted`", n),
			"a success return at "+bad+" is reachable while the hunk's path is not exhausted and without a nested patch: the rest of the path is silently ignored (no intermediate object created, no missing container reported)")
	}
}

// ruleSearchAll: a loop whose natural exit leads only to error returns is a
// search ("not found" behind it); its body must not leave towards that exit
// (a break on a non-matching member ends the search early and the hunk is
// rejected depending on member order).
func ruleSearchAll(w *World, r *Report, pf *patchFamily, scope func(*ssa.Function) bool) {
	const rule = "R-SEARCHALL"
	ea := newErrAnalysis(w)
	n := 0
	for _, fn := range pf.functions() {
		if scope != nil && !scope(fn) {
			continue
		}
		for i, l := range loopsOf(fn) {
			var exit *ssa.BasicBlock
			for _, s := range l.Header.Succs {
				if !l.Blocks[s] {
					exit = s
				}
			}
			if exit == nil || !ea.errorOnly(exit) {
				continue
			}
			n++
			r.Fn(fnName(fn))
			bad := ""
			for b := range l.Blocks {
				if b == l.Header {
					continue
				}
				for _, s := range b.Succs {
					if s == exit {
						bad = w.Pos(firstPos(b))
					}
				}
			}
			r.Check(bad == "", rule, fmt.Sprintf("%s:search-loop#%d", fnName(fn), i+1), w.Pos(firstPos(l.Header)), "the search loop visits every member before reporting `not found`",
				"the search loop is left early (at "+bad+") towards its `not found` error: whether the addressed member is found depends on what stands before it")
		}
	}
	if n == 0 {
		r.Bad(rule, pf.tag+":instance-floor", "-", "no search loop (loop followed only by error returns) found in the patch family")
	}
}

// ruleDeleteVoid: jsonObject.patch removes a member only when the patched
// value is void (null is a value; turning null into a deletion is the merge
// reader's job, not the patcher's).
func ruleDeleteVoid(w *World, r *Report, pf *patchFamily) {
	const rule = "R-DELETEVOID"
	for _, fn := range pf.methods {
		if fn.Signature.Recv() == nil || typeName(fn.Signature.Recv().Type()) != "jsonObject" {
			continue
		}
		r.Fn(fnName(fn))
		var del ssa.Instruction
		allInstrs(fn, func(in ssa.Instruction) {
			if c, ok := in.(ssa.CallInstruction); ok {
				if b, ok := c.Common().Value.(*ssa.Builtin); ok && b.Name() == "delete" {
					del = in
				}
			}
		})
		if del == nil {
			r.Bad(rule, fnName(fn)+":delete", w.Pos(fn.Pos()), "the object patch no longer deletes a member for a void result")
			continue
		}
		cut := EdgeSet{}
		for _, b := range fn.Blocks {
			cond, tE, _, ok := branchEdges(b)
			if !ok {
				continue
			}
			if c, ok := cond.(*ssa.Call); ok {
				if sf := staticCallee(c); sf != nil && w.helperIs(sf, "isVoid") {
					cut[tE] = true
				}
			}
		}
		r.Check(len(cut) > 0 && cutsOff(fn, cut, del.Block()), rule, fnName(fn)+":delete-only-for-void", w.Pos(del.Pos()),
			"a member is deleted only on the edge where the patched value is void",
			"a member can be deleted although the patched value is not void (e.g. for null): a hunk that writes null removes the key instead, and merge patches rendered by patching the empty document lose their deletions")
	}
}

// ruleKeyBind — the digest by which jsonSet.patch selects the keyed member a
// nested hunk is applied to must say which value belongs to which key.
// For every comparison of two digests in the set patch whose operands are
// results of functions of the package: in each such function, on the paths
// that are feasible for the options it is called with (the value-only
// identity behind getOption[setKeysOption] is infeasible when the options
// cannot hold a setKeysOption), every member value looked up by key that
// reaches the digest must be accompanied by its key: the key string itself
// is part of the digested data, not only the index of the lookup.
func ruleKeyBind(w *World, r *Report, pf *patchFamily) {
	const rule = "R-KEYBIND"
	var fn *ssa.Function
	for _, m := range pf.methods {
		if m.Signature.Recv() != nil && typeName(m.Signature.Recv().Type()) == "jsonSet" {
			fn = m
		}
	}
	if fn == nil {
		infra("R-KEYBIND: (jsonSet).patch not found")
	}
	r.Fn(fnName(fn))
	d := NewDeriv(w, fn)
	optT := optionSliceType(pf.pkg, map[string]string{"v2": "Option", "lib": "Metadata"}[pf.tag])
	isDigest := func(t types.Type) bool {
		a, ok := t.Underlying().(*types.Array)
		return ok && a.Len() == 8 && isByteType(a.Elem())
	}
	isSetKeys := func(t types.Type) bool {
		n := namedOf(t)
		return n != nil && strings.EqualFold(n.Obj().Name(), "setKeysOption")
	}
	// may the option list hold a setKeysOption?
	mayKeys := func(v ssa.Value) bool {
		for x := range d.Visited(v) {
			switch y := x.(type) {
			case *ssa.MakeInterface:
				if isSetKeys(y.X.Type()) {
					return true
				}
			case *ssa.Parameter:
				if types.Identical(y.Type(), optT) {
					return true
				}
			case *ssa.Extract:
				c, ok := y.Tuple.(*ssa.Call)
				if !ok || !types.Identical(y.Type(), optT) {
					continue
				}
				sf := staticCallee(c)
				if sf == nil || sf.Blocks == nil {
					return true
				}
				for _, ret := range returnsOf(sf) {
					if y.Index >= len(ret.Results) {
						continue
					}
					for _, o := range optionLiteral(ret.Results[y.Index]) {
						if strings.EqualFold(o, "setKeysOption") {
							return true
						}
					}
					if _, isC := strip(ret.Results[y.Index]).(*ssa.Const); !isC {
						if _, isSl := strip(ret.Results[y.Index]).(*ssa.Slice); !isSl {
							return true // not a literal: unknown
						}
					}
				}
			}
		}
		return false
	}
	binds := func(g *ssa.Function, keysFeasible bool) (bool, string) {
		cut := EdgeSet{}
		if !keysFeasible {
			for _, b := range g.Blocks {
				cond, tE, _, ok := branchEdges(b)
				if !ok {
					continue
				}
				var call *ssa.Call
				switch x := cond.(type) {
				case *ssa.Extract:
					call, _ = x.Tuple.(*ssa.Call)
				case *ssa.Call:
					call = x
				}
				if call == nil {
					continue
				}
				if sf := staticCallee(call); sf != nil && len(sf.TypeArgs()) == 1 && isSetKeys(sf.TypeArgs()[0]) {
					cut[tE] = true
				}
			}
		}
		reach := reachFrom(g.Blocks[0], cut)
		dg := NewDeriv(w, g)
		for _, ret := range returnsOf(g) {
			if !reach[ret.Block()] {
				continue
			}
			vis := dg.Visited(ret.Results[0])
			for b := range reach {
				for _, in := range b.Instrs {
					lk, ok := in.(*ssa.Lookup)
					if !ok || !vis[lk] {
						continue
					}
					if _, isMap := lk.X.Type().Underlying().(*types.Map); !isMap || strip(lk.X) != ssa.Value(g.Params[0]) {
						continue
					}
					if _, isConst := lk.Index.(*ssa.Const); isConst {
						continue
					}
					if !vis[lk.Index] {
						return false, fmt.Sprintf("%s digests the value found under a key (%s) without the key itself", fnName(g), w.Pos(lk.Pos()))
					}
				}
			}
		}
		return true, ""
	}
	n := 0
	allInstrs(fn, func(in ssa.Instruction) {
		bo, ok := in.(*ssa.BinOp)
		if !ok || (bo.Op != token.EQL && bo.Op != token.NEQ) || !isDigest(bo.X.Type()) {
			return
		}
		for _, side := range []ssa.Value{bo.X, bo.Y} {
			c, ok := strip(side).(*ssa.Call)
			if !ok {
				continue
			}
			g := staticCallee(c)
			if g == nil || g.Blocks == nil || fnPkg(g) != pf.pkg.Pkg || g.Signature.Recv() == nil {
				continue
			}
			if _, isMap := g.Params[0].Type().Underlying().(*types.Map); !isMap {
				continue
			}
			// the option argument
			feasible := true
			for i, p := range g.Params {
				if types.Identical(p.Type(), optT) && i < len(c.Call.Args) {
					feasible = mayKeys(c.Call.Args[i])
				}
			}
			n++
			ok2, why := binds(g, feasible)
			r.Check(ok2, rule, fmt.Sprintf("%s→%s#%d", fnName(fn), g.Name(), n), w.Pos(c.Pos()),
				"the digest that selects the keyed member binds every key to its value",
				"the digest that selects the keyed member does not say which value belongs to which key: "+why+"; members whose key values are a permutation of the addressed ones are taken for it")
		}
	})
	if n < 2 {
		r.Bad(rule, fnName(fn)+":instance-floor", w.Pos(fn.Pos()), fmt.Sprintf("only %d member-selection digests found in the set patch", n))
	}
}

// ruleCreateOnlyMerge — containers are invented only by merge patching. In
// the patch family a fresh empty object (to stand for a missing parent) may
// be produced only where the strategy cannot be strict: behind an edge on
// which merge strategy is known, or in a block that is unreachable when the
// strategy parameter is the strict constant (closed enumeration). A strict
// hunk whose path leads through a missing member must be rejected by the
// nested patch of void, not satisfied by a made-up object.
func ruleCreateOnlyMerge(w *World, r *Report, pf *patchFamily, scope func(*ssa.Function) bool) {
	const rule = "R-CREATE"
	ea := newErrAnalysis(w)
	n := 0
	for _, fn := range pf.functions() {
		if scope != nil && !scope(fn) {
			continue
		}
		x := &expectCtx{w: w, pf: pf, fn: fn, d: NewDeriv(w, fn), ea: ea, lps: loopsOf(fn)}
		cut := x.mergeEdges()
		if _, closed := closedEnums(w, pf.pkg)[namedOf(pf.roleParam(fn, "strategy").Type())]; closed {
			for e := range x.strictInfeasible() {
				cut[e] = true
			}
		}
		k := 0
		isFreshObject := func(in ssa.Instruction) bool {
			v, ok := in.(ssa.Value)
			if !ok || strip(v) != v {
				return false
			}
			switch y := v.(type) {
			case *ssa.MakeMap:
				if typeName(y.Type()) != "jsonObject" {
					return false
				}
				for _, ref := range *y.Referrers() {
					if _, isUpd := ref.(*ssa.MapUpdate); isUpd {
						return false
					}
				}
				return true
			case *ssa.Call:
				sf := staticCallee(y)
				if sf != nil && sf.Blocks != nil && fnPkg(sf) == pf.pkg.Pkg && len(sf.Params) == 0 && sf.Signature.Results().Len() == 1 && typeName(sf.Signature.Results().At(0).Type()) == "jsonObject" {
					for _, ret := range returnsOf(sf) {
						if _, isMM := strip(ret.Results[0]).(*ssa.MakeMap); !isMM {
							return false
						}
					}
					return true
				}
			}
			return false
		}
		siteOK := func(b *ssa.BasicBlock) bool {
			okCut := len(cut) > 0 && cutsOff(fn, cut, b)
			if !okCut {
				if sp := pf.roleParam(fn, "strategy"); sp != nil {
					strict := pf.strategyConst("strictPatchStrategy").Value.Value.ExactString()
					fs := NewFactsEntry(fn, closedEnums(w, pf.pkg), state{term{v: sp, isLen: false}: fact{lo: math.MinInt64, hi: math.MaxInt64, eq: strict}})
					if _, reach := fs.At(b); !reach {
						okCut = true
					}
				}
			}
			return okCut
		}
		// a helper outside the family that a member hands the work to (benign A-r4: the merge descent
		// extracted into a function of its own): its fresh objects count at the member's call site
		allInstrs(fn, func(in ssa.Instruction) {
			c, ok := in.(*ssa.Call)
			if !ok {
				return
			}
			g := staticCallee(c)
			if g == nil || g.Blocks == nil || fnPkg(g) != pf.pkg.Pkg || pf.member[g] || len(g.Params) == 0 {
				return
			}
			// only a helper that hands the fresh object back as (part of) the patched document: it returns
			// a node (a digest helper that collects an identity in a fresh object does not — QA-r5, QE-r3)
			returnsNode := false
			for i := 0; i < g.Signature.Results().Len(); i++ {
				switch typeName(g.Signature.Results().At(i).Type()) {
				case "JsonNode", "jsonObject":
					returnsNode = true
				}
			}
			if !returnsNode {
				return
			}
			has := false
			dg := NewDeriv(w, g)
			allInstrs(g, func(in2 ssa.Instruction) {
				if isFreshObject(in2) {
					for _, ret := range returnsOf(g) {
						for _, res := range ret.Results {
							if dg.Visited(res)[in2.(ssa.Value)] {
								has = true
							}
						}
					}
				}
			})
			if !has {
				return
			}
			n++
			k++
			r.Fn(fnName(fn))
			r.Check(siteOK(c.Block()), rule, fmt.Sprintf("%s:fresh-object-in-%s#%d", fnName(fn), g.Name(), k), w.Pos(c.Pos()),
				"the helper that produces a fresh empty object is called only where the strategy cannot be strict",
				"a helper that produces a fresh empty object (a stand-in for a missing parent) can be called under strict strategy: a strict hunk whose path leads through a missing member is applied to a made-up parent instead of being rejected")
		})
		allInstrs(fn, func(in ssa.Instruction) {
			v, ok := in.(ssa.Value)
			if !ok || strip(v) != v {
				return
			}
			fresh := false
			switch y := v.(type) {
			case *ssa.MakeMap:
				fresh = typeName(y.Type()) == "jsonObject"
				for _, ref := range *y.Referrers() {
					if _, isUpd := ref.(*ssa.MapUpdate); isUpd {
						fresh = false // built with members: not a stand-in for a missing parent
					}
				}
			case *ssa.Call:
				sf := staticCallee(y)
				if sf != nil && sf.Blocks != nil && fnPkg(sf) == pf.pkg.Pkg && len(sf.Params) == 0 && sf.Signature.Results().Len() == 1 && typeName(sf.Signature.Results().At(0).Type()) == "jsonObject" {
					fresh = true
					for _, ret := range returnsOf(sf) {
						if _, isMM := strip(ret.Results[0]).(*ssa.MakeMap); !isMM {
							fresh = false
						}
					}
				}
			}
			if !fresh {
				return
			}
			n++
			k++
			r.Fn(fnName(fn))
			okCut := len(cut) > 0 && cutsOff(fn, cut, in.Block())
			if !okCut {
				// path-sensitive second try: with the strategy bound to the strict constant, is the site reachable at all?
				if sp := pf.roleParam(fn, "strategy"); sp != nil {
					strict := pf.strategyConst("strictPatchStrategy").Value.Value.ExactString()
					fs := NewFactsEntry(fn, closedEnums(w, pf.pkg), state{term{v: sp, isLen: false}: fact{lo: math.MinInt64, hi: math.MaxInt64, eq: strict}})
					if _, reach := fs.At(in.Block()); !reach {
						okCut = true
					}
				}
			}
			r.Check(okCut, rule, fmt.Sprintf("%s:fresh-object#%d", fnName(fn), k), w.Pos(in.Pos()),
				"a fresh empty object is produced only where the strategy cannot be strict",
				"a fresh empty object (a stand-in for a missing parent) can be produced under strict strategy: a strict hunk whose path leads through a missing member is applied to a made-up parent instead of being rejected")
		})
	}
	if n < 2 {
		r.Bad(rule, pf.tag+":instance-floor", "-", fmt.Sprintf("only %d fresh-object sites found in the patch family", n))
	}
}

// ruleSetTarget — R-SETTARGET (C08: "failing if the target is not an array").
// A patch implementation of a node that is not an array (the object patch and
// the shared leaf patch all scalars delegate to) may, under strict strategy,
// commit on its own only when the hunk's path is really exhausted
// (len(pathAhead) == 0 on every path to the return). `isLeaf()` is not
// exhaustion: it also holds for a path that still carries a set or multiset
// element, and a commit behind it applies `@ [{}]` / `@ [[]]` hunks to an
// object or scalar as a plain value replacement instead of rejecting them.
func ruleSetTarget(w *World, r *Report, pf *patchFamily) {
	const rule = "R-SETTARGET"
	var targets []*ssa.Function
	for _, fn := range pf.methods {
		if fn.Signature.Recv() == nil {
			continue
		}
		switch fn.Signature.Recv().Type().Underlying().(type) {
		case *types.Map:
			targets = append(targets, fn)
		}
	}
	targets = append(targets, pf.leaf)
	for _, fn := range targets {
		r.Fn(fnName(fn))
		x := &expectCtx{w: w, pf: pf, fn: fn, d: NewDeriv(w, fn), ea: newErrAnalysis(w), lps: loopsOf(fn)}
		calls := pf.familyCalls(fn)
		pa := pf.roleParam(fn, "pathAhead")
		cut := EdgeSet{}
		for e := range x.strictInfeasible() {
			cut[e] = true
		}
		nTests := 0
		for _, b := range fn.Blocks {
			cond, tE, fE, ok := branchEdges(b)
			if !ok {
				continue
			}
			c, ok := cond.(*ssa.BinOp)
			if !ok {
				continue
			}
			t, off, _, okT := termOf(c.X)
			k, okK := constInt(c.Y)
			if !(okT && okK && t.isLen && off == 0 && t.v == ssa.Value(pa)) {
				continue
			}
			switch {
			case c.Op == token.EQL && k == 0, c.Op == token.LEQ && k == 0, c.Op == token.LSS && k == 1:
				cut[tE] = true
				nTests++
			case c.Op == token.NEQ && k == 0, c.Op == token.GTR && k == 0, c.Op == token.GEQ && k == 1:
				cut[fE] = true
				nTests++
			}
		}
		n := 0
		bad := ""
		for _, ret := range returnsOf(fn) {
			if !isNilErrReturn(ret) || x.delegated(ret, calls) {
				continue
			}
			n++
			if !cutsOff(fn, cut, ret.Block()) {
				bad = w.Pos(ret.Pos())
			}
		}
		r.Check(bad == "", rule, fnName(fn)+":strict-commit-only-with-empty-path", w.Pos(fn.Pos()),
			fmt.Sprintf("under strict strategy all %d own success returns lie behind len(pathAhead) == 0 (%d tests)", n, nTests),
			"under strict strategy a success return at "+bad+" is reachable while pathAhead is not empty (isLeaf() also accepts a remaining set/multiset element): a set or multiset hunk addressed to this non-array node is applied as a plain replacement instead of failing")
	}
}

// ruleMergeKeep — R-MERGEKEEP (C12). RFC 7386: MergePatch(Target, Patch) with
// an object Patch *merges into* an object Target; in particular
// MergePatch(T, {}) = T for every object T. The merge reader hands an empty
// object on as one hunk whose value is that object, so the object's own patch
// — at the leaf, under merge strategy — must be able to answer with (something
// derived from) the object it was applied to. If every success return that
// the object patch makes on its own behind "strategy is merge" is a function
// of the hunk's values alone, `{"a":{}}` applied to `{"a":{"b":1}}` cannot
// give `{"a":{"b":1}}`.
func ruleMergeKeep(w *World, r *Report, pf *patchFamily) {
	const rule = "R-MERGEKEEP"
	for _, fn := range pf.methods {
		if fn.Signature.Recv() == nil || typeName(fn.Signature.Recv().Type()) != "jsonObject" {
			continue
		}
		r.Fn(fnName(fn))
		x := &expectCtx{w: w, pf: pf, fn: fn, d: NewDeriv(w, fn), ea: newErrAnalysis(w), lps: loopsOf(fn)}
		calls := pf.familyCalls(fn)
		merge := x.mergeEdges()
		if len(merge) == 0 {
			r.Ok(rule, fnName(fn)+":merge-leaf-keeps-object", w.Pos(fn.Pos()), "no branch on the merge strategy in the object patch: this rule makes no claim (not decided)")
			continue
		}
		recv := fn.Params[0]
		n, keeps := 0, 0
		for _, ret := range returnsOf(fn) {
			if !isNilErrReturn(ret) || x.delegated(ret, calls) {
				continue
			}
			if !cutsOff(fn, merge, ret.Block()) {
				continue // also reachable under strict strategy
			}
			n++
			if x.d.HasRoot(ret.Results[0], recv) {
				keeps++
			}
		}
		if n == 0 {
			r.Ok(rule, fnName(fn)+":merge-leaf-keeps-object", w.Pos(fn.Pos()), "no success return of its own behind the merge strategy: this rule makes no claim (not decided)")
			continue
		}
		r.Check(keeps > 0, rule, fnName(fn)+":merge-leaf-keeps-object", w.Pos(fn.Pos()),
			fmt.Sprintf("of the %d success returns the object patch makes on its own under merge strategy, %d answer with the object it was applied to", n, keeps),
			fmt.Sprintf("none of the %d success returns the object patch makes on its own under merge strategy depends on the object it was applied to: an object value in a merge patch always replaces an object target, whereas RFC 7386 merges it in (MergePatch(T, {}) = T)", n))
	}
}
