package wit
import ("testing"; jd "github.com/josephburnett/jd/v2")
func TestD1(t *testing.T){
  a,_:=jd.ReadJsonString(`{"foo":["bar","baz"]}`)
  b,_:=jd.ReadJsonString(`{"foo":["bar","bam","baz"]}`)
  c,_:=jd.ReadJsonString(`{"foo":["XXX","YYY"]}`)
  d:=a.Diff(b)
  r,err:=c.Patch(d)
  if err==nil { t.Fatalf("patch applied to non-matching target: %v", r.Json()) }
  a2,_:=jd.ReadJsonString(`[["bar","baz"]]`)
  b2,_:=jd.ReadJsonString(`[["bar","bam","baz"]]`)
  c2,_:=jd.ReadJsonString(`[["XXX","YYY"]]`)
  r,err=c2.Patch(a2.Diff(b2))
  if err==nil { t.Fatalf("nested: patch applied to non-matching target: %v", r.Json()) }
}
