package main

import (
	"fmt"
	"go/token"
	"go/types"
	"os"
	"sort"
	"strings"

	"golang.org/x/tools/go/callgraph"
	"golang.org/x/tools/go/callgraph/cha"
	"golang.org/x/tools/go/callgraph/vta"
	"golang.org/x/tools/go/packages"
	"golang.org/x/tools/go/ssa"
	"golang.org/x/tools/go/ssa/ssautil"
)

const (
	pathTop    = "github.com/josephburnett/jd"
	pathLib    = "github.com/josephburnett/jd/lib"
	pathV2     = "github.com/josephburnett/jd/v2"
	pathMainV2 = "github.com/josephburnett/jd/v2/jd"
	pathServe  = "github.com/josephburnett/jd/v2/web/serve"
	pathPack   = "github.com/josephburnett/jd/v2/web/pack"
)

// World is the type-checked, SSA-built program under analysis. Everything a
// rule looks at comes from here; rules never read source text.
type World struct {
	Root    string
	Fset    *token.FileSet
	Pkgs    map[string]*packages.Package
	Prog    *ssa.Program
	SSA     map[string]*ssa.Package
	cg      *callgraph.Graph
	chaCG   *callgraph.Graph
	allFns  map[*ssa.Function]bool
	GoFiles int
}

// InfraError is raised (panic) for failures of the checker's own footing:
// nothing can be said about the property. Exit status 2.
type InfraError struct{ Msg string }

func infra(format string, args ...any) {
	panic(InfraError{fmt.Sprintf(format, args...)})
}

func goEnv() []string {
	if !strings.HasPrefix(os.Getenv("PATH"), "/opt/veriftools/go1.26.8/bin:") {
		// exec.LookPath uses this process's PATH, not cfg.Env
		os.Setenv("PATH", "/opt/veriftools/go1.26.8/bin:"+os.Getenv("PATH"))
	}
	env := []string{}
	for _, e := range os.Environ() {
		k := e[:strings.Index(e, "=")]
		switch k {
		case "PATH", "GOTOOLCHAIN", "GOFLAGS", "GOPROXY", "GOWORK", "GOSUMDB", "GOOS", "GOARCH":
			continue
		}
		env = append(env, e)
	}
	goos, goarch := os.Getenv("JDLINT_GOOS"), os.Getenv("JDLINT_GOARCH")
	env = append(env,
		"PATH="+os.Getenv("PATH"),
		"GOTOOLCHAIN=local", "GOFLAGS=-mod=mod", "GOPROXY=off", "GOWORK=off", "GOSUMDB=off")
	if goos != "" {
		env = append(env, "GOOS="+goos)
	}
	if goarch != "" {
		env = append(env, "GOARCH="+goarch)
	}
	return env
}

// Load type-checks the repository at root (both modules, through the replace
// directive of the top-level go.mod) and builds SSA for it.
func Load(root string, patterns ...string) *World {
	if len(patterns) == 0 {
		patterns = []string{".", "./lib", pathV2, pathMainV2, pathServe, pathPack}
	}
	fset := token.NewFileSet()
	cfg := &packages.Config{
		Mode:  packages.LoadAllSyntax | packages.NeedModule,
		Dir:   root,
		Fset:  fset,
		Env:   goEnv(),
		Tests: false,
	}
	pkgs, err := packages.Load(cfg, patterns...)
	if err != nil {
		infra("packages.Load(%s): %v", root, err)
	}
	if len(pkgs) < len(patterns) {
		infra("loaded %d packages from %s, expected at least %d", len(pkgs), root, len(patterns))
	}
	w := &World{Root: root, Fset: fset, Pkgs: map[string]*packages.Package{}, SSA: map[string]*ssa.Package{}}
	nerr := 0
	packages.Visit(pkgs, nil, func(p *packages.Package) {
		for _, e := range p.Errors {
			fmt.Fprintf(os.Stderr, "load error: %s: %v\n", p.PkgPath, e)
			nerr++
		}
	})
	if nerr > 0 {
		infra("%d package load/type errors under %s", nerr, root)
	}
	for _, p := range pkgs {
		w.Pkgs[p.PkgPath] = p
		w.GoFiles += len(p.GoFiles)
		for _, f := range p.GoFiles {
			if strings.HasSuffix(f, "_test.go") {
				infra("test file loaded: %s", f)
			}
		}
	}
	prog, spkgs := ssautil.AllPackages(pkgs, ssa.InstantiateGenerics)
	prog.Build()
	w.Prog = prog
	theWorld = w
	for i, p := range pkgs {
		if spkgs[i] == nil {
			infra("no SSA package for %s", p.PkgPath)
		}
		w.SSA[p.PkgPath] = spkgs[i]
	}
	return w
}

func (w *World) Pkg(path string) *ssa.Package {
	p := w.SSA[path]
	if p == nil {
		infra("package %s not loaded", path)
	}
	return p
}

func (w *World) HasPkg(path string) bool { return w.SSA[path] != nil }

// AllFunctions: every function of the program incl. closures and instances.
func (w *World) AllFunctions() map[*ssa.Function]bool {
	if w.allFns == nil {
		w.allFns = ssautil.AllFunctions(w.Prog)
	}
	return w.allFns
}

// CG returns the VTA call graph (seeded with CHA).
func (w *World) CG() *callgraph.Graph {
	if w.cg == nil {
		w.chaCG = cha.CallGraph(w.Prog)
		w.cg = vta.CallGraph(w.AllFunctions(), w.chaCG)
	}
	return w.cg
}

func (w *World) CHA() *callgraph.Graph {
	w.CG()
	return w.chaCG
}

// Pos renders a position relative to the repository root (display only; no
// rule keys on it).
func (w *World) Pos(p token.Pos) string {
	if !p.IsValid() {
		return "-"
	}
	pos := w.Fset.Position(p)
	f := strings.TrimPrefix(pos.Filename, w.Root+"/")
	return fmt.Sprintf("%s:%d", f, pos.Line)
}

func (w *World) PosCol(p token.Pos) string {
	if !p.IsValid() {
		return "-"
	}
	pos := w.Fset.Position(p)
	f := strings.TrimPrefix(pos.Filename, w.Root+"/")
	return fmt.Sprintf("%s:%d:%d", f, pos.Line, pos.Column)
}

// Func finds a package-level function by name.
func (w *World) Func(pkg *ssa.Package, name string) *ssa.Function {
	f := w.FuncOpt(pkg, name)
	if f == nil {
		infra("anchor function %s.%s not found (neither by name nor structurally)", pkg.Pkg.Path(), name)
	}
	return f
}

func (w *World) FuncOpt(pkg *ssa.Package, name string) *ssa.Function {
	if f := pkg.Func(name); f != nil {
		return f
	}
	return w.resolveAnchor(pkg, name, 0)
}

// Method finds the method name on the named type tname of pkg (value or
// pointer receiver).
func (w *World) MethodOpt(pkg *ssa.Package, tname, name string) *ssa.Function {
	t := pkg.Type(tname)
	if t == nil {
		return nil
	}
	for _, recv := range []types.Type{t.Type(), types.NewPointer(t.Type())} {
		ms := w.Prog.MethodSets.MethodSet(recv)
		for i := 0; i < ms.Len(); i++ {
			sel := ms.At(i)
			if sel.Obj().Name() == name {
				if fn := w.Prog.MethodValue(sel); fn != nil {
					// skip promoted/synthetic wrappers where the real one exists
					return fn
				}
			}
		}
	}
	// not under that name: the method of the type that plays the role by shape
	switch name {
	case "patch", "diff", "hashCode", "raw", "next", "drop", "isLeaf", "ident", "pathIdent":
		var found []*ssa.Function
		for _, recv := range []types.Type{t.Type(), types.NewPointer(t.Type())} {
			ms := w.Prog.MethodSets.MethodSet(recv)
			for i := 0; i < ms.Len(); i++ {
				fn := w.Prog.MethodValue(ms.At(i))
				if fn != nil && fn.Synthetic == "" && w.fnIs(fn, name) {
					dup := false
					for _, g := range found {
						if g == fn {
							dup = true
						}
					}
					if !dup {
						found = append(found, fn)
					}
				}
			}
			if len(found) > 0 {
				break
			}
		}
		if len(found) == 1 {
			return found[0]
		}
	}
	return nil
}

func (w *World) Method(pkg *ssa.Package, tname, name string) *ssa.Function {
	f := w.MethodOpt(pkg, tname, name)
	if f == nil {
		infra("anchor method %s.(%s).%s not found", pkg.Pkg.Path(), tname, name)
	}
	return f
}

// NamedTypes lists the named (non-alias) types declared in pkg, sorted.
func (w *World) NamedTypes(pkg *ssa.Package) []*types.Named {
	var out []*types.Named
	for _, m := range pkg.Members {
		if t, ok := m.(*ssa.Type); ok {
			if n, ok := t.Type().(*types.Named); ok {
				out = append(out, n)
			}
		}
	}
	sort.Slice(out, func(i, j int) bool { return out[i].Obj().Name() < out[j].Obj().Name() })
	return out
}

// Implementers returns the concrete named types of pkg whose method set
// (value receiver) satisfies the interface named iname of pkg.
func (w *World) Implementers(pkg *ssa.Package, iname string) []*types.Named {
	it := pkg.Type(iname)
	if it == nil {
		infra("anchor interface %s.%s not found", pkg.Pkg.Path(), iname)
	}
	iface, ok := it.Type().Underlying().(*types.Interface)
	if !ok {
		infra("%s.%s is not an interface", pkg.Pkg.Path(), iname)
	}
	var out []*types.Named
	for _, n := range w.NamedTypes(pkg) {
		if types.IsInterface(n) {
			continue
		}
		if types.Implements(n, iface) {
			out = append(out, n)
		}
	}
	return out
}

// FuncsOf lists the source-level functions (incl. methods and their anonymous
// functions) whose object belongs to pkg, sorted by name.
func (w *World) FuncsOf(pkg *ssa.Package) []*ssa.Function {
	var out []*ssa.Function
	for fn := range w.AllFunctions() {
		if fn.Synthetic != "" && fn.Origin() == nil {
			continue
		}
		if fnPkg(fn) == pkg.Pkg && fn.Blocks != nil {
			out = append(out, fn)
		}
	}
	sort.Slice(out, func(i, j int) bool {
		if out[i].String() != out[j].String() {
			return out[i].String() < out[j].String()
		}
		return out[i].Pos() < out[j].Pos()
	})
	return out
}

// fnPkg is the types.Package a function (or closure, or instance) belongs to.
func fnPkg(fn *ssa.Function) *types.Package {
	for fn.Parent() != nil {
		fn = fn.Parent()
	}
	if fn.Pkg != nil {
		return fn.Pkg.Pkg
	}
	if o := fn.Origin(); o != nil && o.Pkg != nil {
		return o.Pkg.Pkg
	}
	if fn.Object() != nil {
		return fn.Object().Pkg()
	}
	return nil
}

// fnName is a stable, position-free name: pkgname.(Recv).Name or
// pkgname.Name, closures as parent$n.
func fnName(fn *ssa.Function) string {
	if fn == nil {
		return "<nil>"
	}
	if fn.Parent() != nil {
		return fnName(fn.Parent()) + "$" + strings.TrimPrefix(fn.Name(), fn.Parent().Name()+"$")
	}
	p := fnPkg(fn)
	pn := ""
	if p != nil {
		pn = p.Name()
		switch p.Path() {
		case pathV2:
			pn = "v2"
		case pathLib:
			pn = "lib"
		case pathTop:
			pn = "top"
		case pathMainV2:
			pn = "v2jd"
		}
	}
	if fn.Signature != nil && fn.Signature.Recv() != nil {
		rt := fn.Signature.Recv().Type()
		if pt, ok := rt.(*types.Pointer); ok {
			rt = pt.Elem()
		}
		tn := rt.String()
		if n, ok := rt.(*types.Named); ok {
			tn = n.Obj().Name()
		}
		return fmt.Sprintf("%s.(%s).%s", pn, tn, canonFnName(fn))
	}
	return pn + "." + canonFnName(fn)
}

// canonFnName: the name obligations are keyed by: the canonical role name of
// a renamed internal method / helper (so that keys, known findings and
// variants survive a rename), else the function's own name.
var theWorld *World
var canonCache = map[*ssa.Function]string{}

func canonFnName(fn *ssa.Function) string {
	if n, ok := canonCache[fn]; ok {
		return n
	}
	name := fn.Name()
	canonCache[fn] = name
	if theWorld == nil || fn.Synthetic != "" {
		return name
	}
	if obj, _ := fn.Object().(*types.Func); obj == nil || obj.Exported() {
		return name
	}
	roles := []string{"patch", "diff", "hashCode", "raw", "next", "drop", "isLeaf", "ident", "pathIdent"}
	if fn.Signature.Recv() == nil {
		roles = []string{"getPatchStrategy", "isVoid", "isNull", "nodeList"}
		for r := range anchorTable {
			roles = append(roles, r)
		}
		sort.Strings(roles)
	}
	for _, r := range roles {
		if name != r && theWorld.fnIs(fn, r) {
			name = r
			break
		}
	}
	canonCache[fn] = name
	return name
}

// ifaceRoleName: the actual name of the internal node interface's method that
// plays the role (patch, diff, hashCode, raw) in the package of t.
func ifaceRoleName(pkg *types.Package, role string) string {
	if pkg == nil {
		return role
	}
	for _, n := range pkg.Scope().Names() {
		tn, ok := pkg.Scope().Lookup(n).(*types.TypeName)
		if !ok || tn.Exported() {
			continue
		}
		it, ok := tn.Type().Underlying().(*types.Interface)
		if !ok {
			continue
		}
		for i := 0; i < it.NumExplicitMethods(); i++ {
			m := it.ExplicitMethod(i)
			if m.Name() == role {
				return role
			}
		}
		for i := 0; i < it.NumExplicitMethods(); i++ {
			m := it.ExplicitMethod(i)
			if sigRole(m.Type().(*types.Signature)) == role {
				return m.Name()
			}
		}
	}
	return role
}

// moduleVersion: version of the module providing the imported package path.
func (w *World) moduleVersion(path string) string {
	ver := ""
	var pkgs []*packages.Package
	for _, p := range w.Pkgs {
		pkgs = append(pkgs, p)
	}
	packages.Visit(pkgs, nil, func(p *packages.Package) {
		if p.PkgPath == path && p.Module != nil {
			ver = p.Module.Version
		}
	})
	return ver
}

// ---------------------------------------------------------------- anchors
//
// Rules are anchored at unexported helper functions. A maintainer may rename
// those; the exported API is stable. Func first looks the helper up by its
// current name and otherwise resolves it structurally from an exported entry
// point (unique in-package callee with a given result shape).

type anchorSpec struct {
	fromType, fromFunc string                      // caller: method (type, name) or package func ("", name)
	pick               func(fn *ssa.Function) bool // which in-package callee
}

func sigString(fn *ssa.Function) string {
	return types.TypeString(fn.Signature, func(p *types.Package) string { return "" })
}

var anchorTable = map[string]anchorSpec{
	"readDiff":   {"", "ReadDiffString", func(f *ssa.Function) bool { return f.Signature.Results().Len() == 2 }},
	"unmarshal":  {"", "ReadJsonString", func(f *ssa.Function) bool { return f.Signature.Params().Len() == 2 }},
	"renderJson": {"jsonString", "Json", func(f *ssa.Function) bool { return f.Signature.Params().Len() == 1 && f.Signature.Recv() == nil }},
	"renderYaml": {"jsonString", "Yaml", func(f *ssa.Function) bool { return f.Signature.Params().Len() == 1 && f.Signature.Recv() == nil }},
	"hash":       {"jsonString", "hashCode", func(f *ssa.Function) bool { return f.Signature.Recv() == nil }},
	"dispatch":   {"jsonArray", "Equals", func(f *ssa.Function) bool { return f.Signature.Recv() == nil && f.Signature.Params().Len() == 2 }},
	"patchAll":   {"jsonString", "Patch", func(f *ssa.Function) bool { return f.Signature.Recv() == nil }},
	"patch":      {"jsonString", "patch", func(f *ssa.Function) bool { return f.Signature.Recv() == nil }},
	"diff":       {"jsonString", "diff", func(f *ssa.Function) bool { return f.Signature.Recv() == nil }},
	"readPatchDiffElement": {"", "ReadPatchString", func(f *ssa.Function) bool {
		// (hunk, rest, error) before /repo commit 66309a5, (hunk, after-test index, rest, error) since
		return f.Signature.Recv() == nil && f.Signature.Results().Len() >= 3 && f.Signature.Results().Len() <= 4 && typeName(f.Signature.Results().At(0).Type()) == "DiffElement"
	}},
	"readMergeInto": {"", "ReadMergeString", func(f *ssa.Function) bool {
		return f.Signature.Recv() == nil && f.Signature.Results().Len() == 1 && f.Signature.Params().Len() == 3
	}},
	"writePointer": {"Diff", "RenderPatch", func(f *ssa.Function) bool {
		return f.Signature.Recv() == nil && f.Signature.Results().Len() == 2 && f.Signature.Params().Len() == 1 && strings.HasPrefix(f.Signature.Params().At(0).Type().String(), "[]")
	}},
	"setPatchDiffElementContext": {"", "readPatchDiffElement", func(f *ssa.Function) bool {
		return f.Signature.Recv() == nil && f.Signature.Params().Len() == 2 && f.Signature.Results().Len() == 2
	}},
	"readPointer": {"", "readPatchDiffElement", func(f *ssa.Function) bool {
		return f.Signature.Recv() == nil && f.Signature.Params().Len() == 1 && f.Signature.Results().Len() == 2 && f.Signature.Params().At(0).Type().String() == "string"
	}},
	"sameContainerType": {"jsonList", "diffRest", func(f *ssa.Function) bool {
		return f.Signature.Recv() == nil && f.Signature.Results().Len() == 1 && f.Signature.Params().Len() == 3 && f.Signature.Results().At(0).Type().String() == "bool"
	}},
}

// resolveAnchor: structural fallback for a helper that is not found by name.
func (w *World) resolveAnchor(pkg *ssa.Package, name string, depth int) *ssa.Function {
	spec, ok := anchorTable[name]
	if !ok || depth > 3 {
		return nil
	}
	var from *ssa.Function
	if spec.fromType != "" {
		from = w.MethodOpt(pkg, spec.fromType, spec.fromFunc)
	} else {
		from = pkg.Func(spec.fromFunc)
		if from == nil {
			from = w.resolveAnchor(pkg, spec.fromFunc, depth+1)
		}
	}
	if from == nil || from.Blocks == nil {
		return nil
	}
	var found []*ssa.Function
	seen := map[*ssa.Function]bool{}
	withClosures(from, func(f *ssa.Function) {
		for _, b := range f.Blocks {
			for _, in := range b.Instrs {
				c, ok := in.(ssa.CallInstruction)
				if !ok {
					continue
				}
				sf := staticCallee(c)
				if sf == nil || sf.Parent() != nil || fnPkg(sf) != pkg.Pkg || seen[sf] || sf.Blocks == nil {
					continue
				}
				seen[sf] = true
				if spec.pick(sf) {
					found = append(found, sf)
				}
			}
		}
	})
	if len(found) == 1 {
		return found[0]
	}
	return nil
}

// helperIs: fn plays the named helper role — found by its current name, or,
// if a maintainer renamed it, by its shape.
func (w *World) helperIs(fn *ssa.Function, role string) bool {
	if fn == nil {
		return false
	}
	fn = origin(fn)
	if fn.Name() == role {
		return true
	}
	pkgT := fnPkg(fn)
	if pkgT == nil {
		return false
	}
	var pkg *ssa.Package
	for _, p := range w.SSA {
		if p.Pkg == pkgT {
			pkg = p
		}
	}
	if pkg == nil {
		return false
	}
	if pkg.Func(role) != nil {
		return false // the name exists and it is another function
	}
	if _, inTable := anchorTable[role]; inTable {
		return w.resolveAnchor(pkg, role, 0) == fn
	}
	sig := fn.Signature
	assertsTo := func(tn string) bool {
		found := false
		if fn.Blocks == nil {
			return false
		}
		allInstrs(fn, func(in ssa.Instruction) {
			if ta, ok := in.(*ssa.TypeAssert); ok && typeName(ta.AssertedType) == tn {
				found = true
			}
		})
		return found
	}
	oneNodeToBool := sig.Recv() == nil && sig.Params().Len() == 1 && sig.Results().Len() == 1 &&
		typeName(sig.Params().At(0).Type()) == "JsonNode" && sig.Results().At(0).Type().String() == "bool"
	switch role {
	case "isVoid":
		return oneNodeToBool && assertsTo("voidNode")
	case "isNull":
		return oneNodeToBool && assertsTo("jsonNull")
	case "nodeList":
		return sig.Recv() == nil && sig.Variadic() && sig.Params().Len() == 1 && sig.Results().Len() == 1 &&
			strings.HasSuffix(sig.Results().At(0).Type().String(), "JsonNode") && strings.HasPrefix(sig.Results().At(0).Type().String(), "[]")
	}
	return false
}

// ---------------------------------------------------------------- method roles
//
// The unexported methods the rules talk about (patch, diff, hashCode, raw of
// the internal node interface; next, drop, isLeaf of the path type; ident,
// pathIdent of the object type) are recognised by their current name or,
// when a maintainer renamed them, by their shape.

// sigRole: role of a method signature of the internal node interface.
func sigRole(sig *types.Signature) string {
	res := sig.Results()
	switch {
	case res.Len() == 2 && typeName(res.At(0).Type()) == "JsonNode" && isErrorType(res.At(1).Type()) && sig.Params().Len() >= 5:
		return "patch"
	case res.Len() == 1 && typeName(res.At(0).Type()) == "Diff" && sig.Params().Len() >= 3 && !sig.Variadic():
		return "diff"
	case res.Len() == 1 && sig.Params().Len() == 1 && !sig.Variadic():
		if a, ok := res.At(0).Type().Underlying().(*types.Array); ok && a.Len() == 8 {
			return "hashCode"
		}
	case res.Len() == 1 && sig.Params().Len() == 0:
		if it, ok := res.At(0).Type().Underlying().(*types.Interface); ok && it.NumMethods() == 0 {
			return "raw"
		}
	}
	return ""
}

// methodIs: the (interface or concrete) method m plays the named role.
func methodIs(m *types.Func, role string) bool {
	if m == nil {
		return false
	}
	if m.Name() == role {
		return true
	}
	if m.Exported() {
		return false
	}
	sig, ok := m.Type().(*types.Signature)
	if !ok || sig.Recv() == nil {
		return false
	}
	switch role {
	case "patch", "diff", "hashCode", "raw":
		return m.Name() == ifaceRoleName(m.Pkg(), role)
	}
	return false
}

func hasMethodNamed(t types.Type, name string) bool {
	if p, ok := t.(*types.Pointer); ok {
		t = p.Elem()
	}
	if it, ok := t.Underlying().(*types.Interface); ok {
		for i := 0; i < it.NumMethods(); i++ {
			if it.Method(i).Name() == name {
				return true
			}
		}
		return false
	}
	if n, ok := t.(*types.Named); ok {
		for i := 0; i < n.NumMethods(); i++ {
			if n.Method(i).Name() == name {
				return true
			}
		}
	}
	return false
}

// fnIs: the function or method fn plays the named role.
func (w *World) fnIs(fn *ssa.Function, role string) bool {
	if fn == nil {
		return false
	}
	fn = origin(fn)
	if fn.Name() == role {
		return true
	}
	if obj, _ := fn.Object().(*types.Func); obj != nil && obj.Exported() {
		return false
	}
	sig := fn.Signature
	recvName := ""
	if sig.Recv() != nil {
		recvName = typeName(sig.Recv().Type())
		if hasMethodNamed(sig.Recv().Type(), role) {
			return false
		}
	} else if p := fnPkg(fn); p != nil && p.Scope().Lookup(role) != nil {
		return false
	}
	isPath := recvName == "Path" || recvName == "path"
	switch role {
	case "patch", "diff", "hashCode", "raw":
		if sig.Recv() != nil {
			// a method: the one implementing the interface method of that shape
			return fn.Name() == ifaceRoleName(fnPkg(fn), role)
		}
		return w.helperIs(fn, role)
	case "next":
		return isPath && sig.Params().Len() == 0 && sig.Results().Len() == 3
	case "drop":
		return isPath && sig.Params().Len() == 0 && sig.Results().Len() == 1 && typeName(sig.Results().At(0).Type()) == recvName && fn.Blocks != nil && returnsPrefix(fn)
	case "isLeaf":
		return isPath && sig.Params().Len() == 0 && sig.Results().Len() == 1 && sig.Results().At(0).Type().String() == "bool"
	case "ident":
		return recvName == "jsonObject" && sig.Params().Len() == 1 && sig.Results().Len() == 1 && isDigestType(sig.Results().At(0).Type()) && fn.Name() != ifaceRoleName(fnPkg(fn), "hashCode")
	case "pathIdent":
		return recvName == "jsonObject" && sig.Params().Len() == 2 && sig.Results().Len() == 1 && isDigestType(sig.Results().At(0).Type())
	case "getPatchStrategy":
		return sig.Recv() == nil && sig.Params().Len() == 1 && sig.Results().Len() == 1 && typeName(sig.Results().At(0).Type()) == "patchStrategy"
	case "checkOption":
		return sig.Recv() == nil && fn.TypeParams().Len() == 1 && sig.Results().Len() == 1 && sig.Results().At(0).Type().String() == "bool"
	case "getOption":
		return sig.Recv() == nil && fn.TypeParams().Len() == 1 && sig.Results().Len() == 2
	}
	return w.helperIs(fn, role)
}

func isDigestType(t types.Type) bool {
	a, ok := t.Underlying().(*types.Array)
	return ok && a.Len() == 8
}

// returnsPrefix: every return of fn is its receiver cut with a high bound.
func returnsPrefix(fn *ssa.Function) bool {
	ok := false
	for _, ret := range returnsOf(fn) {
		sl, isSl := strip(ret.Results[0]).(*ssa.Slice)
		if isSl && sl.High != nil {
			ok = true
		}
	}
	return ok
}
