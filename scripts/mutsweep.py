#!/usr/bin/env python3
"""First-order mutation sweep (development aid; not a registered check).

usage: mutsweep.py <muts.jsonl> <out.jsonl> [workers]

Every mutant (bin/mutate list) is applied to a private scratch copy of /repo,
built, and run against the pinned suite.  For the survivors -- changes the
suite cannot see -- `jdlint -property all` is run on the scratch copy and the
non-discharged obligations that are not on the unchanged tree are recorded.
Survivors with no new obligation are candidate misses (or equivalent mutants);
they are triaged by hand.  Nothing here decides a property: the deciding step
stays the static rules; the sweep only measures them.
"""
import json, os, subprocess, sys, tempfile, shutil, threading
from concurrent.futures import ThreadPoolExecutor

MUTS, OUT = sys.argv[1], sys.argv[2]
WORKERS = int(sys.argv[3]) if len(sys.argv) > 3 else 6
JDLINT = os.environ.get('JDLINT', '/verif/bin/jdlint')
ENV = dict(os.environ, GOFLAGS='-mod=mod', GOPROXY='off')
for k in ('GOSUMDB', 'GOTOOLCHAIN', 'GOWORK'):
    ENV.pop(k, None)
LINTENV = dict(os.environ, GOFLAGS='-mod=mod', GOPROXY='off', GOWORK='off', GOTOOLCHAIN='local',
               PATH='/opt/veriftools/go1.26.8/bin:' + os.environ['PATH'])

def lint(root):
    p = subprocess.run([JDLINT, '-property', 'all', '-root', root], capture_output=True, text=True, env=LINTENV)
    res = {}
    for l in p.stdout.splitlines():
        if l.startswith('{'):
            d = json.loads(l)
            res[d['property']] = set((o['rule'], o['construct']) for o in (d.get('bad') or []))
    if len(res) != 18:
        return None, (p.stdout + p.stderr)[-400:]
    return res, ''

base, err = lint('/repo')
assert base is not None, err
done = set()
if os.path.exists(OUT):
    for l in open(OUT):
        done.add(json.loads(l)['id'])
muts = [json.loads(l) for l in open(MUTS)]
muts = [m for m in muts if m['id'] not in done]
lock = threading.Lock()
local = threading.local()
scratches = []

def scratch():
    if not hasattr(local, 'dir'):
        local.dir = tempfile.mkdtemp(prefix='mutsweep.')
        subprocess.run(['rsync', '-a', '--exclude', '.git', '/repo/', local.dir + '/'], check=True)
        scratches.append(local.dir)
    return local.dir

def run(m):
    s = scratch()
    f = os.path.join(s, m['file'])
    shutil.copyfile(os.path.join('/repo', m['file']), f)
    rec = dict(m)
    try:
        p = subprocess.run(['/verif/bin/mutate', 'apply', s, json.dumps(m)], capture_output=True, text=True)
        if p.returncode != 0:
            rec['status'] = 'apply-failed'
            return rec
        if m['file'].startswith('v2/'):
            t = subprocess.run(['go', 'test', '-vet=off', '-count=1', '-failfast', '-timeout', '120s', '.', './jd'],
                               cwd=os.path.join(s, 'v2'), capture_output=True, text=True, env=ENV)
        else:
            t = subprocess.run(['go', 'test', '-vet=off', '-count=1', '-failfast', '-timeout', '120s', '.', './lib'],
                               cwd=s, capture_output=True, text=True, env=ENV)
        if t.returncode != 0:
            rec['status'] = 'nobuild' if '[build failed]' in t.stdout else 'killed'
            return rec
        t = subprocess.run(['/verif/scripts/baseline.sh', s], capture_output=True, text=True)
        if t.returncode != 0:
            rec['status'] = 'killed'
            return rec
        res, err = lint(s)
        if res is None:
            rec['status'] = 'lint-error'
            rec['err'] = err
            return rec
        new = {}
        for pid, bad in res.items():
            d = sorted(bad - base[pid])
            if d:
                new[pid] = d
        rec['status'] = 'survived'
        rec['flagged'] = new
        return rec
    finally:
        shutil.copyfile(os.path.join('/repo', m['file']), f)

with ThreadPoolExecutor(WORKERS) as ex, open(OUT, 'a') as out:
    for rec in ex.map(run, muts):
        with lock:
            out.write(json.dumps(rec) + '\n')
            out.flush()
for s in scratches:
    shutil.rmtree(s, ignore_errors=True)
