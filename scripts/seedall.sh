#!/bin/bash
# usage: seedall.sh  — runs every seed under /tmp/seed (or /verif/seeded) against its property, prints one line per seed
DIR=${1:-/tmp/seed}
for d in $(ls -d $DIR/C??-? 2>/dev/null | sort -u); do
  id=$(basename $d); p=${id%%-*}
  [ -f /tmp/baseline_bad_$p.json ] || /verif/scripts/basebad.sh $p >/dev/null 2>&1
  out=$(/verif/scripts/seedcheck.sh $d $p 2>&1)
  suite=$(echo "$out" | grep -A2 "suite WITH" | grep "not passing now" | awk '{print $NF}')
  news=$(echo "$out" | grep -c "   NEW \[")
  echo "$out" | grep -q "CHECKER-ERROR" && news="ERR($(echo "$out" | grep -m1 CHECKER-ERROR | cut -c1-120))"
  first=$(echo "$out" | grep -m1 "   NEW \[" | cut -c1-160)
  demoWith=$(echo "$out" | sed -n '/demo WITH change/,/check/p' | grep -c "^FAIL\|--- FAIL")
  demoWithout=$(echo "$out" | sed -n '/demo WITHOUT change/,/suite WITH/p' | grep -c "^FAIL\|--- FAIL")
  echo "$id suite_notpassing=$suite demo_fail_with=$demoWith demo_fail_without=$demoWithout NEW=$news $first"
done
