package main

// Rules added after the ninth round of independently seeded changes. Each is a
// necessary condition stated on the shape of the code; none matches names of
// locals, text or positions.

import (
	"fmt"
	"go/token"
	"go/types"
	"strings"

	"golang.org/x/tools/go/ssa"
)

// ---------------------------------------------------------------- R-EVERYHUNK

// latchReachableAvoiding: inside loop l, can control get from the header back
// to the header (round the loop once) without entering any of the blocks in
// avoid? Paths that leave the loop (returns, breaks) do not count.
func latchReachableAvoiding(l *Loop, avoid map[*ssa.BasicBlock]bool) bool {
	if avoid[l.Header] {
		return false
	}
	seen := map[*ssa.BasicBlock]bool{l.Header: true}
	work := []*ssa.BasicBlock{l.Header}
	for len(work) > 0 {
		b := work[len(work)-1]
		work = work[:len(work)-1]
		for _, s := range b.Succs {
			if s == l.Header {
				return true
			}
			if !l.Blocks[s] || avoid[s] || seen[s] {
				continue
			}
			seen[s] = true
			work = append(work, s)
		}
	}
	return false
}

// ruleEveryHunk — a routine that walks a diff hunk by hunk treats every hunk:
// where the per-hunk action (the nested patch call in patchAll; the store of
// the hunk into the diff that RenderMerge patches the empty document with) is
// performed on some way round the loop, no other way round the same loop
// bypasses it. A hunk that is silently skipped on a condition on its values
// (nothing to remove and nothing to add, a path seen before) is a hunk the
// patch result / the rendered document no longer reflects; a SET+MERGE diff
// towards the void document consists of exactly one such hunk.
func ruleEveryHunk(w *World, r *Report, pf *patchFamily) {
	rule := "R-EVERYHUNK"
	if pf.tag == "lib" {
		rule += "(lib)"
	}
	// (a) the driver
	drv := pf.driver
	r.Fn(fnName(drv))
	loops := loopsOf(drv)
	calls := pf.familyCalls(drv)
	byLoop := map[*Loop]map[*ssa.BasicBlock]bool{}
	for _, pc := range calls {
		if pc.in != drv {
			continue
		}
		l := innermostLoop(loops, pc.call.Block())
		if l == nil {
			continue
		}
		if byLoop[l] == nil {
			byLoop[l] = map[*ssa.BasicBlock]bool{}
		}
		byLoop[l][pc.call.Block()] = true
	}
	if len(byLoop) == 0 {
		r.Bad(rule, fnName(drv)+":applies-every-hunk", w.Pos(drv.Pos()), "no loop of the driver hands the hunks to the patch functions one by one")
	}
	k := 0
	for _, l := range loops {
		sites := byLoop[l]
		if sites == nil {
			continue
		}
		k++
		key := fmt.Sprintf("%s:applies-every-hunk#%d", fnName(drv), k)
		r.Check(!latchReachableAvoiding(l, sites), rule, key, w.Pos(l.Header.Instrs[0].Pos()),
			"every way round the hunk loop passes the nested patch call (or leaves the loop)",
			"the hunk loop can go on to the next hunk without having handed the current one to the patch functions: a hunk is skipped without an error — a merge diff towards the void document under SET/MULTISET consists of one hunk with nothing to remove and nothing to add")
	}
	// (b) RenderMerge: the diff handed to Patch / patchAll
	rm := w.MethodOpt(pf.pkg, "Diff", "RenderMerge")
	if rm == nil || rm.Blocks == nil || len(rm.Params) == 0 {
		return
	}
	r.Fn(fnName(rm))
	own := rm.Params[0]
	rloops := loopsOf(rm)
	// loops that walk the receiver: contain a Range/Next over it or an index into it
	walksOwn := func(l *Loop) bool {
		for b := range l.Blocks {
			for _, in := range b.Instrs {
				switch x := in.(type) {
				case *ssa.Next:
					if rg, ok := x.Iter.(*ssa.Range); ok && strip(rg.X) == ssa.Value(own) {
						return true
					}
				case *ssa.IndexAddr:
					if strip(x.X) == ssa.Value(own) {
						return true
					}
				case *ssa.Index:
					if strip(x.X) == ssa.Value(own) {
						return true
					}
				}
			}
		}
		return false
	}
	isDiffSlice := func(t types.Type) bool {
		s, ok := t.Underlying().(*types.Slice)
		if !ok {
			return false
		}
		n := namedOf(s.Elem())
		return n != nil && n.Obj().Name() == "DiffElement" && n.Obj().Pkg() == pf.pkg.Pkg
	}
	k = 0
	for _, l := range rloops {
		if !walksOwn(l) || innermostLoopIsInner(rloops, l) {
			continue
		}
		sites := map[*ssa.BasicBlock]bool{}
		for b := range l.Blocks {
			for _, in := range b.Instrs {
				switch x := in.(type) {
				case *ssa.Store:
					// merge[i] = e : element store into a diff other than the receiver
					if ia, ok := x.Addr.(*ssa.IndexAddr); ok && isDiffSlice(ia.X.Type()) && !sliceOf(ia.X, own, map[ssa.Value]bool{}) {
						sites[b] = true
					}
				case *ssa.Call:
					if bi, ok := x.Call.Value.(*ssa.Builtin); ok && bi.Name() == "append" && isDiffSlice(x.Type()) && !sliceOf(x.Call.Args[0], own, map[ssa.Value]bool{}) {
						sites[b] = true
					}
				}
			}
		}
		if len(sites) == 0 {
			continue // the rendered diff is not assembled hunk by hunk in this loop
		}
		k++
		key := fmt.Sprintf("%s:renders-every-hunk#%d", fnName(rm), k)
		r.Check(!latchReachableAvoiding(l, sites), rule, key, w.Pos(l.Header.Instrs[0].Pos()),
			"every way round the loop over the diff stores the current hunk into the diff that is rendered (or leaves the loop)",
			"the loop over the diff can go on to the next hunk without storing the current one into the diff that is rendered: the merge patch document no longer says what the skipped hunk says")
	}
}

// sliceOf: v is p itself, a re-slice of it, or a phi of such values.
func sliceOf(v, p ssa.Value, seen map[ssa.Value]bool) bool {
	v = strip(v)
	if v == p {
		return true
	}
	if seen[v] {
		return false
	}
	seen[v] = true
	switch x := v.(type) {
	case *ssa.Slice:
		return sliceOf(x.X, p, seen)
	case *ssa.Phi:
		for _, e := range x.Edges {
			if sliceOf(e, p, seen) {
				return true
			}
		}
	}
	return false
}

// innermostLoopIsInner: l is nested inside another loop of the list that also
// qualifies — only outermost loops over the diff are looked at.
func innermostLoopIsInner(loops []*Loop, l *Loop) bool {
	for _, o := range loops {
		if o != l && o.Blocks[l.Header] && len(o.Blocks) > len(l.Blocks) {
			return true
		}
	}
	return false
}

// ---------------------------------------------------------------- R-NOTIGNORED through a helper

// ruleNotIgnoredVia extends R-NOTIGNORED to results that come out of a helper:
// when a patch function reports success and returns h(node, …) where the
// in-package helper h may hand back its parameter bound to the node, then
// inside h every such return lies behind `len(x) == 0` of a parameter bound to
// the hunk's new value asserted to a map (the one hunk — merging {} — whose
// meaning is "no change"), and the call lies behind a merge edge. Otherwise a
// hunk that carries a value is silently dropped where the target happens to
// be of some kind (for instance: an object never replaces an object).
func ruleNotIgnoredVia(w *World, r *Report, pf *patchFamily) {
	rule := "R-NOTIGNORED"
	if pf.tag == "lib" {
		rule += "(lib)"
	}
	for _, fn := range pf.functions() {
		own := fn.Params[0]
		d := NewDeriv(w, fn)
		newP := pf.roleParam(fn, "newValues")
		k := 0
		for _, ret := range returnsOf(fn) {
			if !isNilErrReturn(ret) {
				continue
			}
			call, ok := strip(ret.Results[0]).(*ssa.Call)
			if !ok {
				continue
			}
			h := staticCallee(call)
			if h == nil || h.Blocks == nil || pf.member[h] || h == pf.driver || fnPkg(h) != pf.pkg.Pkg || h.Parent() != nil {
				continue
			}
			args := call.Call.Args
			if len(args) != len(h.Params) {
				continue
			}
			for j, a := range args {
				if strip(a) != ssa.Value(own) {
					continue
				}
				// does h hand back parameter j?
				var back []*ssa.Return
				for _, hr := range returnsOf(h) {
					if len(hr.Results) > 0 && mayBe(hr.Results[0], h.Params[j], map[ssa.Value]bool{}) {
						back = append(back, hr)
					}
				}
				if len(back) == 0 {
					continue
				}
				k++
				r.Fn(fnName(fn))
				key := fmt.Sprintf("%s:returns-input-via(%s)#%d", fnName(fn), fnName(h), k)
				// parameters of h bound to the hunk's new value
				newIdx := map[int]bool{}
				if newP != nil {
					for i, b := range args {
						if i != j && d.HasRoot(b, newP) {
							newIdx[i] = true
						}
					}
				}
				hd := NewDeriv(w, h)
				good := len(newIdx) > 0
				for _, hr := range back {
					if !behindEmptyMapOf(h, hd, hr, newIdx) {
						good = false
					}
				}
				if good {
					// and the call itself only under merge
					x := &expectCtx{w: w, pf: pf, fn: fn, d: d, ea: newErrAnalysis(w), lps: loopsOf(fn)}
					behindMerge := false
					if pf.roleParam(fn, "strategy") != nil {
						for e := range x.mergeEdges() {
							if edgeDominates(e, call.Block()) {
								behindMerge = true
							}
						}
					}
					good = behindMerge
				}
				r.Check(good, rule, key, w.Pos(ret.Pos()),
					"the helper hands the node back unchanged only where the hunk's value is known to be an empty object, and is called only under merge strategy (RFC 7386, MergePatch(T, {}) = T)",
					"success is reported with the result of a helper that can hand back the very node that was passed in where the hunk's value is not known to be an empty object: a hunk that carries a value is silently ignored for some targets")
			}
		}
	}
}

// mayBe: v may be the value p (through phis and value-preserving conversions).
func mayBe(v, p ssa.Value, seen map[ssa.Value]bool) bool {
	v = strip(v)
	if v == p {
		return true
	}
	if seen[v] {
		return false
	}
	seen[v] = true
	switch x := v.(type) {
	case *ssa.Phi:
		for _, e := range x.Edges {
			if mayBe(e, p, seen) {
				return true
			}
		}
	case *ssa.MakeInterface:
		return mayBe(x.X, p, seen)
	case *ssa.ChangeInterface:
		return mayBe(x.X, p, seen)
	case *ssa.TypeAssert:
		return mayBe(x.X, p, seen)
	case *ssa.Extract:
		if ta, ok := x.Tuple.(*ssa.TypeAssert); ok && x.Index == 0 {
			return mayBe(ta.X, p, seen)
		}
	}
	return false
}

// behindEmptyMapOf: ret is dominated by the true edge of len(x) == 0 (or the
// false edge of len(x) != 0 / len(x) > 0) where x is a parameter of the given
// indices asserted to a map type.
func behindEmptyMapOf(h *ssa.Function, hd *Deriv, ret *ssa.Return, idx map[int]bool) bool {
	for _, b := range h.Blocks {
		cond, tE, fE, ok := branchEdges(b)
		if !ok {
			continue
		}
		bo, ok := cond.(*ssa.BinOp)
		if !ok {
			continue
		}
		k, okK := constInt(bo.Y)
		c, okL := isBuiltinCall(strip(bo.X), "len")
		if !okK || !okL {
			continue
		}
		var e Edge
		switch {
		case bo.Op == token.EQL && k == 0, bo.Op == token.LSS && k == 1, bo.Op == token.LEQ && k == 0:
			e = tE
		case bo.Op == token.NEQ && k == 0, bo.Op == token.GTR && k == 0, bo.Op == token.GEQ && k == 1:
			e = fE
		default:
			continue
		}
		if !edgeDominates(e, ret.Block()) {
			continue
		}
		v := strip(c.Call.Args[0])
		if ex, ok := v.(*ssa.Extract); ok && ex.Index == 0 {
			v = ex.Tuple
		}
		ta, ok := v.(*ssa.TypeAssert)
		if !ok {
			continue
		}
		if _, isMap := ta.AssertedType.Underlying().(*types.Map); !isMap {
			continue
		}
		for i := range idx {
			if i < len(h.Params) && hd.HasRoot(ta.X, h.Params[i]) {
				return true
			}
		}
	}
	return false
}

// ---------------------------------------------------------------- R-PTRDECODED

// rulePtrDecoded — the JSON Pointer reader takes its reference tokens from the
// pointer library's decoder (DecodedTokens / Unescape): RFC 6901 fixes the
// order in which "~1" and "~0" are decoded, and a hand-written decoder that
// gets it the other way round turns the key "~1" (written "~01") into "/".
// Who-may-decode rule: the path the reader returns derives from a call into
// the pointer package's decoding functions.
func rulePtrDecoded(w *World, r *Report, pkg *ssa.Package, tag string) {
	rule := "R-PTRREAD"
	if tag == "lib" {
		rule += "(lib)"
	}
	fn := w.Func(pkg, "readPointer")
	r.Fn(fnName(fn))
	d := NewDeriv(w, fn)
	var dec []ssa.Value
	allInstrs(fn, func(in ssa.Instruction) {
		c, ok := in.(*ssa.Call)
		if !ok {
			return
		}
		n := calleeFullName(c)
		if strings.Contains(n, "github.com/go-openapi/jsonpointer") && (strings.HasSuffix(n, ".DecodedTokens") || strings.HasSuffix(n, ".Unescape")) {
			dec = append(dec, c)
		}
	})
	ok := false
	for _, ret := range returnsOf(fn) {
		if len(ret.Results) == 0 || isNilConst(ret.Results[0]) {
			continue
		}
		for _, c := range dec {
			if d.HasRoot(ret.Results[0], c) {
				ok = true
			}
		}
	}
	r.Check(ok, rule, fnName(fn)+":decoded-tokens", w.Pos(fn.Pos()),
		"the path that is returned derives from the pointer library's decoded tokens",
		"the reference tokens are not decoded by the pointer library (DecodedTokens / Unescape): escapes are handled by hand or not at all, and keys containing '~' or '/' can be misread")
}

// ---------------------------------------------------------------- R-HUNKGLOBAL

// ruleHunkNoGlobal — no hunk shares a mutable value with other hunks through
// a package-level variable: Patch works in place (an object placed in a
// document by one hunk is written into by the next), so a map or slice that
// sits in a package variable and is stored into the value lists of every hunk
// of some kind carries the writes of one Patch into the next diff that is
// read in the same process.
func ruleHunkNoGlobal(w *World, r *Report, pkg *ssa.Package, tag string, fields ...string) {
	rule := "R-HUNKGLOBAL"
	if tag == "lib" {
		rule += "(lib)"
	}
	isField := map[string]bool{}
	for _, f := range fields {
		isField[f] = true
	}
	n := 0
	for _, fn := range w.FuncsOf(pkg) {
		if fn.Blocks == nil {
			continue
		}
		var d *Deriv
		bad := ""
		has := false
		withClosures(fn, func(f *ssa.Function) {
			allInstrs(f, func(in ssa.Instruction) {
				st, ok := in.(*ssa.Store)
				if !ok {
					return
				}
				fa, ok := st.Addr.(*ssa.FieldAddr)
				if !ok {
					return
				}
				pt, ok := fa.X.Type().Underlying().(*types.Pointer)
				if !ok {
					return
				}
				nm := namedOf(pt.Elem())
				if nm == nil || nm.Obj().Name() != "DiffElement" || nm.Obj().Pkg() != pkg.Pkg {
					return
				}
				if !isField[fieldName(pt.Elem(), fa.Field)] {
					return
				}
				has = true
				if d == nil {
					d = NewDeriv(w, fn)
				}
				for root := range d.Roots(st.Val) {
					if g, ok := root.(*ssa.Global); ok && g.Pkg == pkg {
						if isMutableRef(g.Type().(*types.Pointer).Elem()) {
							bad = fmt.Sprintf("%s (stored at %s)", g.Name(), w.Pos(st.Pos()))
						}
					}
				}
			})
		})
		if !has {
			continue
		}
		n++
		r.Fn(fnName(fn))
		r.Check(bad == "", rule, fnName(fn)+":hunk-values-not-shared", w.Pos(fn.Pos()),
			"no value list of a hunk built here is drawn from a package-level variable",
			"a hunk's value list is drawn from the package-level variable "+bad+": Patch writes into the values it places in a document, so every later diff built in this process sees those writes")
	}
	if n < 3 {
		r.Bad(rule, tag+":instance-floor", "-", fmt.Sprintf("only %d functions that fill hunk value lists were found", n))
	}
}

// isMutableRef: a slice, map or pointer, or an interface (which can hold one).
func isMutableRef(t types.Type) bool {
	switch t.Underlying().(type) {
	case *types.Slice, *types.Map, *types.Pointer, *types.Interface:
		return true
	}
	return false
}

// ---------------------------------------------------------------- R-NOEMPTY (scalar, strict side)

// ruleScalarDiffStrict — in the shared scalar diff the empty diff is returned
// on the Equals-true side ONLY: no return reachable from the Equals-false edge
// hands back an empty diff. (The existing clause of R-NOEMPTY asks for one
// non-empty return there; a second test — equal renderings, equal digests —
// that also ends in the empty diff makes Diff empty for documents Equals tells
// apart.)
func ruleScalarDiffStrict(w *World, r *Report, pkg *ssa.Package, tag string) {
	rule := "R-NOEMPTY"
	if tag == "lib" {
		rule += "(lib)"
	}
	fn := w.FuncOpt(pkg, "diff")
	if fn == nil || len(fn.Params) < 2 {
		return
	}
	r.Fn(fnName(fn))
	found := false
	bad := ""
	for _, b := range fn.Blocks {
		cond, _, fE, okb := branchEdges(b)
		if !okb {
			continue
		}
		c, isCall := cond.(*ssa.Call)
		if !isCall || !c.Call.IsInvoke() || c.Call.Method.Name() != "Equals" {
			continue
		}
		found = true
		// the accumulated diff the function starts from (returned untouched on the true side)
		for blk := range reachFrom(fE.To(), nil) {
			ret, isRet := blk.Instrs[len(blk.Instrs)-1].(*ssa.Return)
			if !isRet || len(ret.Results) == 0 {
				continue
			}
			if isEmptySlice(ret.Results[0]) || returnedOnTrueSide(fn, cond, ret.Results[0]) {
				bad = w.Pos(ret.Pos())
			}
		}
	}
	if !found {
		return // the existing clause reports the missing branch
	}
	r.Check(bad == "", rule, fnName(fn)+":empty-only-if-equal", w.Pos(fn.Pos()),
		"no return on the Equals-false side of the scalar diff hands back the empty diff",
		"a return on the Equals-false side of the scalar diff (at "+bad+") hands back the same empty diff as the Equals-true side: Diff is empty for two values Equals tells apart")
}

// returnedOnTrueSide: v is the very value some return on the Equals-true side
// returns (the untouched accumulator).
func returnedOnTrueSide(fn *ssa.Function, cond ssa.Value, v ssa.Value) bool {
	for _, b := range fn.Blocks {
		c, tE, _, ok := branchEdges(b)
		if !ok || c != cond {
			continue
		}
		if tE.To() == nil {
			continue
		}
		for blk := range reachFrom(tE.To(), nil) {
			if len(blk.Preds) > 1 {
				continue // join blocks are not exclusively on the true side
			}
			if ret, isRet := blk.Instrs[len(blk.Instrs)-1].(*ssa.Return); isRet && len(ret.Results) > 0 {
				if strip(ret.Results[0]) == strip(v) {
					return true
				}
			}
		}
	}
	return false
}
