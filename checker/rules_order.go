package main

import (
	"fmt"
	"go/token"
	"go/types"
	"sort"
	"strings"

	"golang.org/x/tools/go/ssa"
)

// sorterArg: if c is a call that sorts one of its arguments in place before
// doing anything else with it, return that argument.
func (w *World) sorterArg(c ssa.CallInstruction, depth int) ssa.Value {
	com := c.Common()
	name := calleeFullName(c)
	switch name {
	case "sort.Strings", "sort.Ints", "sort.Float64s", "sort.Sort", "sort.Stable", "sort.Slice", "sort.SliceStable",
		"slices.Sort", "slices.SortFunc", "slices.SortStableFunc",
		"golang.org/x/exp/slices.Sort", "golang.org/x/exp/slices.SortFunc", "golang.org/x/exp/slices.SortStableFunc":
		if len(com.Args) > 0 {
			if !comparatorIsPlain(w, c, name) {
				return nil // ordered by a derived key: ties keep the order the elements arrived in
			}
			return strip(com.Args[0])
		}
	}
	// in-package helper whose first use of a parameter is to sort it
	sf := staticCallee(c)
	if sf == nil || sf.Blocks == nil || depth > 2 || com.IsInvoke() {
		return nil
	}
	if _, isClosure := com.Value.(*ssa.MakeClosure); isClosure {
		return nil
	}
	for pi, p := range sf.Params {
		if pi >= len(com.Args) {
			break
		}
		if _, isSlice := p.Type().Underlying().(*types.Slice); !isSlice {
			continue
		}
		if sortedBeforeUse(w, sf, p, depth+1) {
			return strip(com.Args[pi])
		}
	}
	return nil
}

// sortedBeforeUse: inside fn, every use of slice value v (other than len/cap)
// comes after a call that sorts v.
func sortedBeforeUse(w *World, fn *ssa.Function, v ssa.Value, depth int) bool {
	var sorter ssa.Instruction
	var uses []ssa.Instruction
	var visit func(x ssa.Value)
	seen := map[ssa.Value]bool{}
	visit = func(x ssa.Value) {
		if seen[x] || x.Referrers() == nil {
			return
		}
		seen[x] = true
		for _, ref := range *x.Referrers() {
			switch r := ref.(type) {
			case *ssa.DebugRef:
			case *ssa.MakeInterface:
				visit(r)
			case *ssa.ChangeType:
				visit(r)
			case *ssa.Convert:
				visit(r)
			case ssa.CallInstruction:
				if b, ok := r.Common().Value.(*ssa.Builtin); ok && (b.Name() == "len" || b.Name() == "cap") {
					continue
				}
				if a := w.sorterArg(r, depth); a != nil && (a == strip(x) || a == strip(v)) {
					if sorter == nil || instrBefore(r, sorter) {
						sorter = r
					}
					continue
				}
				uses = append(uses, r)
			default:
				uses = append(uses, ref)
			}
		}
	}
	visit(v)
	if sorter == nil {
		return false
	}
	for _, u := range uses {
		if !instrBefore(sorter, u) {
			return false
		}
	}
	return true
}

type orderCheck struct {
	w   *World
	fn  *ssa.Function
	ea  *errAnalysis
	lps []*Loop
}

// bodyOrderInsensitive decides whether executing the iterations of loop l in a
// different order can change anything observable after the loop. keys are
// the per-iteration values (range key/value, or the element loaded from the
// iterated slice). Returns "" if insensitive, else the reason.
func (oc *orderCheck) bodyOrderInsensitive(l *Loop, isIterVal func(ssa.Value) bool, depth int) string {
	fn := oc.fn
	// 1. loop-carried values
	for _, in := range l.Header.Instrs {
		phi, ok := in.(*ssa.Phi)
		if !ok {
			continue
		}
		if why := oc.carriedOK(l, phi, depth); why != "" {
			return why
		}
	}
	// inner loops' own carried values are per-iteration state unless they
	// outlive the iteration; phis of inner headers whose incoming value from
	// outside the inner loop is defined outside l are carried as well.
	for _, il := range oc.lps {
		if il == l || !l.Blocks[il.Header] {
			continue
		}
		for _, in := range il.Header.Instrs {
			phi, ok := in.(*ssa.Phi)
			if !ok {
				continue
			}
			_ = phi
		}
	}
	// 2. effects inside the body
	for b := range l.Blocks {
		for _, in := range b.Instrs {
			switch x := in.(type) {
			case *ssa.Store:
				root := storeRoot(x.Addr)
				if l.definedIn(root) {
					continue // per-iteration temporary
				}
				if a, ok := root.(*ssa.Alloc); ok && !a.Heap && oc.guardedByKeyConst(l, x.Block(), isIterVal) {
					continue // keyed field store: each key writes its own field
				}
				if a, ok := root.(*ssa.Alloc); ok && oc.guardedByKeyConst(l, x.Block(), isIterVal) {
					_ = a
					continue
				}
				if a, ok := root.(*ssa.Alloc); ok && x.Addr == ssa.Value(a) && cellAppendSorted(oc.w, l, a, x) {
					continue // accumulator kept in a captured variable: only appended to, and sorted before any other use
				}
				return fmt.Sprintf("store to %s, which outlives the iteration, at %s", valueName(root), oc.w.Pos(x.Pos()))
			case *ssa.MapUpdate:
				if l.definedIn(x.Map) {
					continue
				}
				if !derivesFromIter(x.Key, isIterVal, map[ssa.Value]bool{}) {
					return fmt.Sprintf("map insert at %s whose key is not the iteration key: the last writer wins, and who is last depends on iteration order", oc.w.Pos(x.Pos()))
				}
			case *ssa.Return:
				if oc.ea.isErrorReturn(x) {
					continue
				}
				allConst := true
				for _, rv := range x.Results {
					if _, ok := rv.(*ssa.Const); !ok {
						allConst = false
					}
				}
				if !allConst {
					return fmt.Sprintf("return of a computed value from inside the loop at %s", oc.w.Pos(x.Pos()))
				}
			case *ssa.Send, *ssa.Go, *ssa.Defer:
				return fmt.Sprintf("send/go/defer inside the loop at %s", oc.w.Pos(in.Pos()))
			case *ssa.Call:
				if _, isB := x.Call.Value.(*ssa.Builtin); isB {
					continue
				}
				// a call that is handed a pointer to state living outside the
				// loop may accumulate into it in iteration order
				args := append([]ssa.Value{}, x.Call.Args...)
				if x.Call.IsInvoke() {
					args = append(args, x.Call.Value)
				}
				for _, a := range args {
					if _, isPtr := a.Type().Underlying().(*types.Pointer); !isPtr {
						if mi, ok := a.(*ssa.MakeInterface); ok {
							if _, isPtr2 := mi.X.Type().Underlying().(*types.Pointer); isPtr2 {
								a = mi.X
							} else {
								continue
							}
						} else {
							continue
						}
					}
					if !l.definedIn(a) {
						return fmt.Sprintf("call to %s at %s receives a pointer to state that outlives the iteration", calleeFullName(x), oc.w.Pos(x.Pos()))
					}
				}
			}
		}
	}
	_ = fn
	return ""
}

func storeRoot(addr ssa.Value) ssa.Value {
	for {
		switch a := addr.(type) {
		case *ssa.FieldAddr:
			addr = a.X
		case *ssa.IndexAddr:
			addr = a.X
		case *ssa.Slice:
			addr = a.X
		default:
			return addr
		}
	}
}

func derivesFromIter(v ssa.Value, isIterVal func(ssa.Value) bool, seen map[ssa.Value]bool) bool {
	v = strip(v)
	if seen[v] {
		return false
	}
	seen[v] = true
	if isIterVal(v) {
		return true
	}
	switch x := v.(type) {
	case *ssa.TypeAssert:
		return derivesFromIter(x.X, isIterVal, seen)
	case *ssa.Extract:
		if ta, ok := x.Tuple.(*ssa.TypeAssert); ok && x.Index == 0 {
			return derivesFromIter(ta.X, isIterVal, seen)
		}
	case *ssa.UnOp:
		if x.Op == token.MUL {
			if a, ok := x.X.(*ssa.Alloc); ok {
				if s, ok := singleStore(a); ok {
					return derivesFromIter(s, isIterVal, seen)
				}
			}
		}
	}
	return false
}

// guardedByKeyConst: block b (inside loop l) is only reached over the true
// edge of `iterationKey == constant`.
func (oc *orderCheck) guardedByKeyConst(l *Loop, b *ssa.BasicBlock, isIterVal func(ssa.Value) bool) bool {
	for blk := range l.Blocks {
		cond, t, fEdge, ok := branchEdges(blk)
		if !ok {
			continue
		}
		bo, ok := cond.(*ssa.BinOp)
		if !ok || (bo.Op != token.EQL && bo.Op != token.NEQ) {
			continue
		}
		if bo.Op == token.NEQ {
			t = fEdge // key != const: the false edge is where the key is known
		}
		var k, c ssa.Value = bo.X, bo.Y
		if _, isC := k.(*ssa.Const); isC {
			k, c = c, k
		}
		if _, isC := c.(*ssa.Const); !isC {
			continue
		}
		if !derivesFromIter(k, isIterVal, map[ssa.Value]bool{}) {
			continue
		}
		if edgeDominates(t, b) {
			return true
		}
	}
	return false
}

// carriedOK: a value carried from one iteration to the next (phi at the loop
// header) must not expose the order: an integer accumulator, or a slice that
// is only appended to and is sorted (or consumed by an order-insensitive
// loop) before anything else looks at it.
func (oc *orderCheck) carriedOK(l *Loop, phi *ssa.Phi, depth int) string {
	// values that do not change in the loop are not carried
	changes := false
	for i, e := range phi.Edges {
		if l.Blocks[phi.Block().Preds[i]] && e != ssa.Value(phi) {
			changes = true
		}
	}
	if !changes {
		return ""
	}
	switch t := phi.Type().Underlying().(type) {
	case *types.Basic:
		if t.Info()&types.IsInteger != 0 {
			// commutative accumulation: phi + x / phi - x / induction
			for i, e := range phi.Edges {
				if !l.Blocks[phi.Block().Preds[i]] {
					continue
				}
				if !intAccum(e, phi, l, map[ssa.Value]bool{}) {
					return fmt.Sprintf("integer %s carried across iterations is not a commutative accumulation", phi.Comment)
				}
			}
			return ""
		}
	case *types.Slice:
		for i, e := range phi.Edges {
			if !l.Blocks[phi.Block().Preds[i]] {
				continue
			}
			if !appendChain(e, phi, l, map[ssa.Value]bool{}) {
				return fmt.Sprintf("slice %s carried across iterations is modified other than by append", phi.Comment)
			}
		}
		return oc.sliceConsumedUnordered(l, phi, depth)
	}
	return fmt.Sprintf("value %s (%s) is carried from one iteration to the next: its final value depends on iteration order", phi.Comment, phi.Type())
}

func intAccum(e ssa.Value, phi *ssa.Phi, l *Loop, seen map[ssa.Value]bool) bool {
	if e == ssa.Value(phi) {
		return true
	}
	if seen[e] {
		return true
	}
	seen[e] = true
	switch x := e.(type) {
	case *ssa.BinOp:
		if x.Op != token.ADD && x.Op != token.SUB {
			return false
		}
		return intAccum(x.X, phi, l, seen) && (x.Op == token.ADD || true)
	case *ssa.Phi:
		for _, pe := range x.Edges {
			if !intAccum(pe, phi, l, seen) {
				return false
			}
		}
		return true
	}
	return false
}

// appendChain: e is phi extended by zero or more appends (possibly through
// inner-loop phis).
func appendChain(e ssa.Value, phi *ssa.Phi, l *Loop, seen map[ssa.Value]bool) bool {
	if e == ssa.Value(phi) {
		return true
	}
	if seen[e] {
		return true
	}
	seen[e] = true
	switch x := e.(type) {
	case *ssa.Call:
		if b, ok := x.Call.Value.(*ssa.Builtin); ok && b.Name() == "append" {
			return appendChain(x.Call.Args[0], phi, l, seen)
		}
	case *ssa.Phi:
		for _, pe := range x.Edges {
			if !appendChain(pe, phi, l, seen) {
				return false
			}
		}
		return true
	}
	return false
}

// sliceConsumedUnordered: after loop l, the accumulated slice (phi) is sorted
// before any other use, or is only read by loops whose bodies are themselves
// order-insensitive.
func (oc *orderCheck) sliceConsumedUnordered(l *Loop, phi *ssa.Phi, depth int) string {
	if sortedBeforeUseOutside(oc.w, l, phi) {
		return ""
	}
	// every outside use is len(), or an element read inside a later loop
	// whose body is order-insensitive with respect to that element
	if depth > 2 {
		return fmt.Sprintf("slice %s accumulated in map order is used unsorted", phi.Comment)
	}
	for _, ref := range *phi.Referrers() {
		in := ref
		if _, dbg := in.(*ssa.DebugRef); dbg {
			continue
		}
		if l.Blocks[in.Block()] {
			continue
		}
		switch u := in.(type) {
		case *ssa.Call:
			if b, ok := u.Call.Value.(*ssa.Builtin); ok && (b.Name() == "len" || b.Name() == "cap") {
				continue
			}
			return fmt.Sprintf("slice %s accumulated in map order is passed unsorted to %s at %s", phi.Comment, calleeFullName(u), oc.w.Pos(u.Pos()))
		case *ssa.IndexAddr:
			l2 := innermostLoop(oc.lps, u.Block())
			if l2 == nil || l2 == l {
				return fmt.Sprintf("slice %s accumulated in map order is indexed at %s", phi.Comment, oc.w.Pos(u.Pos()))
			}
			isElem := func(v ssa.Value) bool {
				ld, ok := v.(*ssa.UnOp)
				return ok && ld.Op == token.MUL && ld.X == ssa.Value(u)
			}
			if why := oc.bodyOrderInsensitive(l2, isElem, depth+1); why != "" {
				return fmt.Sprintf("slice %s accumulated in map order feeds a loop that is order-sensitive: %s", phi.Comment, why)
			}
		case *ssa.Phi:
			// flows into another phi (e.g. after the loop): treat as use
			return fmt.Sprintf("slice %s accumulated in map order flows on unsorted at %s", phi.Comment, oc.w.Pos(u.Pos()))
		default:
			return fmt.Sprintf("slice %s accumulated in map order is used unsorted at %s", phi.Comment, oc.w.Pos(in.Pos()))
		}
	}
	return ""
}

func sortedBeforeUseOutside(w *World, l *Loop, phi *ssa.Phi) bool {
	var sorter ssa.Instruction
	var uses []ssa.Instruction
	seen := map[ssa.Value]bool{}
	var visit func(x ssa.Value)
	visit = func(x ssa.Value) {
		if seen[x] || x.Referrers() == nil {
			return
		}
		seen[x] = true
		for _, ref := range *x.Referrers() {
			if l.Blocks[ref.Block()] {
				continue
			}
			switch r := ref.(type) {
			case *ssa.DebugRef:
			case *ssa.MakeInterface:
				visit(r)
			case *ssa.ChangeType:
				visit(r)
			case *ssa.Convert:
				visit(r)
			case ssa.CallInstruction:
				if b, ok := r.Common().Value.(*ssa.Builtin); ok && (b.Name() == "len" || b.Name() == "cap") {
					continue
				}
				if a := w.sorterArg(r, 0); a != nil && (a == strip(x) || a == ssa.Value(phi)) {
					if sorter == nil || instrBefore(r, sorter) {
						sorter = r
					}
					continue
				}
				uses = append(uses, r)
			default:
				uses = append(uses, ref)
			}
		}
	}
	visit(phi)
	if sorter == nil {
		return false
	}
	for _, u := range uses {
		if !instrBefore(sorter, u) {
			return false
		}
	}
	return true
}

// ruleMapOrder: no observable order from map iteration.
func ruleMapOrder(w *World, r *Report, pkg *ssa.Package, tag string) {
	const rule = "R-MAPORDER"
	for _, fn := range w.FuncsOf(pkg) {
		var ranges []*ssa.Range
		allInstrs(fn, func(in ssa.Instruction) {
			if rg, ok := in.(*ssa.Range); ok {
				if _, isMap := rg.X.Type().Underlying().(*types.Map); isMap {
					ranges = append(ranges, rg)
				}
			}
		})
		if len(ranges) == 0 {
			continue
		}
		r.Fn(fnName(fn))
		oc := &orderCheck{w: w, fn: fn, ea: newErrAnalysis(w), lps: loopsOf(fn)}
		for i, rg := range ranges {
			key := fmt.Sprintf("%s:map-range", fnName(fn))
			if len(ranges) > 1 {
				key = fmt.Sprintf("%s:map-range#%d", fnName(fn), i+1)
			}
			pos := w.Pos(rg.Pos())
			// the loop whose header holds the Next of this Range
			var nx *ssa.Next
			for _, ref := range *rg.Referrers() {
				if n, ok := ref.(*ssa.Next); ok {
					nx = n
				}
			}
			if nx == nil {
				r.Unk(rule, key, pos, "range without next")
				continue
			}
			var l *Loop
			for _, lp := range oc.lps {
				if lp.Header == nx.Block() {
					l = lp
				}
			}
			if l == nil {
				r.Ok(rule, key, pos, "range body never iterates twice (no back edge)")
				continue
			}
			isIter := func(v ssa.Value) bool {
				ex, ok := v.(*ssa.Extract)
				return ok && ex.Tuple == ssa.Value(nx) && (ex.Index == 1 || ex.Index == 2)
			}
			why := oc.bodyOrderInsensitive(l, isIter, 0)
			r.Check(why == "", rule, key, pos,
				"loop body is order-insensitive (keyed inserts, commutative accumulation, error/constant returns, appends sorted before use)",
				"iteration order of the map becomes observable: "+why)
		}
	}
}

// ruleNoNondet: nothing reachable from the read-only API consults the clock,
// randomness or addresses.
func ruleNoNondet(w *World, r *Report, pkg *ssa.Package) {
	const rule = "R-NONDET"
	n := 0
	for _, fn := range w.FuncsOf(pkg) {
		allInstrs(fn, func(in ssa.Instruction) {
			c, ok := in.(ssa.CallInstruction)
			if !ok {
				return
			}
			sf := staticCallee(c)
			if sf == nil || fnPkg(sf) == nil {
				return
			}
			switch fnPkg(sf).Path() {
			case "time", "math/rand", "math/rand/v2", "crypto/rand":
				n++
				r.Bad(rule, fmt.Sprintf("%s→%s", fnName(fn), calleeFullName(c)), w.Pos(c.Pos()),
					"library code consults the clock or a random source: output is not a function of the inputs")
			}
		})
	}
	if n == 0 {
		r.Ok(rule, "v2:no-clock-no-random", "-", fmt.Sprintf("no call into time, math/rand or crypto/rand in %d functions of the library", len(w.FuncsOf(pkg))))
	}
	// process-global switches of third-party packages: a call from the library
	// into a function of another module that assigns a package-level variable of
	// that module (directly or in a function it calls statically) makes later
	// output depend on what was called before — e.g. yaml.FutureLineWrap()
	// permanently changes how every later yaml.Marshal folds long strings.
	setsGlobal := map[*ssa.Function]string{}
	var sets func(f *ssa.Function, depth int) string
	sets = func(f *ssa.Function, depth int) string {
		if f == nil || f.Blocks == nil || depth > 2 {
			return ""
		}
		if why, ok := setsGlobal[f]; ok {
			return why
		}
		setsGlobal[f] = ""
		why := ""
		allInstrs(f, func(in ssa.Instruction) {
			switch x := in.(type) {
			case *ssa.Store:
				if g, ok := x.Addr.(*ssa.Global); ok && why == "" {
					why = "assigns the package variable " + g.Name() + " of " + g.Pkg.Pkg.Path()
				}
			case ssa.CallInstruction:
				if why != "" {
					return
				}
				if sf := staticCallee(x); sf != nil && fnPkg(sf) == fnPkg(f) {
					if wv := sets(sf, depth+1); wv != "" {
						why = wv
					}
				}
			}
		})
		setsGlobal[f] = why
		return why
	}
	mod := func(p *types.Package) string {
		if p == nil {
			return ""
		}
		path := p.Path()
		if !strings.Contains(strings.SplitN(path, "/", 2)[0], ".") {
			return "std"
		}
		return path
	}
	ng := 0
	for _, fn := range w.FuncsOf(pkg) {
		allInstrs(fn, func(in ssa.Instruction) {
			c, ok := in.(ssa.CallInstruction)
			if !ok {
				return
			}
			sf := staticCallee(c)
			if sf == nil || fnPkg(sf) == nil || fnPkg(sf) == pkg.Pkg {
				return
			}
			m := mod(fnPkg(sf))
			if m == "std" || strings.HasPrefix(m, "github.com/josephburnett/jd") {
				return
			}
			ng++
			if why := sets(sf, 0); why != "" {
				r.Bad(rule, fmt.Sprintf("%s→%s:global-switch", fnName(fn), calleeFullName(c)), w.Pos(c.Pos()),
					"the library calls "+calleeFullName(c)+", which "+why+": a process-wide setting is changed as a side effect, so the output of later calls depends on which calls came before")
			}
		})
	}
	r.Ok(rule, "v2:no-global-switch-of-dependencies", "-", fmt.Sprintf("%d calls into third-party packages examined: none assigns a package-level variable of its module", ng))
}

// cellAppendSorted: the store appends to the slice held in cell (a variable
// that lives in a heap cell because a closure captures it), and after the loop
// the first thing done with the cell's value on every path is to sort it
// (sort.Slice(v, less) with `less` reading the same cell is the usual shape).
func cellAppendSorted(w *World, l *Loop, cell *ssa.Alloc, st *ssa.Store) bool {
	if _, isSlice := cell.Type().(*types.Pointer).Elem().Underlying().(*types.Slice); !isSlice {
		return false
	}
	// stored value: append(load(cell), ...)
	ok := false
	if c, isCall := st.Val.(*ssa.Call); isCall {
		if b, isB := c.Call.Value.(*ssa.Builtin); isB && b.Name() == "append" {
			if ld, isLd := c.Call.Args[0].(*ssa.UnOp); isLd && ld.Op == token.MUL && ld.X == ssa.Value(cell) {
				ok = true
			}
		}
	}
	if !ok {
		return false
	}
	fn := cell.Parent()
	var sorter *ssa.Call
	var loads []ssa.Instruction
	var lessFns []*ssa.Function
	for _, ref := range *cell.Referrers() {
		switch x := ref.(type) {
		case *ssa.UnOp:
			if l.Blocks[x.Block()] {
				continue
			}
			isSorterArg := false
			for _, r2 := range *x.Referrers() {
				var user ssa.Instruction = r2
				if mi, isMI := r2.(*ssa.MakeInterface); isMI {
					for _, r3 := range *mi.Referrers() {
						user = r3
					}
				}
				if c, isCall := user.(*ssa.Call); isCall && w.sorterArg(c, 0) != nil && strip(w.sorterArg(c, 0)) == ssa.Value(x) {
					if sorter == nil || instrBefore(c, sorter) {
						sorter = c
					}
					isSorterArg = true
				}
			}
			if !isSorterArg {
				loads = append(loads, x)
			}
		case *ssa.Store:
			if !l.Blocks[x.Block()] && x != st {
				// initialisation before the loop is fine; anything after must come after the sorter
				loads = append(loads, x)
			}
		case *ssa.MakeClosure:
			if f, isFn := x.Fn.(*ssa.Function); isFn {
				lessFns = append(lessFns, f)
			}
			loads = append(loads, x)
		case *ssa.DebugRef:
		default:
			return false
		}
	}
	if sorter == nil {
		return false
	}
	loopEntry := l.Header
	for _, u := range loads {
		if instrBefore(sorter, u) {
			continue
		}
		// uses before the loop (initialisation) are fine
		if u.Block().Dominates(loopEntry) && !l.Blocks[u.Block()] {
			continue
		}
		// the closure handed to the sorter
		if mc, isMC := u.(*ssa.MakeClosure); isMC {
			handed := false
			for _, a := range sorter.Call.Args {
				if a == ssa.Value(mc) {
					handed = true
				}
			}
			if handed {
				continue
			}
		}
		return false
	}
	_ = fn
	_ = lessFns
	return true
}

// comparatorIsPlain: the sort orders the elements by comparing them (or a
// field of them) directly. A comparator that first maps the elements through
// a function (strings.ToLower, a length, a hash of part of the element) is
// not a total order on the elements: distinct elements that map to the same
// key compare as equal and stay in the order in which they arrived — for a
// slice filled from a map, map iteration order. Such a sort does not count
// as "sorted before use".
func comparatorIsPlain(w *World, c ssa.CallInstruction, name string) bool {
	com := c.Common()
	var cmp *ssa.Function
	switch name {
	case "sort.Strings", "sort.Ints", "sort.Float64s", "slices.Sort", "golang.org/x/exp/slices.Sort":
		return true
	case "sort.Sort", "sort.Stable":
		// Less method of the dynamic type handed in
		arg := com.Args[0]
		if mi, ok := arg.(*ssa.MakeInterface); ok {
			if ms := w.Prog.MethodSets.MethodSet(mi.X.Type()); ms != nil {
				if sel := ms.Lookup(nil, "Less"); sel != nil {
					cmp = w.Prog.MethodValue(sel)
				}
			}
		}
		if cmp == nil {
			return true // cannot resolve: keep the previous behaviour (named sorter types of the package compare whole elements)
		}
	default:
		if len(com.Args) < 2 {
			return true
		}
		switch f := com.Args[1].(type) {
		case *ssa.MakeClosure:
			cmp, _ = f.Fn.(*ssa.Function)
		case *ssa.Function:
			cmp = f
		}
		if cmp == nil {
			return false
		}
	}
	if cmp.Blocks == nil {
		return true
	}
	plain := true
	allInstrs(cmp, func(in ssa.Instruction) {
		call, ok := in.(ssa.CallInstruction)
		if !ok {
			return
		}
		if b, isB := call.Common().Value.(*ssa.Builtin); isB && (b.Name() == "len" || b.Name() == "min" || b.Name() == "max") {
			return
		}
		switch n := calleeFullName(call); {
		case n == "strings.Compare", n == "bytes.Compare", strings.HasPrefix(n, "cmp.Compare"), n == "bytes.Equal":
		default:
			plain = false
		}
	})
	return plain
}

// ruleNoSharedScratch — R-SCRATCH. No function of the library writes into
// memory that belongs to a package-level variable (append onto, copy into,
// indexed store into, or map update of a value loaded from a global) outside
// the package initialiser. Shared scratch space makes the result of a call
// depend on calls nested inside it or running beside it: a recursive hashCode
// that builds its digest input in one package-level buffer has its outer
// prefix overwritten by the inner call.
func ruleNoSharedScratch(w *World, r *Report, pkg *ssa.Package, tag string) {
	rule := "R-SCRATCH"
	if tag != "v2" {
		rule += "(" + tag + ")"
	}
	n := 0
	var bad []string
	for _, fn := range w.FuncsOf(pkg) {
		if fn.Name() == "init" && fn.Parent() == nil {
			continue
		}
		n++
		fromGlobal := func(v ssa.Value) *ssa.Global {
			for depth := 0; depth < 8; depth++ {
				switch x := v.(type) {
				case *ssa.Slice:
					v = x.X
				case *ssa.ChangeType:
					v = x.X
				case *ssa.Convert:
					v = x.X
				case *ssa.IndexAddr:
					v = x.X
				case *ssa.FieldAddr:
					v = x.X
				case *ssa.UnOp:
					if x.Op != token.MUL {
						return nil
					}
					if g, ok := x.X.(*ssa.Global); ok {
						return g
					}
					v = x.X
				case *ssa.Global:
					return x
				default:
					return nil
				}
			}
			return nil
		}
		ownGlobal := func(g *ssa.Global) bool { return g != nil && g.Pkg == pkg }
		allInstrs(fn, func(in ssa.Instruction) {
			switch x := in.(type) {
			case *ssa.Store:
				if _, direct := x.Addr.(*ssa.Global); direct {
					if g := x.Addr.(*ssa.Global); ownGlobal(g) {
						bad = append(bad, fmt.Sprintf("%s assigns the package variable %s at %s", fnName(fn), g.Name(), w.Pos(x.Pos())))
					}
					return
				}
				if g := fromGlobal(x.Addr); ownGlobal(g) {
					bad = append(bad, fmt.Sprintf("%s stores into the package variable %s at %s", fnName(fn), g.Name(), w.Pos(x.Pos())))
				}
			case *ssa.MapUpdate:
				if g := fromGlobal(x.Map); ownGlobal(g) {
					bad = append(bad, fmt.Sprintf("%s updates the package-level map %s at %s", fnName(fn), g.Name(), w.Pos(x.Pos())))
				}
			case *ssa.Call:
				b, ok := x.Call.Value.(*ssa.Builtin)
				if !ok || len(x.Call.Args) == 0 {
					return
				}
				switch b.Name() {
				case "append", "copy":
					if g := fromGlobal(x.Call.Args[0]); ownGlobal(g) {
						if _, isSlice := x.Call.Args[0].Type().Underlying().(*types.Slice); isSlice {
							bad = append(bad, fmt.Sprintf("%s %ss into the package-level buffer %s at %s", fnName(fn), b.Name(), g.Name(), w.Pos(x.Pos())))
						}
					}
				}
			}
		})
	}
	sort.Strings(bad)
	if len(bad) > 3 {
		bad = bad[:3]
	}
	r.Check(len(bad) == 0, rule, tag+":no-writes-into-package-variables", "-",
		fmt.Sprintf("none of the %d functions of the package writes into memory of a package-level variable after initialisation", n),
		strings.Join(bad, "; ")+": state shared between calls — a nested or concurrent call overwrites what the outer call has built, so results depend on what else was computed")
}
