#!/bin/bash
# For stored patches that do not apply to /repo HEAD: find the /repo commit they were written against, commit them
# there in a scratch clone and cherry-pick onto HEAD (3-way merge). On success the regenerated diff replaces patch.diff.
ARGS0=("$@")
C=$(mktemp -d /tmp/rb3.XXXXXX); git clone -q /repo $C/r; cd $C/r
git config user.email x@x; git config user.name x
HEAD0=$(git rev-parse HEAD)
ARGS=(); for a in "$@"; do ARGS+=("$(cd /verif; realpath $a)"); done
for d in "${ARGS[@]}"; do
  d=$(realpath ${d%/}); src=$d/patch.diff; [ -f $d/patch.orig.diff ] && src=$d/patch.orig.diff
  git checkout -q $HEAD0 2>/dev/null; git reset -q --hard
  if git apply --check $d/patch.diff 2>/dev/null; then echo "$(basename $d) applies"; continue; fi
  done_=0
  for c in $(git rev-list $HEAD0); do
    git checkout -q $c 2>/dev/null
    if git apply --check $src 2>/dev/null; then
      git apply $src && git add -A && git commit -qm tmp
      t=$(git rev-parse HEAD)
      git checkout -q $HEAD0
      if git cherry-pick -n $t >/dev/null 2>&1; then
        [ -f $d/patch.orig.diff ] || cp $d/patch.diff $d/patch.orig.diff
        git diff --cached > $d/patch.diff
        echo "$(basename $d) REBASED3 (was written against $(git rev-parse --short $c))"
      else
        echo "$(basename $d) CONFLICT3 (against $(git rev-parse --short $c)): $(git diff --name-only --diff-filter=U | tr '\n' ' ')"
        git cherry-pick --abort 2>/dev/null
      fi
      git reset -q --hard; done_=1; break
    fi
  done
  [ $done_ = 0 ] && echo "$(basename $d) NOBASE"
done
cd /; rm -rf $C
