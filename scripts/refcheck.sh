#!/bin/bash
# usage: refcheck.sh <dir-with-patch.diff> [properties...]   (default: all claimed)
# Applies a behaviour-preserving refactoring to a scratch copy, runs the pinned suite and every check;
# any NEW non-discharged obligation is a false alarm of the checker.
D=$1; shift
PROPS=${@:-$(python3 -c "import json;print(' '.join(c['property_id'] for c in json.load(open('/verif/MANIFEST.json'))['checks']))")}
S=$(mktemp -d /tmp/refchk.XXXXXX); trap 'rm -rf $S' EXIT
rsync -a --exclude .git /repo/ $S/
cd $S && git init -q . 2>/dev/null
git apply $D/patch.diff 2>/dev/null || git apply --3way $D/patch.diff 2>/dev/null || patch -p1 -s < $D/patch.diff || { echo "$(basename $D) PATCH-DOES-NOT-APPLY"; exit 3; }
if [ -n "$SKIP_SUITE" ]; then suite=skipped; else suite=$(/verif/scripts/baseline.sh $S | grep "not passing now" | awk '{print $NF}'); fi
res=""
for p in $PROPS; do
  [ -f /tmp/baseline_bad_$p.json ] || /verif/scripts/basebad.sh $p >/dev/null 2>&1
  out=$(${JDLINT:-/verif/bin/jdlint} -property $p -root $S -json 2>&1 | python3 -c "
import sys,json
base=set(tuple(x) for x in json.load(open('/tmp/baseline_bad_$p.json')))
txt=sys.stdin.read()
line=[l for l in txt.splitlines() if l.startswith('{')]
if not line:
    print('ERR '+txt.strip().splitlines()[0][:200] if txt.strip() else 'ERR empty'); sys.exit()
d=json.loads(line[-1])
new=[o for o in (d['bad'] or []) if (o['rule'],o['construct']) not in base]
for o in new: print('[%s] %s: %s'%(o['rule'],o['construct'],o['why'][:140]))
")
  [ -n "$out" ] && res="$res\n   $p: $out"
done
echo -e "$(basename $D) suite_notpassing=$suite$( [ -z "$res" ] && echo ' QUIET' || echo " ALARMS:$res")"
