#!/usr/bin/env python3
"""Regenerates /verif/MANIFEST.json from the table below (single source of truth)."""
import json, os
V = os.path.dirname(os.path.dirname(os.path.abspath(__file__)))
LEVEL_NOTE = ("Trusted base: go1.26.8 go/types, x/tools v0.50.0 go/ssa + VTA call graph, frozen summaries of external packages "
              "(encoding/json, yaml.v2 v2.4.0, jsonpointer, golcs, fmt/sort/strings/bytes); for R-PANIC additionally the Go compiler's "
              "bounds-check elimination. The check decides structural necessary conditions of the property on every path of the code; "
              "it does not decide the value-level behaviour named under not_decided in the evidence file.")
claimed = {
 "C01": ("static analysis: SSA def-use rules R-FWD, R-OPTFWD(patch side), R-PATHFRESH, R-KINDS, R-PROV over the v2 diff/patch family; option forwarding also on the Equals and diff sides",
         "Necessary structural conditions of the diff-then-patch round trip are decided for all inputs at once (forwarding of old/new/strategy/path through every recursive patch call, option agreement in identity lookups, hunk paths not aliased with the recursion's scratch path, emitted path kinds routed back to the same container semantics). The cursor arithmetic of the LCS walk is value-level and not decided.", "4 C01"),
 "C03": ("static analysis: SSA forwarding rule R-FWD (all roles), R-PATCHRESULT, cut-set rule R-EXPECT over the CFG of every patch implementation; length-comparison cut set on one-sided container Equals (R-EQSIZE); checking helpers verified interprocedurally; fresh objects only under merge strategy (R-CREATE); no silently ignored hunk (R-NOTIGNORED)",
         "Every strict commit of a list-mode hunk is shown to lie behind its context / old-value checks on every CFG path, the failing side of each check only returns errors, and expectations are forwarded unchanged to any depth. Index arithmetic of the compared positions is not decided.", "4 C03"),
 "C04": ("static analysis: type-guard cut sets on every Equals, constant-prefix (domain tag) and coverage analysis of every hashCode, option forwarding; dispatch option->container table extraction (R-DISPATCH); length-comparison cut set on one-sided container Equals (R-EQSIZE); hashCode comparisons only inside set/multiset (R-HASHEQ)",
         "Type separation of Equals and of the hash domains that SET/MULTISET equality relies on is decided structurally for all ten node types; four untagged hash domains are genuine defects recorded as known findings with concrete witnesses. Collisions inside one type and precision arithmetic are not decided.", "4 C04"),
 "C15": ("static analysis: interprocedural storage-origin / mutation-summary analysis (R-PURE), order-insensitivity of every map range (R-MAPORDER)",
         "No instruction reachable from the read-only API writes memory reachable from its inputs, and no map iteration order can reach an output: decided for all call histories because it is a property of the code, not of a run.", "4 C15"),
 "C05": ("static analysis: option-forwarding rule over all diff functions, Equals/hashCode option congruence, hash-domain tags of list elements, CLI exit-status dataflow; R-EQSIZE; R-HASHEQ; R-IDENTUSE",
         "Structural necessary conditions of `Diff empty iff Equals` (Diff consults the options Equals is asked about; hash-based matching sees the same equivalence; exit status 1 exactly where the rendered diff is non-empty) are decided for all inputs; three genuine defects are recorded as known findings with witnesses. Digest collisions and merge-sentinel ambiguity are not decided.", "4 C05"),
 "C13": ("static analysis: may-panic site inventory over the read/patch call-graph closure, discharged by compiler bounds-check elimination, guard-fact dataflow and closed-world lemmas; CLI error-routing rule; difference-term guard facts and interprocedural entry facts for unexported helpers",
         "Every potentially panicking instruction reachable from reading arbitrary text or applying a read diff is an obligation discharged by a named schema or reported; this is a proof-style inventory over all inputs for the stated scope (Diff and the renderers are outside it).", "4 C13"),
 "C14": ("static analysis: control/data-flow contract rules over both package main (exit discipline, output sinks, flag/mode tables by flag-value pruning, input provenance, error routing); library selection by -v2 over the interprocedural flag-pruned reach, option slices never zero on a feasible flag combination (R-CLI/V); rendered diff is the library Diff on every path; exit events through phis",
         "The CLI contract is decided as facts about every path of both binaries: exit codes, -o exclusivity, printed value = library rendering, flag→option and mode→reader/renderer tables for every documented value, input roles, error routing. Content-level round trips are not decided.", "4 C14"),
 "C07": ("static analysis: dominator/cut-set rule on hunk emission (R-NOEMPTY), lookup-miss control dependence (R-SETMEMBER), provenance slices (R-PROV), path freshness (R-PATHFRESH); both-sides dependence of the copy-count loop bound in the multiset diff (R-BAGCOUNT); whole-array replacement only on the type-miss edge or under merge (R-WHOLEARR)",
         "Necessary structural conditions of `every hunk is a real difference` are decided on every path of the diff functions; per-value statements (removed differs from added, leave-one-out redundancy) are not.", "4 C07"),
 "C08": ("static analysis: cut-set / loop-verification rule R-EXPECT over jsonSet.patch and jsonMultiset.patch, R-PATCHRESULT, R-FWD, R-KINDS, R-IDENTUSE; key-binding of the member-selection digest under option feasibility (R-KEYBIND), identity provenance (R-IDENTPROV), exhaustive search (R-SEARCHALL); R-NOTIGNORED; underflow test before the adds",
         "Every success return of a set/multiset hunk is shown to lie behind the lookup and comparison of each removed member (or the count-underflow test), with error-only failure sides; the dropped outcome of the keyed-member patch is a genuine defect recorded as a known finding. Order independence on concrete values is not decided.", "4 C08"),
 "C02": ("static analysis: finite-automaton extraction from readDiff's SSA by assumption-pruned reachability, writer line-grammar extraction from Render, exhaustive product simulation; table inverses R-PATHTAB; codec who-may-call R-JSONCODEC",
         "The reader's full transition/flush/effect table and the writer's line grammar are extracted from the code and every hunk sequence (up to 3 hunks over all 75 hunk shapes the property names) is simulated against them: no loss, no rejection, right field per line. This is exhaustive over the finite line-kind abstraction; payload bytes are not decided.", "4 C02"),
 "C16": ("static analysis: type-switch arm table of NewJsonNode against the frozen yaml.v2 v2.4.0 / encoding/json dynamic type table, codec routing by call graph (R-CODEC), codec who-may-call (R-JSONCODEC); decoder input provenance (R-RAWINPUT), raw() argument rule (R-RAWARG), raw type table (R-RAWTYPES)",
         "Decides only the structural part: every dynamic type either codec produces has a conversion arm to the right node type and each format is read/written through its own codec with default settings. Scalar quoting and float formatting are library behaviour on values and are not decided.", "4 C16"),
 "C09": ("static analysis: path/taint rules on writePointer (R-PTR), op-literal pairing (R-PAIR), reverse traversal of same-index adds (R-REVADD); linear-form normalisation of the context test indices with edge-wise guard facts (R-CTXINDEX); R-PURE on RenderPatch",
         "Decides that the JSON Patch writer escapes every key, refuses inexpressible paths, never skips a path element, emits only test/remove/add with every remove guarded by an identical test, and orders same-index adds for an insert-before evaluator. Equivalence with an RFC 6902 evaluator on values (context test indices) is not decided.", "4 C09"),
 "C10": ("static analysis: cut-set rule on the test+remove pairing (R-OPSUBSET), pointer-relation rule for context consumption (R-PARENT), token table (R-PTRREAD), coalescing order (R-PREPEND), context forwarding (R-FWD); R-CTXINDEX on the writer whose output the reader must reproduce; R-PTRAGREE; R-EXPECT on the context loops the folded-in test ops rely on",
         "Decides the structural conditions under which the JSON Patch reader could be more permissive than the RFC: unchecked pairs, foreign ops, context tests taken from another array, context dropped on the way to a nested array. The index case analysis of the context inference is not decided.", "4 C10"),
 "C11": ("static analysis: merge-strategy control dependence of hunk literals (R-MERGEHUNK diff side), void→null conversion and refusal of strict hunks in RenderMerge; no void marker handed to a nested diff (R-VOIDARG); R-DELETEVOID; R-WHOLEOBJ; R-HASHEQ",
         "Narrow claim: every hunk built under merge strategy is a merge hunk without removals, and RenderMerge converts deletions to null and refuses strict hunks. Agreement with the RFC 7386 algorithm on values is not decided.", "4 C11"),
 "C12": ("static analysis: hunk-literal rule on readMergeInto (R-MERGEHUNK reader side), strategy selection in patchAll (R-FWD driver), descent rule R-DESCEND, path freshness; fresh empty object enters a hunk only on the len==0 edge; R-DELETEVOID; R-NOTIGNORED",
         "Narrow claim: every hunk read from a merge patch is a merge hunk with its own path, null becomes a deletion, merge strategy is selected exactly for such hunks, and a hunk whose path is not exhausted is always handed on (intermediate objects). Conformance with the RFC pseudo-code on values is not decided.", "4 C12"),
 "C06": ("static analysis: provenance/dependence slices on the list diff (R-LCSDEP), one-line context shape (R-CTX1), context provenance (R-PROV); LCS-library result on every path through helpers; rules anchored at the walk set, not at one function; sub-diff kept on every path",
         "Narrow claim: the common subsequence the hunk walk uses is computed from both arrays' element hashes, the walk continues on the caller's own sequences, same-kind containers are diffed recursively, and every hunk carries one-element before/after context drawn from the right side. Minimality against an optimum and adjacency of the context on values are not decided.", "4 C06"),
 "C17": ("static analysis: R-FWD, R-OPTFWD, R-PROV, R-NOEMPTY, R-PATHFRESH instantiated on package lib (v1); R-DELETEVOID(lib), R-SCANERR(lib), R-IDENTUSE(lib), R-OBJRECURSE(lib); R-NOTIGNORED(lib), R-PATCHRESULT(lib)",
         "Narrow claim: forwarding of values/strategy/path through every recursive v1 patch call, metadata forwarding through every comparison (three named exemptions outside C17's quantifier), provenance of old/new values, no empty hunks, hunks own their paths. Positional list arithmetic and path-metadata decoding are not decided.", "4 C17"),
 "C18": ("static analysis: R-PTR, R-PAIR, R-PATHFRESH, R-JSONCODEC instantiated on package lib (v1); R-DELETEVOID(lib), R-SCANERR(lib), R-WHOLEOBJ(lib)",
         "Narrow claim: the v1 JSON Pointer writer escapes keys (raw tokens only for strings Atoi accepted), never skips an element, emits only test/remove/add with guarded removes; hunks built by the v1 readers own their paths. Equivalence with RFC evaluators and deferred token typing are not decided.", "4 C18"),
}
na = {}
props = [json.loads(l) for l in open(os.path.join(V, "properties.jsonl"))]
PENDING = "checker rules for this property are designed in DESIGN.md but not yet implemented in /verif/checker; no claim is made until they are"
checks = []
for p in props:
    pid = p["id"]
    if pid in claimed:
        tech, text, ref = claimed[pid]
        checks.append({
            "property_id": pid,
            "quick_cmd": f"./check {pid} quick",
            "thorough_cmd": f"./check {pid} thorough",
            "evidence_file": f"/verif/evidence/{pid}.json",
            "replay_cmd_template": "bin/jdlint -replay {path}",
            "engine": "jdlint",
            "level_claimed": {"category": "other", "text": text, "design_ref": "DESIGN.md §" + ref},
            "level_note": LEVEL_NOTE,
            "technique": tech,
        })
not_applicable = [{"property_id": p["id"], "reason": na.get(p["id"], PENDING)} for p in props if p["id"] not in claimed]
m = {
 "version": 1,
 "setup_cmd": "scripts/setup.sh",
 "hooks": {"guard": "verif", "enable": "none needed: static analysis reads the source; no hook exists in /repo and the build tag `verif` is unused",
           "baseline_off_cmd": "scripts/baseline.sh /repo", "source_commits": [], "add_only": True},
 "engines": [{"name": "jdlint", "path": "/verif/checker", "serves_properties": sorted(claimed),
              "kind_free_text": "repository-specific static analyser over go/packages + go/ssa (x/tools v0.50.0, go1.26.8): def-use, dominator/cut-set, derivation, storage-origin and table-extraction rules; no execution of jd"}],
 "checks": checks,
 "not_applicable": not_applicable,
 "notes": "Technique family: static analysis only. Every check loads /repo's current working tree, type-checks it and decides rule instances on its SSA form; violations name the construct (function, call site, CFG path). Fix commits in /repo: see known_findings.json 'fixed'. Known findings (genuine defects not repaired) print KNOWN-FINDING lines.",
}
json.dump(m, open(os.path.join(V, "MANIFEST.json"), "w"), indent=1)
print("claimed", sorted(claimed), "not_applicable", [x["property_id"] for x in not_applicable])
