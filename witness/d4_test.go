package wit
import ("testing"; jd "github.com/josephburnett/jd/v2")
func TestD4(t *testing.T){
  s:="@ [0]\n[\n+ 1\n]\n^ {\"Merge\":true}\n@ [\"a\"]\n+ 2\n"
  d,err:=jd.ReadDiffString(s)
  if err!=nil {t.Fatal(err)}
  if len(d)!=2 { t.Errorf("want 2 hunks got %d: %q",len(d),d.Render()) }
}
