package wit

// K8 (C05, C07, C08): under SetKeys every object that has none of the keys gets the same constant
// identity (the "no keys present" fallback in jsonObject.ident is dead code), so the set diff keeps
// one such member per side. K9 (C07, C08): the diff names a member lacking a key as {"id":null},
// the patch side leaves a missing key out, so that hunk never finds its member.
// Both pinned: TestSetDiff "pod set diff regression" expects the path {"name":null} for key-less members.

import (
	"testing"

	jd "github.com/josephburnett/jd/v2"
)

func TestK8K9(t *testing.T) {
	rd := func(s string) jd.JsonNode { n, err := jd.ReadJsonString(s); if err != nil { t.Fatal(err) }; return n }
	opts := []jd.Option{jd.SetKeys("id")}
	// K8 / C05: unequal, empty diff
	a, b := rd(`[{}]`), rd(`[{"v":1},{}]`)
	if d := a.Diff(b, opts...); len(d) == 0 && !a.Equals(b, opts...) {
		t.Errorf("K8 (C05): Diff is empty although Equals is false")
	}
	// K8 / C07: equal as sets, non-empty diff
	a, b = rd(`[{},{"v":1}]`), rd(`[{"v":1},{}]`)
	if d := a.Diff(b, opts...); len(d) != 0 && a.Equals(b, opts...) {
		t.Errorf("K8 (C07): equal sets, diff:\n%s", d.Render())
	}
	// K9 / C07, C08: own diff cannot be applied
	a, b = rd(`[{"n":1}]`), rd(`[{"n":2}]`)
	d := a.Diff(b, opts...)
	if got, err := a.Patch(d); err != nil || !got.Equals(b, opts...) {
		t.Errorf("K9 (C08): %s applied to the document it was made from: %v, %v", d.Render(), got, err)
	}
}
