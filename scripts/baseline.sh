#!/bin/bash
# Runs the repository's pinned test suite (both modules) with no build tag,
# prints pass/fail counts and compares with BASELINE.json's stable_pass list.
# usage: baseline.sh [repo-dir]   (default /repo)
REPO=${1:-/repo}
export GOFLAGS=-mod=mod GOPROXY=off
unset GOSUMDB GOTOOLCHAIN GOWORK
OUT=$(mktemp /tmp/baseline.XXXXXX.json)
for m in . ./v2; do
  (cd $REPO/$m && go test -json -vet=off -count=1 -timeout 25m ./... 2>&1)
done > $OUT
python3 - "$OUT" <<'PY'
import json,sys
res={}
for line in open(sys.argv[1]):
    try: e=json.loads(line)
    except Exception: continue
    if e.get('Test') and e.get('Action') in ('pass','fail','skip'):
        res[e['Package']+'::'+e['Test']]=e['Action']
base=json.load(open('/root/.vp/BASELINE.json'))['stable_pass']
missing=[t for t in base if res.get(t)!='pass']
print('tests seen',len(res),'pass',sum(1 for v in res.values() if v=='pass'),'fail',sum(1 for v in res.values() if v=='fail'))
print('baseline',len(base),'not passing now',len(missing))
for t in missing[:40]: print('  NOT-PASS',t,res.get(t))
sys.exit(1 if missing else 0)
PY
rc=$?
rm -f $OUT
exit $rc
