package wit

// fixed in /repo (R-HUNKRAW): SET / MULTISET diff of an array and a non-array applies in memory

import (
	"testing"

	jd "github.com/josephburnett/jd/v2"
)

func TestHunkRaw(t *testing.T) {
	for _, o := range []jd.Option{jd.SET, jd.MULTISET} {
		a, _ := jd.ReadJsonString(`[1]`)
		b, _ := jd.ReadJsonString(`{}`)
		got, err := a.Patch(a.Diff(b, o))
		if err != nil || !got.Equals(b, o) {
			t.Errorf("%v: %v %v", o, got, err)
		}
	}
}
