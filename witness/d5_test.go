package wit
import ("testing"; jd "github.com/josephburnett/jd/v2")
func TestD5(t *testing.T){
  for _,c:=range [][2]string{
    {"@ [5]\n  1\n+ 2\n","[1]"},
    {"@ [-2]\n+ 2\n","[1]"},
    {"@ [-2,\"a\"]\n+ 2\n","[1]"},
    {"@ [5]\n+ 2\n","[1]"},
    {"@ [1e300]\n+ 2\n","[1]"},
    {"@ [-3]\n- 1\n","[1]"},
  } {
    func(){
      defer func(){ if r:=recover();r!=nil { t.Errorf("panic on %q: %v",c[0],r) } }()
      d,err:=jd.ReadDiffString(c[0]); if err!=nil { t.Fatal(err) }
      r,err:=rd(c[1]).Patch(d)
      if err==nil { t.Errorf("no error for %q: %v",c[0],r.Json()) }
    }()
  }
}
