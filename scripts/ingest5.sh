#!/bin/bash
# usage: ingest5.sh Cnn  — copies a round-5 agent's OUT/Cnn-{a,b} to /tmp/seed5/Cnn-{u,v}
p=$1; mkdir -p /tmp/seed5
for pair in a:u b:v; do
  s=${pair%%:*}; t=${pair##*:}
  src=/tmp/wt/S5$p/OUT/$p-$s
  [ -d $src ] || { echo "missing $src"; continue; }
  rm -rf /tmp/seed5/$p-$t; cp -r $src /tmp/seed5/$p-$t
done
ls /tmp/seed5 | tr '\n' ' '; echo
