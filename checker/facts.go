package main

import (
	"go/constant"
	"go/token"
	"go/types"
	"math"

	"golang.org/x/tools/go/ssa"
)

// Guard facts: a forward dataflow that attaches to every block what the
// branch edges leading to it imply about integer-valued terms (an SSA integer
// value, or len(x) of an SSA slice/string value) and about values compared
// with constants (closed enumerations). Facts flow through phi by the meet of
// the incoming edges; edges whose condition folds to false under the facts
// are infeasible and propagate nothing.

type term struct {
	v     ssa.Value
	isLen bool
	// difference terms: when w != nil the term stands for (v) - (w), each side
	// an integer value or a length; its fact bounds the difference
	w    ssa.Value
	wLen bool
}

func diffTerm(a, b term) term { return term{v: a.v, isLen: a.isLen, w: b.v, wLen: b.isLen} }

type fact struct {
	lo, hi int64           // inclusive bounds (math.MinInt64 / MaxInt64 = unbounded)
	excl   map[int64]bool  // excluded integer values
	eq     string          // known equal to this constant (ExactString), "" unknown
	ne     map[string]bool // known different from these constants
}

func topFact(t term) fact {
	f := fact{lo: math.MinInt64, hi: math.MaxInt64}
	if t.isLen && t.w == nil {
		f.lo = 0
	}
	return f
}

func (f fact) clone() fact {
	g := fact{lo: f.lo, hi: f.hi, eq: f.eq}
	if f.excl != nil {
		g.excl = map[int64]bool{}
		for k := range f.excl {
			g.excl[k] = true
		}
	}
	if f.ne != nil {
		g.ne = map[string]bool{}
		for k := range f.ne {
			g.ne[k] = true
		}
	}
	return g
}

// minVal: smallest integer the term can take under the fact.
func (f fact) minVal() int64 {
	m := f.lo
	for m < math.MaxInt64 && f.excl[m] {
		m++
	}
	return m
}

func (f fact) maxVal() int64 {
	m := f.hi
	for m > math.MinInt64 && f.excl[m] {
		m--
	}
	return m
}

func (f fact) empty() bool { return f.minVal() > f.maxVal() }

type state map[term]fact

func (s state) get(t term) fact {
	if f, ok := s[t]; ok {
		return f
	}
	return topFact(t)
}

func meetFact(t term, a, b fact) fact {
	out := fact{lo: a.lo, hi: a.hi}
	if b.lo < out.lo {
		out.lo = b.lo
	}
	if b.hi > out.hi {
		out.hi = b.hi
	}
	for k := range a.excl {
		// k stays excluded if b also excludes it (explicitly or by bounds)
		if b.excl[k] || k < b.lo || k > b.hi {
			if out.excl == nil {
				out.excl = map[int64]bool{}
			}
			out.excl[k] = true
		}
	}
	for k := range b.excl {
		if a.excl[k] || k < a.lo || k > a.hi {
			if out.excl == nil {
				out.excl = map[int64]bool{}
			}
			out.excl[k] = true
		}
	}
	if a.eq != "" && a.eq == b.eq {
		out.eq = a.eq
	}
	neOf := func(f fact, k string) bool { return f.ne[k] || (f.eq != "" && f.eq != k) }
	for k := range a.ne {
		if neOf(b, k) {
			if out.ne == nil {
				out.ne = map[string]bool{}
			}
			out.ne[k] = true
		}
	}
	for k := range b.ne {
		if neOf(a, k) {
			if out.ne == nil {
				out.ne = map[string]bool{}
			}
			out.ne[k] = true
		}
	}
	if a.eq != "" && b.eq != "" && a.eq != b.eq {
		// both known but different: everything else both exclude stays excluded
	}
	return out
}

func factEqual(a, b fact) bool {
	if a.lo != b.lo || a.hi != b.hi || a.eq != b.eq || len(a.excl) != len(b.excl) || len(a.ne) != len(b.ne) {
		return false
	}
	for k := range a.excl {
		if !b.excl[k] {
			return false
		}
	}
	for k := range a.ne {
		if !b.ne[k] {
			return false
		}
	}
	return true
}

type Facts struct {
	fn    *ssa.Function
	in    map[*ssa.BasicBlock]state
	reach map[*ssa.BasicBlock]bool
	enums map[*types.Named][]string // closed enumerations: type -> constant values (ExactString)
	depth int
	moves map[widenKey]int
}

type widenKey struct {
	b *ssa.BasicBlock
	t term
}

// termOf normalises an integer-valued SSA value to (term, offset): value =
// term + offset. Constants give (nil term, value).
func termOf(v ssa.Value) (t term, off int64, isConst bool, ok bool) {
	v = stripInt(v)
	if c, isC := v.(*ssa.Const); isC {
		if c.Value != nil && c.Value.Kind() == constant.Int {
			if i, exact := constant.Int64Val(c.Value); exact {
				return term{}, i, true, true
			}
		}
		return term{}, 0, false, false
	}
	if call, isLen := isBuiltinCall(v, "len"); isLen {
		return term{v: strip(call.Call.Args[0]), isLen: true}, 0, false, true
	}
	if bo, isB := v.(*ssa.BinOp); isB && (bo.Op == token.ADD || bo.Op == token.SUB) {
		if c, ok := constInt(bo.Y); ok {
			t, off, isC, ok2 := termOf(bo.X)
			if ok2 && !isC {
				if bo.Op == token.ADD {
					return t, off + c, false, true
				}
				return t, off - c, false, true
			}
		}
		if c, ok := constInt(bo.X); ok && bo.Op == token.ADD {
			t, off, isC, ok2 := termOf(bo.Y)
			if ok2 && !isC {
				return t, off + c, false, true
			}
		}
	}
	if b, isBasic := v.Type().Underlying().(*types.Basic); isBasic && b.Info()&types.IsInteger != 0 {
		return term{v: v, isLen: false}, 0, false, true
	}
	return term{}, 0, false, false
}

// noWrap: Go's integer arithmetic wraps around, the facts are about mathematical
// integers. `t + off` may be read as the mathematical sum only if t is known to lie
// far enough from the end of the int range that the addition cannot wrap: an interval
// bound on t, or a bound on its distance from a length (lengths are taken to lie in
// [0, 2^62), stated in DESIGN §7). Otherwise a comparison that mentions t+off teaches
// nothing about t, and t+off has no known bounds. (Seeded change C13-k: `next := i+1;
// if next > len(l)` with i = MaxInt.)
func (s state) noWrap(t term, off int64) bool {
	if off == 0 || (t.isLen && t.w == nil) {
		return true
	}
	const big = int64(1) << 62
	if off >= big || off <= -big {
		return false
	}
	// a counter: a phi of small constants and of itself plus a small positive step takes the values
	// k, k+c, k+2c, ... one per iteration; wrapping it needs some 2^62 iterations (taken as unreachable,
	// DESIGN §7). This is the shape of every `for i := k; ...; i++` and of the hidden index of `range`.
	if ph, ok := t.v.(*ssa.Phi); ok && !t.isLen && t.w == nil && off > -(1<<31) && off < (1<<31) {
		counter := true
		for _, e := range ph.Edges {
			if c, isC := constInt(e); isC && c > -(1<<31) && c < (1<<31) {
				continue
			}
			if bo, isB := stripInt(e).(*ssa.BinOp); isB && bo.Op == token.ADD && stripInt(bo.X) == ssa.Value(ph) {
				if c, isC := constInt(bo.Y); isC && c > 0 && c < (1<<31) {
					continue
				}
			}
			counter = false
		}
		if counter {
			return true
		}
	}
	f := s.get(t)
	if off > 0 {
		if f.maxVal() <= math.MaxInt64-off {
			return true
		}
		for k, kf := range s {
			if k.w == nil {
				continue
			}
			// t - len <= hi
			if k.v == t.v && k.isLen == t.isLen && k.wLen && kf.hi < big-off {
				return true
			}
			// len - t >= lo
			if k.w == t.v && k.wLen == t.isLen && k.isLen && kf.lo != math.MinInt64 && -kf.lo < big-off {
				return true
			}
		}
		return false
	}
	if f.minVal() >= math.MinInt64-off {
		return true
	}
	for k, kf := range s {
		if k.w == nil {
			continue
		}
		// t - len >= lo  (len >= 0)
		if k.v == t.v && k.isLen == t.isLen && k.wLen && kf.lo > -big-off {
			return true
		}
		if k.w == t.v && k.wLen == t.isLen && k.isLen && kf.hi != math.MaxInt64 && -kf.hi > -big-off {
			return true
		}
	}
	return false
}

func sat(a int64, b int64) int64 {
	// saturating add
	if b > 0 && a > math.MaxInt64-b {
		return math.MaxInt64
	}
	if b < 0 && a < math.MinInt64-b {
		return math.MinInt64
	}
	return a + b
}

// refine: apply `t op c` (op in EQL NEQ LSS LEQ GTR GEQ) to fact f.
func refineInt(f fact, op token.Token, c int64) fact {
	g := f.clone()
	switch op {
	case token.EQL:
		if c > g.lo {
			g.lo = c
		}
		if c < g.hi {
			g.hi = c
		}
	case token.NEQ:
		if g.excl == nil {
			g.excl = map[int64]bool{}
		}
		g.excl[c] = true
	case token.LSS:
		if c-1 < g.hi {
			g.hi = c - 1
		}
	case token.LEQ:
		if c < g.hi {
			g.hi = c
		}
	case token.GTR:
		if c+1 > g.lo {
			g.lo = c + 1
		}
	case token.GEQ:
		if c > g.lo {
			g.lo = c
		}
	}
	return g
}

func negateOp(op token.Token) token.Token {
	switch op {
	case token.EQL:
		return token.NEQ
	case token.NEQ:
		return token.EQL
	case token.LSS:
		return token.GEQ
	case token.LEQ:
		return token.GTR
	case token.GTR:
		return token.LEQ
	case token.GEQ:
		return token.LSS
	}
	return token.ILLEGAL
}

func swapOp(op token.Token) token.Token {
	switch op {
	case token.LSS:
		return token.GTR
	case token.LEQ:
		return token.GEQ
	case token.GTR:
		return token.LSS
	case token.GEQ:
		return token.LEQ
	}
	return op
}

// applyCond refines state s with condition cond being `truth`. Returns false
// if the condition is known to contradict s (infeasible edge).
func (fs *Facts) applyCond(s state, cond ssa.Value, truth bool) (state, bool) {
	for {
		u, ok := cond.(*ssa.UnOp)
		if !ok || u.Op != token.NOT {
			break
		}
		cond = u.X
		truth = !truth
	}
	if c, isCall := cond.(*ssa.Call); isCall && !truth {
		// a predicate of the package that answers true whenever its slice argument is empty
		// (Path.isLeaf and the like): answering false, the argument has at least one element
		if sf := staticCallee(c); sf != nil && len(c.Call.Args) == 1 && trueWhenEmpty(sf, fs.depth) {
			t := term{v: strip(c.Call.Args[0]), isLen: true}
			f := refineInt(s.get(t), token.GEQ, 1)
			if f.empty() {
				return s, false
			}
			out := state{}
			for k, v := range s {
				out[k] = v
			}
			out[t] = f
			return out, true
		}
	}
	bo, ok := cond.(*ssa.BinOp)
	if !ok {
		return s, true
	}
	op := bo.Op
	switch op {
	case token.EQL, token.NEQ, token.LSS, token.LEQ, token.GTR, token.GEQ:
	default:
		return s, true
	}
	if !truth {
		op = negateOp(op)
	}
	// integer comparison with a constant on one side
	tx, ox, cx, okx := termOf(bo.X)
	ty, oy, cy, oky := termOf(bo.Y)
	if (okx && !cx && !s.noWrap(tx, ox)) || (oky && !cy && !s.noWrap(ty, oy)) {
		return s, true
	}
	if okx && oky && cx != cy {
		var t term
		var c int64
		if cy { // term op const
			t, c = tx, oy-ox
		} else {
			t, c = ty, ox-oy
			op = swapOp(op)
		}
		f := refineInt(s.get(t), op, c)
		if f.empty() {
			return s, false
		}
		out := state{}
		for k, v := range s {
			out[k] = v
		}
		out[t] = f
		return out, true
	}
	// comparison of two non-constant integer terms: bound their difference
	if okx && oky && !cx && !cy && tx != ty {
		d := diffTerm(tx, ty)
		c := oy - ox
		cur := s.get(d)
		// what is known the other way round, mirrored
		if r, ok := s[diffTerm(ty, tx)]; ok {
			if r.hi != math.MaxInt64 && -r.hi > cur.lo {
				cur.lo = -r.hi
			}
			if r.lo != math.MinInt64 && -r.lo < cur.hi {
				cur.hi = -r.lo
			}
		}
		f := refineInt(cur, op, c)
		if f.lo > f.hi {
			return s, false
		}
		out := state{}
		for k, v := range s {
			out[k] = v
		}
		f.excl = nil
		out[d] = f
		return out, true
	}
	// equality with a non-integer constant (closed enumerations, strings)
	if op == token.EQL || op == token.NEQ {
		var v ssa.Value
		var k *ssa.Const
		if c, ok := strip(bo.Y).(*ssa.Const); ok {
			v, k = strip(bo.X), c
		} else if c, ok := strip(bo.X).(*ssa.Const); ok {
			v, k = strip(bo.Y), c
		}
		if k != nil && k.Value != nil && k.Value.Kind() == constant.String {
			if _, isConst := v.(*ssa.Const); !isConst {
				t := term{v: v, isLen: false}
				f := s.get(t).clone()
				ks := k.Value.ExactString()
				if op == token.EQL {
					if f.ne[ks] || (f.eq != "" && f.eq != ks) {
						return s, false
					}
					f.eq = ks
				} else {
					if f.eq == ks {
						return s, false
					}
					if f.ne == nil {
						f.ne = map[string]bool{}
					}
					f.ne[ks] = true
					// closed enumeration: all but one excluded
					if n := namedOf(v.Type()); n != nil {
						if vals, ok := fs.enums[n]; ok {
							var left []string
							for _, val := range vals {
								if !f.ne[val] {
									left = append(left, val)
								}
							}
							if len(left) == 0 {
								return s, false
							}
							if len(left) == 1 {
								f.eq = left[0]
							}
						}
					}
				}
				out := state{}
				for kk, vv := range s {
					out[kk] = vv
				}
				out[t] = f
				return out, true
			}
		}
	}
	return s, true
}

// NewFacts runs the dataflow for fn.
func NewFacts(fn *ssa.Function, enums map[*types.Named][]string) *Facts {
	return NewFactsEntry(fn, enums, nil)
}

// NewFactsEntry: as NewFacts, with facts about the parameters holding on entry
// (the meet over every call site, see paramEntryFacts).
func NewFactsEntry(fn *ssa.Function, enums map[*types.Named][]string, entryState state) *Facts {
	fs := &Facts{fn: fn, in: map[*ssa.BasicBlock]state{}, reach: map[*ssa.BasicBlock]bool{}, enums: enums, moves: map[widenKey]int{}}
	if len(fn.Blocks) == 0 {
		return fs
	}
	entry := fn.Blocks[0]
	fs.in[entry] = state{}
	for t, f := range entryState {
		fs.in[entry][t] = f
	}
	fs.reach[entry] = true
	work := []*ssa.BasicBlock{entry}
	inWork := map[*ssa.BasicBlock]bool{entry: true}
	iter := 0
	for len(work) > 0 && iter < 20000 {
		iter++
		b := work[0]
		work = work[1:]
		inWork[b] = false
		for i, succ := range b.Succs {
			es, feasible := fs.edgeState(b, i)
			if !feasible {
				continue
			}
			changed := false
			if !fs.reach[succ] {
				fs.reach[succ] = true
				fs.in[succ] = es
				changed = true
			} else {
				old := fs.in[succ]
				merged := state{}
				for t, f := range old {
					if g, ok := es[t]; ok {
						m := meetFact(t, f, g)
						if !factEqual(m, topFact(t)) {
							merged[t] = m
						}
					}
				}
				// widening: a bound of one term that keeps moving at one block
				// (an induction variable) is given up after many moves
				for t, f := range merged {
					o := old[t]
					wk := widenKey{succ, t}
					if f.lo < o.lo {
						fs.moves[wk]++
					}
					if f.hi > o.hi {
						fs.moves[wk]++
					}
					if fs.moves[wk] > 40 {
						if f.lo < o.lo {
							f.lo = math.MinInt64
							if t.isLen && t.w == nil {
								f.lo = 0
							}
						}
						if f.hi > o.hi {
							f.hi = math.MaxInt64
						}
						if factEqual(f, topFact(t)) {
							delete(merged, t)
						} else {
							merged[t] = f
						}
					}
				}
				if len(merged) != len(old) {
					changed = true
				} else {
					for t, f := range merged {
						if !factEqual(f, old[t]) {
							changed = true
						}
					}
				}
				fs.in[succ] = merged
			}
			if changed && !inWork[succ] {
				work = append(work, succ)
				inWork[succ] = true
			}
		}
	}
	return fs
}

// edgeState: facts holding when control passes from b to its idx-th successor.
func (fs *Facts) edgeState(b *ssa.BasicBlock, idx int) (state, bool) {
	s := fs.in[b]
	if iff, ok := b.Instrs[len(b.Instrs)-1].(*ssa.If); ok {
		var feasible bool
		s, feasible = fs.applyCond(s, iff.Cond, idx == 0)
		if !feasible {
			return nil, false
		}
	}
	succ := b.Succs[idx]
	// phi terms take the facts of the value arriving over this edge
	pi := -1
	for j, p := range succ.Preds {
		if p == b {
			// a block may be listed twice as predecessor (both arms); use
			// the matching occurrence
			if pi < 0 || (idx == 1 && countPred(succ, b) > 1) {
				pi = j
			}
		}
	}
	out := s
	copied := false
	for _, in := range succ.Instrs {
		phi, ok := in.(*ssa.Phi)
		if !ok {
			break
		}
		if pi < 0 || pi >= len(phi.Edges) {
			continue
		}
		inc := phi.Edges[pi]
		set := func(t term, f fact) {
			if !copied {
				out = state{}
				for k, v := range s {
					out[k] = v
				}
				copied = true
			}
			if factEqual(f, topFact(t)) {
				delete(out, t)
			} else {
				out[t] = f
			}
		}
		switch phi.Type().Underlying().(type) {
		case *types.Slice:
			set(term{v: phi, isLen: true}, s.get(term{v: strip(inc), isLen: true}))
		case *types.Basic:
			if t, off, isC, ok := termOf(inc); ok {
				if isC {
					set(term{v: phi, isLen: false}, fact{lo: off, hi: off})
				} else {
					f := s.get(t).clone()
					f.lo, f.hi = sat(f.lo, off), sat(f.hi, off)
					if off != 0 && f.excl != nil {
						ex := map[int64]bool{}
						for k := range f.excl {
							ex[k+off] = true
						}
						f.excl = ex
					}
					set(term{v: phi, isLen: false}, f)
				}
			} else if k, ok := strip(inc).(*ssa.Const); ok && k.Value != nil && k.Value.Kind() == constant.String {
				set(term{v: phi, isLen: false}, fact{lo: math.MinInt64, hi: math.MaxInt64, eq: k.Value.ExactString()})
			} else {
				set(term{v: phi, isLen: false}, s.get(term{v: strip(inc), isLen: false}))
			}
		}
	}
	return out, true
}

func countPred(b, p *ssa.BasicBlock) int {
	n := 0
	for _, q := range b.Preds {
		if q == p {
			n++
		}
	}
	return n
}

// At returns the facts at the entry of block b (nil if unreachable).
func (fs *Facts) At(b *ssa.BasicBlock) (state, bool) {
	if !fs.reach[b] {
		return nil, false
	}
	return fs.in[b], true
}

// diffLE: the largest known value of (a) - (b) under s (MaxInt64 = unknown).
func (s state) diffHi(a, b term) int64 {
	hi := int64(math.MaxInt64)
	if f, ok := s[diffTerm(a, b)]; ok {
		hi = f.hi
	}
	if r, ok := s[diffTerm(b, a)]; ok && r.lo != math.MinInt64 && -r.lo < hi {
		hi = -r.lo
	}
	return hi
}

// bounds of an integer-valued SSA value at block b.
func (fs *Facts) bounds(v ssa.Value, b *ssa.BasicBlock) (lo, hi int64, ok bool) {
	s, reach := fs.At(b)
	if !reach {
		return 0, 0, false
	}
	t, off, isC, ok2 := termOf(v)
	if !ok2 {
		return math.MinInt64, math.MaxInt64, true
	}
	if isC {
		return off, off, true
	}
	if !s.noWrap(t, off) {
		return math.MinInt64, math.MaxInt64, true
	}
	f := s.get(t)
	lo, hi = sat(f.minVal(), off), sat(f.maxVal(), off)
	// a sum or difference of two non-constant values: interval arithmetic on
	// the operands sharpens what is known about the term itself
	if bo, isB := t.v.(*ssa.BinOp); isB && !t.isLen && (bo.Op == token.ADD || bo.Op == token.SUB) && fs.depth < 4 {
		fs.depth++
		xlo, xhi, okx := fs.bounds(bo.X, b)
		ylo, yhi, oky := fs.bounds(bo.Y, b)
		fs.depth--
		if okx && oky {
			var slo, shi int64 = math.MinInt64, math.MaxInt64
			if bo.Op == token.ADD {
				if xlo != math.MinInt64 && ylo != math.MinInt64 {
					slo = sat(xlo, ylo)
				}
				if xhi != math.MaxInt64 && yhi != math.MaxInt64 {
					shi = sat(xhi, yhi)
				}
			} else {
				if xlo != math.MinInt64 && yhi != math.MaxInt64 {
					slo = sat(xlo, -yhi)
				}
				if xhi != math.MaxInt64 && ylo != math.MinInt64 {
					shi = sat(xhi, -ylo)
				}
			}
			if slo != math.MinInt64 && sat(slo, off) > lo {
				lo = sat(slo, off)
			}
			if shi != math.MaxInt64 && sat(shi, off) < hi {
				hi = sat(shi, off)
			}
		}
	}
	return lo, hi, true
}

// closedEnums: unexported named string types of pkg whose values can only be
// their declared constants: no conversion to the type from a non-constant,
// and no zero-valued variable of the type.
func closedEnums(w *World, pkg *ssa.Package) map[*types.Named][]string {
	cands := map[*types.Named][]string{}
	for _, m := range pkg.Members {
		nc, ok := m.(*ssa.NamedConst)
		if !ok {
			continue
		}
		n, ok := nc.Type().(*types.Named)
		if !ok || n.Obj().Pkg() != pkg.Pkg || n.Obj().Exported() {
			continue
		}
		if b, ok := n.Underlying().(*types.Basic); !ok || b.Kind() != types.String {
			continue
		}
		cands[n] = append(cands[n], nc.Value.Value.ExactString())
	}
	bad := map[*types.Named]bool{}
	for fn := range w.AllFunctions() {
		if fn.Blocks == nil {
			continue
		}
		allInstrs(fn, func(in ssa.Instruction) {
			switch x := in.(type) {
			case *ssa.Convert:
				if n, ok := x.Type().(*types.Named); ok && cands[n] != nil {
					if _, isC := x.X.(*ssa.Const); !isC {
						bad[n] = true
					}
				}
			case *ssa.ChangeType:
				if n, ok := x.Type().(*types.Named); ok && cands[n] != nil {
					if _, isC := x.X.(*ssa.Const); !isC {
						bad[n] = true
					}
				}
			case *ssa.Alloc:
				// `var s patchStrategy` without initialiser holds ""
				if n, ok := x.Type().(*types.Pointer).Elem().(*types.Named); ok && cands[n] != nil {
					stored := false
					for _, ref := range *x.Referrers() {
						if st, ok := ref.(*ssa.Store); ok && st.Addr == ssa.Value(x) {
							stored = true
						}
					}
					if !stored {
						bad[n] = true
					}
				}
			case *ssa.Phi, *ssa.Call, *ssa.Store:
				// constants of the type with a value outside the declared set
				var ops []*ssa.Value
				ops = in.Operands(ops)
				for _, op := range ops {
					if c, ok := (*op).(*ssa.Const); ok && c.Value != nil {
						if n, ok := c.Type().(*types.Named); ok && cands[n] != nil {
							found := false
							for _, v := range cands[n] {
								if v == c.Value.ExactString() {
									found = true
								}
							}
							if !found {
								bad[n] = true
							}
						}
					}
				}
			}
		})
	}
	out := map[*types.Named][]string{}
	for n, vals := range cands {
		if !bad[n] {
			out[n] = vals
		}
	}
	return out
}

func isStringType(t types.Type) bool {
	b, ok := t.Underlying().(*types.Basic)
	return ok && b.Info()&types.IsString != 0
}

// paramEntryFacts: interval facts about the integer parameters of an
// unexported function that hold on entry because they hold at every call:
// the function must only be called statically (never stored, passed or
// invoked through an interface), and every caller's guard facts at the call
// site must bound the argument. Callers' own entry facts are used up to a
// small depth (recursion is cut).
type entryFacts struct {
	w     *World
	enums map[*types.Named][]string
	memo  map[*ssa.Function]state
	busy  map[*ssa.Function]bool
	facts map[*ssa.Function]*Facts
	used  map[*ssa.Function]bool // address-taken or otherwise used as a value
}

func newEntryFacts(w *World, enums map[*types.Named][]string) *entryFacts {
	ef := &entryFacts{w: w, enums: enums, memo: map[*ssa.Function]state{}, busy: map[*ssa.Function]bool{}, facts: map[*ssa.Function]*Facts{}, used: map[*ssa.Function]bool{}}
	for fn := range w.AllFunctions() {
		for _, b := range fn.Blocks {
			for _, in := range b.Instrs {
				var calleeSlot *ssa.Value
				if c, ok := in.(ssa.CallInstruction); ok {
					calleeSlot = &c.Common().Value
				}
				for _, op := range in.Operands(nil) {
					if op == nil || *op == nil || op == calleeSlot {
						continue
					}
					if f, ok := (*op).(*ssa.Function); ok {
						ef.used[f] = true
					}
				}
			}
		}
	}
	return ef
}

func (ef *entryFacts) factsOf(fn *ssa.Function) *Facts {
	if f, ok := ef.facts[fn]; ok {
		return f
	}
	f := NewFactsEntry(fn, ef.enums, ef.entry(fn))
	ef.facts[fn] = f
	return f
}

func (ef *entryFacts) entry(fn *ssa.Function) state {
	if s, ok := ef.memo[fn]; ok {
		return s
	}
	if ef.busy[fn] {
		return nil
	}
	ef.busy[fn] = true
	defer func() { ef.busy[fn] = false }()
	out := state{}
	ef.memo[fn] = nil
	obj, _ := fn.Object().(*types.Func)
	if obj == nil || obj.Exported() || fn.Synthetic != "" || ef.used[fn] || len(fn.Params) == 0 {
		return nil
	}
	node := ef.w.CG().Nodes[fn]
	if node == nil || len(node.In) == 0 {
		return nil
	}
	first := true
	for _, e := range node.In {
		site := e.Site
		if site == nil || site.Common().IsInvoke() || site.Common().StaticCallee() != fn {
			return nil
		}
		if _, isCall := site.(*ssa.Call); !isCall {
			return nil // go / defer: run later, not under the site's facts
		}
		caller := e.Caller.Func
		if caller.Synthetic != "" {
			// pointer-receiver / bound-method wrappers: dead unless something calls them
			if cn := ef.w.CG().Nodes[caller]; (cn == nil || len(cn.In) == 0) && !ef.used[caller] {
				continue
			}
			return nil
		}
		if caller == fn {
			continue // self recursion: arguments are checked like any other site below
		}
		cf := ef.factsOf(caller)
		args := site.Common().Args
		if len(args) != len(fn.Params) {
			return nil
		}
		cur := state{}
		for i, p := range fn.Params {
			b, ok := p.Type().Underlying().(*types.Basic)
			if ok && b.Info()&types.IsString != 0 {
				// string-valued (closed enumerations): what the caller knows
				// about the argument's value (equal to / different from constants)
				f := fact{lo: math.MinInt64, hi: math.MaxInt64}
				if k, isK := strip(args[i]).(*ssa.Const); isK && k.Value != nil && k.Value.Kind() == constant.String {
					f.eq = k.Value.ExactString()
				} else if st, reach := cf.At(site.Block()); reach {
					g := st.get(term{v: strip(args[i])})
					f.eq = g.eq
					for k := range g.ne {
						if f.ne == nil {
							f.ne = map[string]bool{}
						}
						f.ne[k] = true
					}
				} else {
					f.eq = "\x00unreachable"
				}
				cur[term{v: p}] = f
				continue
			}
			if !ok || b.Info()&types.IsInteger == 0 {
				continue
			}
			lo, hi, ok := cf.bounds(args[i], site.Block())
			if !ok {
				// unreachable call site constrains nothing
				lo, hi = math.MaxInt64, math.MinInt64
			}
			cur[term{v: p}] = fact{lo: lo, hi: hi}
		}
		if first {
			out, first = cur, false
			continue
		}
		for t, f := range out {
			g := cur[t]
			if f.eq == "\x00unreachable" {
				out[t] = g
				continue
			}
			if g.eq == "\x00unreachable" {
				continue
			}
			if f.eq != "" || g.eq != "" || f.ne != nil || g.ne != nil {
				out[t] = meetFact(t, f, g)
				continue
			}
			if g.lo < f.lo {
				f.lo = g.lo
			}
			if g.hi > f.hi {
				f.hi = g.hi
			}
			out[t] = f
		}
	}
	// self-recursive sites: the bounds must be inductive
	for _, e := range node.In {
		if e.Caller.Func != fn {
			continue
		}
		tmp := NewFactsEntry(fn, ef.enums, out)
		for i, p := range fn.Params {
			t := term{v: p}
			f, ok := out[t]
			if !ok {
				continue
			}
			if f.eq != "" || len(f.ne) > 0 {
				// value facts are inductive only if the recursive call hands on the parameter itself
				if strip(e.Site.Common().Args[i]) != ssa.Value(p) {
					delete(out, t)
				}
				continue
			}
			lo, hi, ok := tmp.bounds(e.Site.Common().Args[i], e.Site.Block())
			if ok && (lo < f.lo || hi > f.hi) {
				delete(out, t)
			}
		}
	}
	for t, f := range out {
		if f.eq == "\x00unreachable" {
			delete(out, t)
			continue
		}
		if f.eq != "" || len(f.ne) > 0 {
			// closed enumeration: all values but one excluded
			if n := namedOf(t.v.Type()); n != nil && f.eq == "" {
				if vals, ok := ef.enums[n]; ok {
					var left []string
					for _, val := range vals {
						if !f.ne[val] {
							left = append(left, val)
						}
					}
					if len(left) == 1 {
						f.eq = left[0]
						out[t] = f
					}
				}
			}
			continue
		}
		if f.lo > f.hi || (f.lo == math.MinInt64 && f.hi == math.MaxInt64) {
			delete(out, t)
		}
	}
	if len(out) == 0 {
		out = nil
	}
	ef.memo[fn] = out
	return out
}

var trueWhenEmptyMemo = map[*ssa.Function]int{}

// trueWhenEmpty: fn has one slice parameter and one bool result, and every
// return reachable when that parameter is empty is the constant true.
func trueWhenEmpty(fn *ssa.Function, depth int) bool {
	if fn == nil || fn.Blocks == nil || len(fn.Params) != 1 || fn.Signature.Results().Len() != 1 || depth > 2 {
		return false
	}
	if _, isSlice := fn.Params[0].Type().Underlying().(*types.Slice); !isSlice {
		return false
	}
	switch trueWhenEmptyMemo[fn] {
	case 1:
		return true
	case 2:
		return false
	}
	trueWhenEmptyMemo[fn] = 2
	fs := NewFactsEntry(fn, nil, state{term{v: fn.Params[0], isLen: true}: fact{lo: 0, hi: 0}})
	fs.depth = depth + 1
	n := 0
	for _, ret := range returnsOf(fn) {
		if _, reach := fs.At(ret.Block()); !reach {
			continue
		}
		n++
		if b, ok := constBool(ret.Results[0]); !ok || !b {
			return false
		}
	}
	if n == 0 {
		return false
	}
	trueWhenEmptyMemo[fn] = 1
	return true
}
