// mutate lists first-order mutations of Go source files and applies one of them.
//
//	mutate list  <repo> <file>...        -> JSON lines {id,file,line,kind,from,to,start,end}
//	mutate apply <repo> <id-json-line>   -> rewrites the file in <repo>
//
// Mutations are textual replacements at positions found on the syntax tree:
// comparison / boolean / arithmetic operator swaps, negated if-conditions,
// integer literals +-1, dropped `.clone()` calls, dropped variadic spreads of
// an `options`/`metadata` argument, swapped adjacent arguments of the same
// spelling class (before/after, a/b). Nothing is executed here.
package main

import (
	"encoding/json"
	"fmt"
	"go/ast"
	"go/parser"
	"go/token"
	"os"
	"path/filepath"
	"strconv"
)

type Mut struct {
	ID    string `json:"id"`
	File  string `json:"file"`
	Line  int    `json:"line"`
	Kind  string `json:"kind"`
	From  string `json:"from"`
	To    string `json:"to"`
	Start int    `json:"start"`
	End   int    `json:"end"`
}

var opSwap = map[token.Token][]string{
	token.EQL: {"!="}, token.NEQ: {"=="},
	token.LSS: {"<=", ">"}, token.LEQ: {"<"}, token.GTR: {">=", "<"}, token.GEQ: {">"},
	token.LAND: {"||"}, token.LOR: {"&&"},
	token.ADD: {"-"}, token.SUB: {"+"},
}

func list(repo string, files []string) {
	enc := json.NewEncoder(os.Stdout)
	for _, f := range files {
		fset := token.NewFileSet()
		path := filepath.Join(repo, f)
		src, err := os.ReadFile(path)
		if err != nil {
			fmt.Fprintln(os.Stderr, err)
			continue
		}
		af, err := parser.ParseFile(fset, path, src, 0)
		if err != nil {
			fmt.Fprintln(os.Stderr, err)
			continue
		}
		n := 0
		emit := func(pos, end token.Pos, kind, to string) {
			s, e := fset.Position(pos).Offset, fset.Position(end).Offset
			n++
			enc.Encode(Mut{ID: fmt.Sprintf("%s#%d", f, n), File: f, Line: fset.Position(pos).Line, Kind: kind, From: string(src[s:e]), To: to, Start: s, End: e})
		}
		ast.Inspect(af, func(nd ast.Node) bool {
			switch x := nd.(type) {
			case *ast.BinaryExpr:
				for _, to := range opSwap[x.Op] {
					if x.Op == token.ADD || x.Op == token.SUB {
						// skip string concatenation heuristically: literal string operands
						if bl, ok := x.X.(*ast.BasicLit); ok && bl.Kind == token.STRING {
							continue
						}
						if bl, ok := x.Y.(*ast.BasicLit); ok && bl.Kind == token.STRING {
							continue
						}
					}
					emit(x.OpPos, x.OpPos+token.Pos(len(x.Op.String())), "op", to)
				}
			case *ast.IfStmt:
				if x.Cond != nil {
					s, e := fset.Position(x.Cond.Pos()).Offset, fset.Position(x.Cond.End()).Offset
					emit(x.Cond.Pos(), x.Cond.End(), "negate-if", "!("+string(src[s:e])+")")
				}
			case *ast.BasicLit:
				if x.Kind == token.INT {
					if v, err := strconv.ParseInt(x.Value, 0, 64); err == nil && v >= -2 && v <= 16 {
						emit(x.Pos(), x.End(), "int", strconv.FormatInt(v+1, 10))
						if v > 0 {
							emit(x.Pos(), x.End(), "int", strconv.FormatInt(v-1, 10))
						}
					}
				}
			case *ast.CallExpr:
				// x.clone() -> x
				if sel, ok := x.Fun.(*ast.SelectorExpr); ok && sel.Sel.Name == "clone" && len(x.Args) == 0 {
					s, e := fset.Position(sel.X.Pos()).Offset, fset.Position(sel.X.End()).Offset
					emit(x.Pos(), x.End(), "drop-clone", string(src[s:e]))
				}
				// f(..., options...) -> f(...)
				if x.Ellipsis.IsValid() && len(x.Args) > 0 {
					last := x.Args[len(x.Args)-1]
					if id, ok := last.(*ast.Ident); ok && (id.Name == "options" || id.Name == "metadata" || id.Name == "opts") {
						start := last.Pos()
						if len(x.Args) > 1 {
							start = x.Args[len(x.Args)-2].End()
						}
						emit(start, x.Ellipsis+3, "drop-options", "")
					}
				}
				// swap two adjacent identifier arguments
				for i := 0; i+1 < len(x.Args); i++ {
					a, ok1 := x.Args[i].(*ast.Ident)
					b, ok2 := x.Args[i+1].(*ast.Ident)
					if ok1 && ok2 && a.Name != b.Name && a.Name != "nil" && b.Name != "nil" {
						emit(a.Pos(), b.End(), "swap-args", b.Name+", "+a.Name)
					}
				}
			case *ast.ReturnStmt:
				// return x, nil -> keep; return nil, err -> skip
			}
			return true
		})
	}
}

func apply(repo string, line string) {
	var m Mut
	if err := json.Unmarshal([]byte(line), &m); err != nil {
		fmt.Fprintln(os.Stderr, err)
		os.Exit(2)
	}
	path := filepath.Join(repo, m.File)
	src, err := os.ReadFile(path)
	if err != nil {
		fmt.Fprintln(os.Stderr, err)
		os.Exit(2)
	}
	if string(src[m.Start:m.End]) != m.From {
		fmt.Fprintln(os.Stderr, "source changed")
		os.Exit(3)
	}
	out := append(append(append([]byte{}, src[:m.Start]...), []byte(m.To)...), src[m.End:]...)
	if err := os.WriteFile(path, out, 0o644); err != nil {
		fmt.Fprintln(os.Stderr, err)
		os.Exit(2)
	}
}

func main() {
	if len(os.Args) < 3 {
		fmt.Fprintln(os.Stderr, "usage: mutate list <repo> <file>... | mutate apply <repo> <json>")
		os.Exit(2)
	}
	switch os.Args[1] {
	case "list":
		list(os.Args[2], os.Args[3:])
	case "apply":
		apply(os.Args[2], os.Args[3])
	}
}
