#!/bin/bash
# usage: seed5run.sh id...  — confirm + check the given /tmp/seed5 seeds in parallel (4 at a time)
run1() { id=$1; d=$(mktemp -d /tmp/one.XXXX); cp -r /tmp/seed5/$id $d/; /verif/scripts/seedall.sh $d 2>&1 | cut -c1-330; rm -rf $d; }
export -f run1
printf '%s\n' "$@" | xargs -P 4 -I{} bash -c 'run1 {}'
