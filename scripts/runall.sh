#!/bin/bash
# runs every claimed check (quick unless $1 = thorough), 6 at a time; prints one line each
cd "$(dirname "$0")/.."
tier=${1:-quick}
ids=$(python3 -c "import json;print(' '.join(c['property_id'] for c in json.load(open('MANIFEST.json'))['checks']))")
printf '%s\n' $ids | xargs -P 6 -I{} sh -c "./check {} $tier > /tmp/runall_{}.out 2>&1; echo \"{} exit=\$? \$(tail -1 /tmp/runall_{}.out | cut -c1-160)\"" | sort
