#!/bin/bash
# usage: benignall.sh [out-file] [jobs] — every stored behaviour-preserving patch against all 18 checks (one load each); prints ALARM lines
OUT=${1:-/tmp/benignall.out}; J=${2:-5}
: > $OUT
ls -d /verif/benign/*/ | xargs -P $J -I{} sh -c 'r=$(/verif/scripts/allprops.sh {} 2>&1); n=$(basename {}); if [ -z "$r" ]; then echo "$n QUIET"; else echo "$r" | sed "s|^|$n ALARM |"; fi' >> $OUT
grep -c QUIET $OUT; grep ALARM $OUT | cut -c1-220
