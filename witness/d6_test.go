package wit
import ("testing"; jd "github.com/josephburnett/jd/v2")
func TestD6(t *testing.T){
  defer func(){ if r:=recover();r!=nil { t.Errorf("panic: %v",r) } }()
  n,err:=jd.ReadYamlString("a: .inf\n")
  if err==nil { _ = n.Json() }
  n,err=jd.ReadYamlString("a: .nan\n")
  if err==nil { _ = n.Json() }
  y,err:=jd.ReadYamlString("a: 18446744073709551615\n")
  if err!=nil { t.Fatalf("yaml big int: %v",err) }
  j,err:=jd.ReadJsonString(`{"a": 18446744073709551615}`)
  if err!=nil { t.Fatal(err) }
  if !y.Equals(j) { t.Errorf("yaml %v json %v",y.Json(),j.Json()) }
  y,err=jd.ReadYamlString("a: 9223372036854775807\n")
  if err!=nil { t.Fatalf("yaml int64: %v",err) }
}
