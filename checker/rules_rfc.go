package main

import (
	"fmt"
	"go/constant"
	"go/token"
	"go/types"
	"strings"

	"golang.org/x/tools/go/ssa"
)

// ---------------------------------------------------------------- R-PTR

func isBuilderWrite(c ssa.CallInstruction) bool {
	n := calleeFullName(c)
	return n == "(*strings.Builder).WriteString" || n == "(*bytes.Buffer).WriteString"
}

// rulePtr: writePointer renders every path element or fails; object keys pass
// through jsonpointer.Escape; number-like keys and "-" are refused (v2).
func rulePtr(w *World, r *Report, pkg *ssa.Package, tag string) {
	rule := "R-PTR"
	if tag == "lib" {
		rule += "(lib)"
	}
	fn := w.Func(pkg, "writePointer")
	r.Fn(fnName(fn))
	pos := w.Pos(fn.Pos())
	ea := newErrAnalysis(w)
	lps := loopsOf(fn)
	if len(lps) != 1 {
		r.Unk(rule, fnName(fn)+":loop", pos, fmt.Sprintf("expected one loop over the path, found %d", len(lps)))
		return
	}
	l := lps[0]
	// (2) every non-constant string written is the result of jsonpointer.Escape
	//     (lib: or the decimal rendering of an integer)
	n := 0
	var contentWrites []*ssa.BasicBlock
	allInstrs(fn, func(in ssa.Instruction) {
		c, ok := in.(ssa.CallInstruction)
		if !ok || !isBuilderWrite(c) {
			return
		}
		arg := c.Common().Args[1]
		if s, isK := constString(arg); isK {
			if s != "/" {
				contentWrites = append(contentWrites, c.Block())
			}
			return
		}
		n++
		contentWrites = append(contentWrites, c.Block())
		key := fmt.Sprintf("%s:write#%d", fnName(fn), n)
		why := ""
		var tokenOK func(v ssa.Value, seen map[ssa.Value]bool) bool
		tokenOK = func(v ssa.Value, seen map[ssa.Value]bool) bool {
			v = strip(v)
			if seen[v] {
				return true
			}
			seen[v] = true
			switch x := v.(type) {
			case *ssa.Const:
				return true
			case *ssa.Call:
				switch calleeFullName(x) {
				case "github.com/go-openapi/jsonpointer.Escape", "strconv.Itoa", "strconv.FormatInt":
					return true
				}
			case *ssa.Phi:
				for _, e := range x.Edges {
					if !tokenOK(e, seen) {
						return false
					}
				}
				return true
			case *ssa.UnOp:
				if a, isA := x.X.(*ssa.Alloc); isA && x.Op == token.MUL {
					if sv, single := singleStore(a); single {
						return tokenOK(sv, seen)
					}
				}
			case *ssa.Extract:
				if tag == "lib" {
					if ta, isTA := x.Tuple.(*ssa.TypeAssert); isTA && typeName(ta.AssertedType) == "jsonStringOrInteger" {
						ok2, w2 := stringOrIntegerLemma(w, pkg)
						if !ok2 {
							why = w2
						}
						return ok2
					}
				}
			}
			if why == "" {
				why = valueName(v)
			}
			return false
		}
		okEsc := tokenOK(arg, map[ssa.Value]bool{})
		r.Check(okEsc, rule, key, w.Pos(c.Pos()), "the written token is the output of jsonpointer.Escape (or a decimal integer)",
			"an unescaped string ("+why+") is written into the JSON Pointer: keys containing '/' or '~' are mistranslated")
	})
	// (1) no silently skipped element: every way round the loop passes a content write or is error-only
	cut := EdgeSet{}
	for _, b := range contentWrites {
		for _, p := range b.Preds {
			for j, s := range p.Succs {
				if s == b {
					cut[Edge{p, j}] = true
				}
			}
		}
	}
	skipped := false
	for _, s := range l.Header.Succs {
		if !l.Blocks[s] {
			continue
		}
		isContent := false
		for _, b := range contentWrites {
			if b == s {
				isContent = true
			}
		}
		if isContent {
			continue
		}
		seen := map[*ssa.BasicBlock]bool{s: true}
		work := []*ssa.BasicBlock{s}
		for len(work) > 0 {
			b := work[len(work)-1]
			work = work[:len(work)-1]
			for j, nx := range b.Succs {
				if cut[Edge{b, j}] {
					continue
				}
				if nx == l.Header {
					skipped = true
				}
				if l.Blocks[nx] && !seen[nx] {
					seen[nx] = true
					work = append(work, nx)
				}
			}
		}
	}
	r.Check(!skipped, rule, fnName(fn)+":no-skipped-element", pos, "every way round the loop writes the element's token (or returns an error)",
		"a path element can be passed over without writing a token: the pointer addresses a different location")
	// arms for element types other than number / string are error-only
	for _, b := range fn.Blocks {
		for _, in := range b.Instrs {
			ta, ok := in.(*ssa.TypeAssert)
			if !ok || !ta.CommaOk {
				continue
			}
			tn := typeName(ta.AssertedType)
			if tn == "jsonNumber" || tn == "jsonString" || tn == "jsonStringOrInteger" {
				continue
			}
			for _, ref := range *ta.Referrers() {
				if ex, ok := ref.(*ssa.Extract); ok && ex.Index == 1 {
					for _, bb := range fn.Blocks {
						if cond, tE, _, okb := branchEdges(bb); okb && cond == ssa.Value(ex) {
							r.Check(ea.errorOnly(tE.To()), rule, fnName(fn)+":arm:"+tn, w.Pos(ta.Pos()), "a "+tn+" path element is refused with an error",
								"a "+tn+" path element (jd metadata / set path) is translated instead of refused")
						}
					}
				}
			}
		}
	}
	if tag != "v2" {
		return
	}
	// (3) the key write is behind the refusal of number-like keys and of "-"
	var keyWrite *ssa.BasicBlock
	allInstrs(fn, func(in ssa.Instruction) {
		c, ok := in.(ssa.CallInstruction)
		if !ok || !isBuilderWrite(c) {
			return
		}
		if call, isC := strip(c.Common().Args[1]).(*ssa.Call); isC && calleeFullName(call) == "github.com/go-openapi/jsonpointer.Escape" {
			if ct, ok := strip(call.Call.Args[0]).(*ssa.Extract); ok {
				if ta, ok := ct.Tuple.(*ssa.TypeAssert); ok && typeName(ta.AssertedType) == "jsonString" {
					keyWrite = c.Block()
				}
			}
		}
	})
	if keyWrite == nil {
		r.Bad(rule, fnName(fn)+":key-write", pos, "the write of an object key through jsonpointer.Escape was not found")
		return
	}
	okAtoi, okDash := false, false
	for _, b := range fn.Blocks {
		cond, tE, fE, okb := branchEdges(b)
		if !okb {
			continue
		}
		bo, ok := cond.(*ssa.BinOp)
		if !ok {
			continue
		}
		// err == nil from strconv.Atoi / ParseInt
		if (bo.Op == token.EQL || bo.Op == token.NEQ) && isNilConst(bo.Y) {
			if ex, ok := bo.X.(*ssa.Extract); ok {
				if c, ok := ex.Tuple.(*ssa.Call); ok {
					switch calleeFullName(c) {
					case "strconv.Atoi", "strconv.ParseInt", "strconv.ParseFloat":
						succ, other := tE, fE
						if bo.Op == token.NEQ {
							succ, other = fE, tE
						}
						if ea.errorOnly(succ.To()) && edgeDominatesOrSame(other, keyWrite) {
							okAtoi = true
						}
					}
				}
			}
		}
		if bo.Op == token.EQL {
			if s, isK := constString(bo.Y); isK && s == "-" && ea.errorOnly(tE.To()) && edgeDominatesOrSame(fE, keyWrite) {
				okDash = true
			}
		}
	}
	r.Check(okAtoi, rule, fnName(fn)+":refuse-number-like-key", pos, "a key that parses as an integer is refused before it could be written",
		"an object key that looks like a number is written into the pointer: an RFC 6902 evaluator (and jd's own reader) takes it for an array index")
	r.Check(okDash, rule, fnName(fn)+":refuse-dash-key", pos, `the key "-" is refused before it could be written`,
		`the object key "-" is written into the pointer: RFC 6902 reads it as the append position`)
}

// stringOrIntegerLemma: every conversion to jsonStringOrInteger in the package
// is dominated by the success edge of strconv.Atoi on the converted string:
// such a token consists of digits (and a sign) and needs no escaping.
func stringOrIntegerLemma(w *World, pkg *ssa.Package) (bool, string) {
	n := 0
	for _, fn := range w.FuncsOf(pkg) {
		bad := ""
		allInstrs(fn, func(in ssa.Instruction) {
			var X ssa.Value
			switch x := in.(type) {
			case *ssa.ChangeType:
				if typeName(x.Type()) == "jsonStringOrInteger" {
					X = x.X
				}
			case *ssa.Convert:
				if typeName(x.Type()) == "jsonStringOrInteger" {
					X = x.X
				}
			}
			if X == nil {
				return
			}
			if _, isK := X.(*ssa.Const); isK {
				return
			}
			n++
			ok := false
			for _, b := range fn.Blocks {
				cond, tE, fE, okb := branchEdges(b)
				if !okb {
					continue
				}
				bo, isB := cond.(*ssa.BinOp)
				if !isB || !(isNilConst(bo.Y) || isNilConst(bo.X)) {
					continue
				}
				ev := bo.X
				if isNilConst(ev) {
					ev = bo.Y
				}
				ex, isEx := ev.(*ssa.Extract)
				if !isEx {
					continue
				}
				c, isC := ex.Tuple.(*ssa.Call)
				if !isC || calleeFullName(c) != "strconv.Atoi" || strip(c.Call.Args[0]) != strip(X) {
					continue
				}
				e := tE
				if bo.Op == token.NEQ {
					e = fE
				}
				if edgeDominatesOrSame(e, in.Block()) {
					ok = true
				}
			}
			if !ok {
				bad = w.Pos(in.Pos())
			}
		})
		if bad != "" {
			return false, "a jsonStringOrInteger is made at " + bad + " from a string that strconv.Atoi did not accept, and such tokens are written into pointers unescaped"
		}
	}
	if n == 0 {
		return false, "no construction of jsonStringOrInteger found"
	}
	return true, ""
}

func edgeDominatesOrSame(e Edge, b *ssa.BasicBlock) bool {
	return e.To() == b || edgeDominates(e, b)
}

// ---------------------------------------------------------------- R-PAIR / R-REVADD

type opLiteral struct {
	alloc  *ssa.Alloc
	op     string
	fields map[string]ssa.Value
	block  *ssa.BasicBlock
	idx    int // position in block
}

// opLiterals: patchElement composite literals in fn.
func opLiterals(fn *ssa.Function, pkg *ssa.Package) []opLiteral {
	pt := pkg.Type("patchElement")
	if pt == nil {
		return nil
	}
	var out []opLiteral
	for _, b := range fn.Blocks {
		for i, in := range b.Instrs {
			a, ok := in.(*ssa.Alloc)
			if !ok || !types.Identical(a.Type().(*types.Pointer).Elem(), pt.Type()) {
				continue
			}
			lit := opLiteral{alloc: a, fields: map[string]ssa.Value{}, block: b, idx: i}
			for _, ref := range *a.Referrers() {
				fa, ok := ref.(*ssa.FieldAddr)
				if !ok {
					continue
				}
				for _, r2 := range *fa.Referrers() {
					if st, ok := r2.(*ssa.Store); ok {
						lit.fields[fieldName(fa.X.Type(), fa.Field)] = st.Val
					}
				}
			}
			if s, ok := constString(lit.fields["Op"]); ok {
				lit.op = s
			}
			if len(lit.fields) > 0 {
				out = append(out, lit)
			}
		}
	}
	return out
}

func rulePair(w *World, r *Report, pkg *ssa.Package, tag string) {
	rule := "R-PAIR"
	if tag == "lib" {
		rule += "(lib)"
	}
	fn := w.Method(pkg, "Diff", "RenderPatch")
	r.Fn(fnName(fn))
	lits := opLiterals(fn, pkg)
	// helpers the renderer hands its work to (depth 2)
	helperCalls := map[*ssa.Function][]*ssa.Call{}
	var collect func(f *ssa.Function, depth int)
	collect = func(f *ssa.Function, depth int) {
		allInstrs(f, func(in ssa.Instruction) {
			c, ok := in.(*ssa.Call)
			if !ok {
				return
			}
			sf := staticCallee(c)
			if sf == nil || fnPkg(sf) != pkg.Pkg || sf.Blocks == nil || sf.Parent() != nil || w.helperIs(sf, "writePointer") {
				return
			}
			if hl := opLiterals(sf, pkg); len(hl) > 0 {
				if _, seen := helperCalls[sf]; !seen {
					lits = append(lits, hl...)
					if depth < 2 {
						collect(sf, depth+1)
					}
				}
				helperCalls[sf] = append(helperCalls[sf], c)
			}
		})
	}
	collect(fn, 0)
	if len(lits) < 3 {
		r.Bad(rule, fnName(fn)+":literals", w.Pos(fn.Pos()), fmt.Sprintf("only %d JSON Patch op literals found", len(lits)))
		return
	}
	wp := w.FuncOpt(pkg, "writePointer")
	for i, l := range lits {
		var fromWPd func(v ssa.Value, depth int) bool
		fromWPd = func(v ssa.Value, depth int) bool {
			if ex, ok := strip(v).(*ssa.Extract); ok && ex.Index == 0 {
				if c, ok := ex.Tuple.(*ssa.Call); ok && staticCallee(c) == wp && wp != nil {
					return true
				}
				// a helper of the package that hands on writePointer's output (benign F-r4): each of its
				// returns gives writePointer's result, or a constant together with an error
				if c, ok := ex.Tuple.(*ssa.Call); ok && depth < 2 {
					if g := staticCallee(c); g != nil && g.Blocks != nil && fnPkg(g) == pkg.Pkg && g != wp && lastIsError(g.Signature) {
						rets := returnsOf(g)
						all := len(rets) > 0
						for _, ret := range rets {
							if _, isC := strip(ret.Results[0]).(*ssa.Const); isC && !isNilConst(ret.Results[len(ret.Results)-1]) {
								continue
							}
							if !fromWPd(ret.Results[0], depth+1) {
								all = false
							}
						}
						return all
					}
				}
			}
			return false
		}
		fromWP := func(v ssa.Value) bool { return fromWPd(v, 0) }
		okSrc := fromWP(l.fields["Path"])
		if p, isParam := strip(l.fields["Path"]).(*ssa.Parameter); isParam && !okSrc {
			// literal lives in a helper: every caller must pass writePointer's output
			helper := p.Parent()
			pi := -1
			for i, q := range helper.Params {
				if q == p {
					pi = i
				}
			}
			calls := helperCalls[helper]
			okSrc = len(calls) > 0 && pi >= 0
			for _, c := range calls {
				if pi >= len(c.Call.Args) || !fromWP(c.Call.Args[pi]) {
					okSrc = false
				}
			}
		}
		r.Check(okSrc, rule, fmt.Sprintf("%s:op#%d:%s:pointer-from-writePointer", fnName(fn), i+1, l.op), w.Pos(l.alloc.Pos()),
			"the op's pointer is the output of writePointer on a path",
			"the op's pointer is "+valueName(strip(l.fields["Path"]))+", not the output of writePointer: pointers assembled by string manipulation bypass escaping and the refusal rules")
	}
	nRemove := 0
	for _, l := range lits {
		key := fmt.Sprintf("%s:op:%s", fnName(fn), l.op)
		switch l.op {
		case "test", "add":
			r.Ok(rule, key+fmt.Sprintf("@b%d.%d", 0, 0)[:0]+fmt.Sprintf("#%d", l.idx), w.Pos(l.alloc.Pos()), "op is in the supported subset")
		case "remove":
			nRemove++
			// immediately preceded (same block) by a test with the same Path and Value
			var prev *opLiteral
			for i := range lits {
				m := &lits[i]
				if m.block == l.block && m.idx < l.idx && (prev == nil || m.idx > prev.idx) {
					prev = m
				}
			}
			ok := prev != nil && prev.op == "test" && prev.fields["Path"] == l.fields["Path"] && sameValue(prev.fields["Value"], l.fields["Value"])
			r.Check(ok, rule, fmt.Sprintf("%s:remove-preceded-by-test#%d", fnName(fn), nRemove), w.Pos(l.alloc.Pos()),
				"every remove op is emitted right after a test op on the same pointer with the same value",
				"a remove op is emitted without a preceding test of the same pointer and value: the JSON Patch removes whatever is there, the native diff only what it expects")
		default:
			r.Bad(rule, key, w.Pos(l.alloc.Pos()), fmt.Sprintf("op %q is outside the subset {test, remove, add} the reader and RFC translation are defined for", l.op))
		}
	}
	if nRemove == 0 {
		r.Bad(rule, fnName(fn)+":no-remove", w.Pos(fn.Pos()), "no remove op literal found")
	}
}

// ruleRevAdd: if all adds of one hunk go to one (loop-invariant) pointer, the
// hunk's Add list must be traversed backwards.
func ruleRevAdd(w *World, r *Report, pkg *ssa.Package, tag, addField string) {
	rule := "R-REVADD"
	if tag == "lib" {
		rule += "(lib)"
	}
	fn := w.Method(pkg, "Diff", "RenderPatch")
	lps := loopsOf(fn)
	for _, l := range opLiterals(fn, pkg) {
		if l.op != "add" {
			continue
		}
		lp := innermostLoop(lps, l.block)
		key := fnName(fn) + ":adds-in-reverse"
		pos := w.Pos(l.alloc.Pos())
		if lp == nil {
			r.Ok(rule, key, pos, "a single add per hunk: no order to get wrong")
			continue
		}
		if lp.definedIn(l.fields["Path"]) {
			r.Ok(rule, key, pos, "every add has its own pointer (premise of the rule does not hold): no claim")
			continue
		}
		// the value comes from X[idx]; idx must decrease, or X must be a reversed copy
		val := strip(l.fields["Value"])
		okRev := false
		why := "the added values are not read from the hunk's list by index"
		if ld, ok := val.(*ssa.UnOp); ok && ld.Op == token.MUL {
			if ia, ok := ld.X.(*ssa.IndexAddr); ok {
				if phi, ok := ia.Index.(*ssa.Phi); ok && phi.Block() == lp.Header {
					dec := false
					for i, e := range phi.Edges {
						if lp.Blocks[phi.Block().Preds[i]] {
							if bo, ok := e.(*ssa.BinOp); ok && bo.Op == token.SUB && bo.X == ssa.Value(phi) {
								if k, ok := constInt(bo.Y); ok && k == 1 {
									dec = true
								}
							}
						}
					}
					okRev = dec
					why = "the index into the hunk's " + addField + " list does not decrease"
				} else {
					// rangeindex loop (increasing) over X: fine only if X is a reversed copy
					why = "the hunk's " + addField + " list is traversed forwards"
					allInstrs(fn, func(in ssa.Instruction) {
						if c, ok := in.(ssa.CallInstruction); ok && strings.HasSuffix(calleeFullName(c), "slices.Reverse") {
							if strip(c.Common().Args[0]) == strip(ia.X) && c.Block().Dominates(lp.Header) {
								okRev = true
							}
						}
					})
				}
			}
		}
		r.Check(okRev, rule, key, pos, "all adds of a hunk target one index and the hunk's "+addField+" list is traversed backwards, so an RFC 6902 evaluator (add = insert before) reproduces the order",
			"all adds of a hunk target one index but "+why+": an RFC 6902 evaluator inserts them in reverse order")
	}
}

// ---------------------------------------------------------------- C10 reader rules

// ruleOpSubset: readPatchDiffElement accepts test+remove pairs and add only.
func ruleOpSubset(w *World, r *Report, pkg *ssa.Package) {
	const rule = "R-OPSUBSET"
	fn := w.Func(pkg, "readPatchDiffElement")
	r.Fn(fnName(fn))
	pos := w.Pos(fn.Pos())
	ea := newErrAnalysis(w)
	// the two sides of a pair check must come from two different ops of the list (the function's first
	// parameter): a check that compares an op's field with the same op's field holds trivially
	dOps := NewDeriv(w, fn)
	selfCompared := func(a, b ssa.Value) bool {
		if len(fn.Params) == 0 {
			return false
		}
		ka, kb := opIndexSet(dOps, a, fn.Params[0]), opIndexSet(dOps, b, fn.Params[0])
		return len(ka) == 1 && len(kb) == 1 && sameKeys(ka, kb)
	}
	// op constants compared in the function
	ops := map[string]bool{}
	isOpField := func(v ssa.Value) bool {
		_, sel := accessPath(v)
		return strings.HasSuffix(selString(sel), ".Op")
	}
	isPathField := func(v ssa.Value) bool {
		_, sel := accessPath(v)
		return strings.HasSuffix(selString(sel), ".Path")
	}
	allInstrs(fn, func(in ssa.Instruction) {
		if bo, ok := in.(*ssa.BinOp); ok && (bo.Op == token.EQL || bo.Op == token.NEQ) && isOpField(bo.X) {
			if s, ok := constString(bo.Y); ok {
				ops[s] = true
			}
		}
	})
	got := strings.Join(sortedKeys(ops), ",")
	r.Check(got == "add,remove,test", rule, fnName(fn)+":ops", pos, "the reader distinguishes exactly the ops add, remove, test",
		"the reader's op vocabulary is {"+got+"}, the supported subset is {add, remove, test}")
	// the commit of the test arm: success return whose rest skips two ops
	var testCommit *ssa.Return
	for _, ret := range returnsOf(fn) {
		if !isNilErrReturn(ret) {
			continue
		}
		// the rest of the op list: the result that re-slices the function's first parameter (whatever
		// its position among the results)
		for _, res := range ret.Results {
			if sl, ok := res.(*ssa.Slice); ok && sl.Low != nil && len(fn.Params) > 0 && types.Identical(sl.Type(), fn.Params[0].Type()) {
				if k, ok := constInt(sl.Low); ok && k == 2 {
					testCommit = ret
				}
			}
		}
	}
	if testCommit == nil {
		r.Bad(rule, fnName(fn)+":test-commit", pos, "the success return of a test+remove pair (skipping two ops) was not found")
	} else {
		var nextIsRemove, samePath, sameValue bool
		for _, b := range fn.Blocks {
			cond, tE, fE, ok := branchEdges(b)
			if !ok {
				continue
			}
			switch x := cond.(type) {
			case *ssa.BinOp:
				if x.Op == token.NEQ && isOpField(x.X) {
					if s, ok := constString(x.Y); ok && s == "remove" && ea.errorOnly(tE.To()) && edgeDominatesOrSame(fE, testCommit.Block()) {
						nextIsRemove = true
					}
				}
				if x.Op == token.NEQ && isPathField(x.X) && isPathField(x.Y) && ea.errorOnly(tE.To()) && edgeDominatesOrSame(fE, testCommit.Block()) {
					if !selfCompared(x.X, x.Y) {
						samePath = true
					}
				}
			case *ssa.Call:
				if x.Call.IsInvoke() && x.Call.Method.Name() == "Equals" && ea.errorOnly(fE.To()) && edgeDominatesOrSame(tE, testCommit.Block()) {
					if len(x.Call.Args) == 0 || !selfCompared(x.Call.Value, x.Call.Args[0]) {
						sameValue = true
					}
				}
			}
		}
		r.Check(nextIsRemove, rule, fnName(fn)+":test-followed-by-remove", pos, "a test op commits only if the next op is a remove; otherwise an error", "a test op can be accepted without a following remove op")
		r.Check(samePath, rule, fnName(fn)+":same-path", pos, "test and remove must address the same pointer; otherwise an error", "test and remove ops with different pointers are accepted as a pair")
		r.Check(sameValue, rule, fnName(fn)+":same-value", pos, "test and remove must carry equal values; otherwise an error", "test and remove ops with different values are accepted as a pair")
	}
	// any other op is an error
	opKnown := func(cond ssa.Value) (bool, bool) {
		if bo, ok := cond.(*ssa.BinOp); ok && (bo.Op == token.EQL || bo.Op == token.NEQ) && isOpField(bo.X) {
			if _, ok := constString(bo.Y); ok {
				return bo.Op == token.NEQ, true // op equals none of the constants
			}
		}
		return false, false
	}
	reach, _ := reachPruned(fn.Blocks[0], opKnown, nil)
	okOther := true
	for b := range reach {
		if ret, ok := b.Instrs[len(b.Instrs)-1].(*ssa.Return); ok && !ea.isErrorReturn(ret) {
			okOther = false
		}
	}
	r.Check(okOther, rule, fnName(fn)+":other-ops-rejected", pos, "an op outside the subset only leads to error returns", "an op outside {test, remove, add} can lead to a success return")
}

// ruleParent: a test op is consumed as list context only if it addresses the
// same array as the edit: the decision must relate the two pointers by more
// than their last index.
func ruleParent(w *World, r *Report, pkg *ssa.Package) {
	const rule = "R-PARENT"
	top := w.Func(pkg, "setPatchDiffElementContext")
	// scope: the context reader and the functions of the package it hands its
	// op list to (the detection may live in a helper that returns the rest)
	type unit struct {
		fn    *ssa.Function
		patch *ssa.Parameter
	}
	units := []unit{{top, top.Params[0]}}
	seenU := map[*ssa.Function]bool{top: true}
	for i := 0; i < len(units); i++ {
		u := units[i]
		allInstrs(u.fn, func(in ssa.Instruction) {
			c, ok := in.(*ssa.Call)
			if !ok {
				return
			}
			sf := staticCallee(c)
			if sf == nil || sf.Blocks == nil || fnPkg(sf) != pkg.Pkg || seenU[sf] || len(c.Call.Args) != len(sf.Params) {
				return
			}
			for j, a := range c.Call.Args {
				if strip(a) == ssa.Value(u.patch) {
					seenU[sf] = true
					units = append(units, unit{sf, sf.Params[j]})
				}
			}
		})
	}
	n := 0
	for _, u := range units {
		fn, patch := u.fn, u.patch
		r.Fn(fnName(fn))
		d := NewDeriv(w, fn)
		// comparisons that relate two pointers other than by PathIndex values
		var rels []Edge
		fromPointerOf := func(v ssa.Value) bool {
			// derived from a .Path field of an element of patch, and not an index value
			if typeName(v.Type()) == "PathIndex" {
				return false
			}
			vis := d.Visited(v)
			for x := range vis {
				if _, sel := accessPath(x); strings.HasSuffix(selString(sel), "[].Path") {
					if root, _ := accessPath(x); root == ssa.Value(patch) {
						return true
					}
				}
			}
			return false
		}
		for _, b := range fn.Blocks {
			cond, tE, fE, ok := branchEdges(b)
			if !ok {
				continue
			}
			bo, ok := cond.(*ssa.BinOp)
			if !ok || (bo.Op != token.EQL && bo.Op != token.NEQ) {
				continue
			}
			if _, isK := bo.Y.(*ssa.Const); isK {
				continue
			}
			if fromPointerOf(bo.X) && fromPointerOf(bo.Y) {
				// ... of two different ops: comparing an op's pointer with itself relates nothing
				if kx, ky := opIndexSet(d, bo.X, patch), opIndexSet(d, bo.Y, patch); len(kx) == 1 && len(ky) == 1 && sameKeys(kx, ky) {
					continue
				}
				if bo.Op == token.EQL {
					rels = append(rels, tE)
				} else {
					rels = append(rels, fE)
				}
			}
		}
		k := 0
		for _, ret := range returnsOf(fn) {
			if !isNilErrReturn(ret) {
				continue
			}
			// a result that is the op list with its head cut off
			consumes := false
			for _, rv := range ret.Results {
				sl, ok := strip(rv).(*ssa.Slice)
				if !ok || sl.Low == nil || strip(sl.X) != ssa.Value(patch) {
					continue
				}
				if lo, _ := constInt(sl.Low); lo >= 1 {
					consumes = true
				}
			}
			if !consumes {
				continue
			}
			n++
			k++
			key := fmt.Sprintf("%s:consume#%d", fnName(fn), k)
			okRel := false
			for _, e := range rels {
				if edgeDominatesOrSame(e, ret.Block()) {
					okRel = true
				}
			}
			r.Check(okRel, rule, key, w.Pos(ret.Pos()), "a test op is consumed as context only after its pointer was related to the edit's pointer beyond the last index (same array)",
				"a test op is consumed as list context although only the last index of its pointer was compared with the edit's: a test on another array is swallowed, and jd applies a patch RFC 6902 rejects")
		}
	}
	if n < 4 {
		r.Bad(rule, fnName(top)+":instance-floor", w.Pos(top.Pos()), fmt.Sprintf("only %d context-consuming returns found", n))
	}
	// pointer identity is decided on the escaped text (or token by token):
	// decoded tokens glued back together with "/" are ambiguous ("a/b" as
	// one key and a, b as two), so nothing the context reader reaches may
	// join or concatenate decoded tokens into a string
	reach := map[*ssa.Function]bool{top: true}
	work := []*ssa.Function{top}
	for len(work) > 0 {
		f := work[0]
		work = work[1:]
		allInstrs(f, func(in ssa.Instruction) {
			c, ok := in.(ssa.CallInstruction)
			if !ok {
				return
			}
			if sf := staticCallee(c); sf != nil && sf.Blocks != nil && fnPkg(sf) == pkg.Pkg && !reach[sf] {
				reach[sf] = true
				work = append(work, sf)
			}
		})
	}
	glued := ""
	for f := range reach {
		d := NewDeriv(w, f)
		decodedIn := func(v ssa.Value) bool {
			for x := range d.Visited(v) {
				if c, ok := x.(*ssa.Call); ok {
					name := calleeFullName(c)
					if strings.HasSuffix(name, ".DecodedTokens") || strings.HasSuffix(name, "jsonpointer.Unescape") {
						return true
					}
				}
			}
			return false
		}
		allInstrs(f, func(in ssa.Instruction) {
			switch x := in.(type) {
			case *ssa.Call:
				if calleeFullName(x) == "strings.Join" && len(x.Call.Args) == 2 && decodedIn(x.Call.Args[0]) {
					glued = fnName(f) + " joins decoded pointer tokens at " + w.Pos(x.Pos())
				}
			case *ssa.BinOp:
				if x.Op == token.ADD && isStringType(x.Type()) && (decodedIn(x.X) || decodedIn(x.Y)) {
					glued = fnName(f) + " concatenates decoded pointer tokens at " + w.Pos(x.Pos())
				}
			}
		})
	}
	// the parent of a pointer is everything before its LAST separator
	first := ""
	for f := range reach {
		allInstrs(f, func(in ssa.Instruction) {
			sl, ok := in.(*ssa.Slice)
			if !ok || !isStringType(sl.X.Type()) || sl.High == nil {
				return
			}
			if c, ok := stripInt(sl.High).(*ssa.Call); ok {
				switch calleeFullName(c) {
				case "strings.Index", "strings.IndexByte", "strings.IndexRune", "strings.IndexAny":
					if len(c.Call.Args) >= 1 && strip(c.Call.Args[0]) == strip(sl.X) {
						first = fnName(f) + " cuts the pointer at its first separator (" + calleeFullName(c) + ") at " + w.Pos(sl.Pos())
					}
				}
			}
		})
	}
	r.Check(first == "", rule, fnName(top)+":parent-is-up-to-the-last-separator", w.Pos(top.Pos()),
		"no function the context reader reaches cuts a pointer at its first separator",
		first+": every pointer below the root then has the same `parent`, so a test on one array is taken as context of an edit in another (more permissive than RFC 6902)")
	r.Check(glued == "", rule, fnName(top)+":pointer-identity-on-escaped-text", w.Pos(top.Pos()),
		fmt.Sprintf("none of the %d functions the context reader reaches glues decoded pointer tokens back into a string", len(reach)),
		glued+": after decoding, `~1` is a plain `/`, so the pointers /a~1b/0 and /a/b/0 get the same text; a test on one array is then taken as context of an edit in the other (more permissive than RFC 6902)")
}

// rulePtrRead: readPointer decodes tokens, maps "-" to -1 and digits to indices.
func rulePtrRead(w *World, r *Report, pkg *ssa.Package) {
	const rule = "R-PTRREAD"
	fn := w.Func(pkg, "readPointer")
	r.Fn(fnName(fn))
	pos := w.Pos(fn.Pos())
	decoded, atoi, dash := false, false, false
	allInstrs(fn, func(in ssa.Instruction) {
		switch x := in.(type) {
		case *ssa.Call:
			switch calleeFullName(x) {
			case "(*github.com/go-openapi/jsonpointer.Pointer).DecodedTokens", "(github.com/go-openapi/jsonpointer.Pointer).DecodedTokens":
				decoded = true
			case "strconv.Atoi":
				atoi = true
			}
		case *ssa.BinOp:
			if x.Op == token.EQL {
				if s, ok := constString(x.Y); ok && s == "-" {
					dash = true
				}
			}
		}
	})
	// the dash arm produces -1: a numeric constant -1 is used in a block that
	// lies behind the true edge of a comparison with "-"
	minus := false
	for _, b := range fn.Blocks {
		cond, tE, _, ok := branchEdges(b)
		if !ok {
			continue
		}
		bo, isB := cond.(*ssa.BinOp)
		if !isB || bo.Op != token.EQL {
			continue
		}
		if s, isK := constString(bo.Y); !isK || s != "-" {
			continue
		}
		for _, blk := range fn.Blocks {
			if blk != tE.To() && !edgeDominates(tE, blk) {
				continue
			}
			for _, in := range blk.Instrs {
				var ops []*ssa.Value
				for _, op := range in.Operands(ops) {
					if c, isC := (*op).(*ssa.Const); isC && c.Value != nil {
						if f, okf := constantFloat(c); okf && f == -1 {
							minus = true
						}
					}
				}
			}
		}
	}
	r.Check(decoded, rule, fnName(fn)+":decoded-tokens", pos, "tokens are taken from DecodedTokens (unescaped)", "tokens are not decoded (~0, ~1 stay escaped): keys with '/' or '~' are misread")
	r.Check(atoi, rule, fnName(fn)+":digits-to-index", pos, "tokens accepted by strconv.Atoi become indices", "numeric tokens are no longer turned into indices")
	r.Check(dash && minus, rule, fnName(fn)+":dash-to-minus-one", pos, `the token "-" becomes index -1 (append)`, `the token "-" is no longer mapped to the append index -1`)
}

// rulePrepend: when ReadPatchString coalesces an add into the previous hunk at
// the same path, the new value goes in front.
func rulePrepend(w *World, r *Report, pkg *ssa.Package) {
	const rule = "R-PREPEND"
	fn := w.Func(pkg, "ReadPatchString")
	h := newHunkType(pkg)
	// the coalescing step may live in a helper the reader calls (benign E-r3): take the first function
	// reached from the reader (depth 2) that stores into a hunk's Add
	{
		coalesces := func(f *ssa.Function) bool {
			for _, fs := range h.fieldStores(f, "Add") {
				if c, ok := strip(fs.st.Val).(*ssa.Call); ok {
					if b, ok := c.Call.Value.(*ssa.Builtin); ok && b.Name() == "append" && len(c.Call.Args) == 2 {
						_, sel0 := accessPath(c.Call.Args[0])
						_, sel1 := accessPath(c.Call.Args[1])
						if strings.HasSuffix(selString(sel0), ".Add") && strings.HasSuffix(selString(sel1), ".Add") {
							return true
						}
					}
				}
			}
			return false
		}
		seen := map[*ssa.Function]bool{}
		var find func(f *ssa.Function, depth int) *ssa.Function
		find = func(f *ssa.Function, depth int) *ssa.Function {
			if f == nil || f.Blocks == nil || seen[f] || depth > 2 || fnPkg(f) != pkg.Pkg {
				return nil
			}
			seen[f] = true
			if coalesces(f) {
				return f
			}
			var out *ssa.Function
			allInstrs(f, func(in ssa.Instruction) {
				if c, ok := in.(*ssa.Call); ok && out == nil {
					out = find(staticCallee(c), depth+1)
				}
			})
			return out
		}
		if !coalesces(fn) {
			if g := find(fn, 0); g != nil {
				fn = g
			}
		}
	}
	r.Fn(fnName(fn))
	ok := false
	var pos token.Pos
	for _, fs := range h.fieldStores(fn, "Add") {
		pos = fs.st.Pos()
		c, isC := strip(fs.st.Val).(*ssa.Call)
		if !isC {
			continue
		}
		b, isB := c.Call.Value.(*ssa.Builtin)
		if !isB || b.Name() != "append" {
			continue
		}
		// append(new.Add, existing.Add...): arg0 from the freshly read element, arg1 from the stored hunk
		_, sel0 := accessPath(c.Call.Args[0])
		_, sel1 := accessPath(c.Call.Args[1])
		if strings.HasSuffix(selString(sel0), ".Add") && strings.HasSuffix(selString(sel1), ".Add") {
			root1, _ := accessPath(c.Call.Args[1])
			rootDst, _ := addrPath(fs.addr.X)
			if root1 == rootDst {
				ok = true
			}
		}
	}
	r.Check(ok, rule, fnName(fn)+":coalesce-add-in-front", w.Pos(pos), "a coalesced add is placed in front of the adds already collected for that path (RFC 6902 add inserts before)",
		"a coalesced add is appended behind the adds already collected: successive RFC 6902 adds at one index insert in front, so the read hunk has them reversed")
	// the append position is the exception: successive `add …/-` ops each go to the current end, so
	// they are collected in order — on a branch that knows the index is -1
	{
		var newFirst, oldFirst []*ssa.Store
		var rootE ssa.Value
		for _, fs := range h.fieldStores(fn, "Add") {
			c, isC := strip(fs.st.Val).(*ssa.Call)
			if !isC {
				continue
			}
			b, isB := c.Call.Value.(*ssa.Builtin)
			if !isB || b.Name() != "append" || len(c.Call.Args) != 2 {
				continue
			}
			root0, sel0 := accessPath(c.Call.Args[0])
			root1, sel1 := accessPath(c.Call.Args[1])
			if !strings.HasSuffix(selString(sel0), ".Add") || !strings.HasSuffix(selString(sel1), ".Add") {
				continue
			}
			rootDst, _ := addrPath(fs.addr.X)
			switch {
			case root1 == rootDst && root0 != rootDst:
				newFirst = append(newFirst, fs.st)
				rootE = root0
			case root0 == rootDst && root1 != rootDst:
				oldFirst = append(oldFirst, fs.st)
				rootE = root1
			}
		}
		d := NewDeriv(w, fn)
		knowsDash := func(cond ssa.Value) bool {
			for v := range d.Visited(cond) {
				switch x := v.(type) {
				case *ssa.BinOp:
					if k, ok := constInt(x.Y); ok && k == -1 {
						return true
					}
					if k, ok := constInt(x.X); ok && k == -1 {
						return true
					}
				case *ssa.Call:
					if sf := staticCallee(x); sf != nil && sf.Blocks != nil && fnPkg(sf) == pkg.Pkg {
						found := false
						allInstrs(sf, func(in ssa.Instruction) {
							if bo, ok := in.(*ssa.BinOp); ok {
								if k, ok := constInt(bo.Y); ok && k == -1 {
									found = true
								}
							}
						})
						if found {
							return true
						}
					}
				}
			}
			return false
		}
		inOrder := false
		for _, st := range oldFirst {
			for _, b := range fn.Blocks {
				cond, tE, fE, okb := branchEdges(b)
				if !okb || !knowsDash(cond) {
					continue
				}
				if edgeDominates(tE, st.Block()) || edgeDominates(fE, st.Block()) {
					inOrder = true
				}
			}
		}
		r.Check(inOrder, rule, fnName(fn)+":coalesce-append-position-in-order", w.Pos(pos),
			"adds coalesced at the append position (index -1, the pointer token `-`) are collected in the order of the ops",
			"every coalesced add is placed in front, also at the append position: `add /- 1, add /- 2` is read as a hunk adding 2 then 1, where RFC 6902 appends 1 then 2")
		// an element that carries context of its own is not folded into the previous hunk (its context would be lost)
		if rootE != nil && len(newFirst)+len(oldFirst) > 0 {
			looks := func(cond ssa.Value) (bool, bool) {
				bef, aft := false, false
				for v := range d.Visited(cond) {
					switch x := v.(type) {
					case *ssa.FieldAddr:
						switch fieldName(x.X.Type(), x.Field) {
						case "Before":
							bef = true
						case "After":
							aft = true
						}
					case *ssa.Field:
						switch fieldName(x.X.Type(), x.Field) {
						case "Before":
							bef = true
						case "After":
							aft = true
						}
					case *ssa.Call:
						if sf := staticCallee(x); sf != nil && sf.Blocks != nil && fnPkg(sf) == pkg.Pkg {
							fromE := false
							for _, a := range x.Call.Args {
								if ra, _ := accessPath(a); ra == rootE || d.HasRoot(a, rootE) {
									fromE = true
								}
							}
							if fromE {
								allInstrs(sf, func(in ssa.Instruction) {
									switch y := in.(type) {
									case *ssa.FieldAddr:
										switch fieldName(y.X.Type(), y.Field) {
										case "Before":
											bef = true
										case "After":
											aft = true
										}
									case *ssa.Field:
										switch fieldName(y.X.Type(), y.Field) {
										case "Before":
											bef = true
										case "After":
											aft = true
										}
									}
								})
							}
						}
					}
				}
				return bef, aft
			}
			guarded := true
			for _, st := range append(append([]*ssa.Store{}, newFirst...), oldFirst...) {
				g := false
				for _, b := range fn.Blocks {
					cond, tE, fE, okb := branchEdges(b)
					if !okb || !(edgeDominates(tE, st.Block()) || edgeDominates(fE, st.Block())) {
						continue
					}
					if bef, aft := looks(cond); bef && aft {
						g = true
					}
				}
				if !g {
					guarded = false
				}
			}
			// or the context is carried over: stores into Before and After of the stored hunk in the same block
			r.Check(guarded, "R-COALESCE", fnName(fn)+":coalesce-keeps-context", w.Pos(pos),
				"an element is folded into the previous hunk only behind a test of its own before- and after-context",
				"an element on the same path is folded into the previous hunk without its Before/After being looked at: test ops that became its context are dropped — [test /0 1, test /2 3, test /1 2, remove /1 2, test /0 3, add /1 4] applied to [1,2,3] gives [1,4,3] where RFC 6902 fails at the fifth op")
		}
	}
}

// ---------------------------------------------------------------- R-MERGEHUNK

// hunkMergeFlag: the DiffElement literal a has Metadata{Merge: true} stored.
func hunkMergeFlag(a *ssa.Alloc) bool {
	for _, ref := range *a.Referrers() {
		fa, ok := ref.(*ssa.FieldAddr)
		if !ok || fieldName(fa.X.Type(), fa.Field) != "Metadata" {
			continue
		}
		for _, r2 := range *fa.Referrers() {
			switch u := r2.(type) {
			case *ssa.FieldAddr: // &lit.Metadata.Merge = true
				for _, r3 := range *u.Referrers() {
					if st, ok := r3.(*ssa.Store); ok {
						if bv, ok := constBool(st.Val); ok && bv {
							return true
						}
					}
				}
			case *ssa.Store: // lit.Metadata = Metadata{Merge: true}
				if ld, ok := u.Val.(*ssa.UnOp); ok && ld.Op == token.MUL {
					if ma, ok := ld.X.(*ssa.Alloc); ok {
						for _, r3 := range *ma.Referrers() {
							if mfa, ok := r3.(*ssa.FieldAddr); ok && fieldName(mfa.X.Type(), mfa.Field) == "Merge" {
								for _, r4 := range *mfa.Referrers() {
									if st, ok := r4.(*ssa.Store); ok {
										if bv, ok := constBool(st.Val); ok && bv {
											return true
										}
									}
								}
							}
						}
					}
				}
			}
		}
	}
	return false
}

// ruleMergeHunkDiff: every hunk a diff function builds on a path that is
// control-dependent on merge strategy carries Metadata.Merge and no Remove.
func ruleMergeHunkDiff(w *World, r *Report, pkg *ssa.Package) {
	const rule = "R-MERGEHUNK"
	h := newHunkType(pkg)
	n := 0
	for _, fn := range diffFunctions(w, pkg) {
		// strategy parameter
		var strat *ssa.Parameter
		for _, p := range fn.Params {
			if typeName(p.Type()) == "patchStrategy" {
				strat = p
			}
		}
		isMergeOnly := fn.Name() == "diffMergePatchStrategy"
		if strat == nil && !isMergeOnly {
			continue
		}
		mergeEdges := EdgeSet{}
		if strat != nil {
			for _, b := range fn.Blocks {
				cond, tE, fE, ok := branchEdges(b)
				if !ok {
					continue
				}
				bo, ok := cond.(*ssa.BinOp)
				if !ok || (bo.Op != token.EQL && bo.Op != token.NEQ) || strip(bo.X) != ssa.Value(strat) {
					continue
				}
				if s, ok := constString(bo.Y); ok && s == "merge" {
					if bo.Op == token.EQL {
						mergeEdges[tE] = true
					} else {
						mergeEdges[fE] = true
					}
				}
			}
		}
		// hunk literals: local DiffElement allocs
		allInstrs(fn, func(in ssa.Instruction) {
			a, ok := in.(*ssa.Alloc)
			if !ok || !types.Identical(a.Type().(*types.Pointer).Elem(), h.named) {
				return
			}
			onMerge := isMergeOnly
			for e := range mergeEdges {
				if edgeDominatesOrSame(e, a.Block()) {
					onMerge = true
				}
			}
			if !onMerge {
				return
			}
			n++
			r.Fn(fnName(fn))
			hasMerge, hasRemove := hunkMergeFlag(a), false
			for _, ref := range *a.Referrers() {
				fa, ok := ref.(*ssa.FieldAddr)
				if !ok {
					continue
				}
				name := fieldName(fa.X.Type(), fa.Field)
				for _, r2 := range *fa.Referrers() {
					switch u := r2.(type) {
					case *ssa.FieldAddr: // Metadata.Merge
						for _, r3 := range *u.Referrers() {
							if st, ok := r3.(*ssa.Store); ok {
								if bv, ok := constBool(st.Val); ok && bv && name == "Metadata" {
									hasMerge = true
								}
							}
						}
					case *ssa.Store:
						if name == "Remove" && !isEmptySlice(u.Val) {
							if c, ok := strip(u.Val).(*ssa.Call); ok {
								if sf := staticCallee(c); sf != nil && w.helperIs(sf, "nodeList") && len(c.Call.Args) == 1 && isEmptySlice(c.Call.Args[0]) {
									continue
								}
							}
							hasRemove = true
						}
					}
				}
			}
			key := fmt.Sprintf("%s:merge-hunk#%d", fnName(fn), n)
			r.Check(hasMerge && !hasRemove, rule, key, w.Pos(a.Pos()), "a hunk built under merge strategy carries Metadata.Merge and removes nothing",
				fmt.Sprintf("a hunk built under merge strategy has Merge flag=%v, non-empty Remove=%v: it is applied strictly (RenderMerge refuses it, Patch demands the old value)", hasMerge, hasRemove))
		})
	}
	// the floor notices a rule that stopped matching; it does not forbid consolidating the literals into
	// a helper (benign D-r2 leaves 4)
	if n < 2 {
		r.Bad(rule, "v2:instance-floor", "-", fmt.Sprintf("only %d merge-strategy hunk literals found in the diff functions", n))
	}
}

// ruleMergeRender: RenderMerge turns every void addition into null on the way
// to the patch of the empty document, and refuses non-merge hunks.
func ruleMergeRender(w *World, r *Report, pkg *ssa.Package) {
	const rule = "R-MERGEHUNK"
	fn := w.Method(pkg, "Diff", "RenderMerge")
	r.Fn(fnName(fn))
	pos := w.Pos(fn.Pos())
	ea := newErrAnalysis(w)
	var patchCall *ssa.Call
	allInstrs(fn, func(in ssa.Instruction) {
		if c, ok := in.(*ssa.Call); ok {
			if sf := staticCallee(c); sf != nil && sf.Name() == "Patch" {
				patchCall = c
			}
		}
	})
	if patchCall == nil {
		r.Bad(rule, fnName(fn)+":patch-empty-document", pos, "RenderMerge no longer patches the empty document with the merge hunks")
		return
	}
	// receiver is the void node
	recvVoid := typeName(patchCall.Call.Args[0].Type()) == "voidNode"
	r.Check(recvVoid, rule, fnName(fn)+":patch-empty-document", w.Pos(patchCall.Pos()), "the merge hunks are applied to the empty document", "the merge hunks are not applied to the empty (void) document")
	// a refusal of non-merge hunks: an error-only edge on !Metadata.Merge that dominates the patch call on its other side
	refuse := false
	for _, b := range fn.Blocks {
		cond, tE, fE, ok := branchEdges(b)
		if !ok {
			continue
		}
		if _, sel := accessPath(cond); strings.HasSuffix(selString(sel), ".Metadata.Merge") {
			if ea.errorOnly(fE.To()) && !ea.errorOnly(tE.To()) {
				refuse = true
			}
		}
	}
	r.Check(refuse, rule, fnName(fn)+":refuses-strict-hunks", pos, "a hunk without the Merge flag is refused with an error", "a strict hunk is rendered as if it were a merge hunk")
	// void -> null conversion feeds what is patched
	conv := false
	allInstrs(fn, func(in ssa.Instruction) {
		c, ok := in.(*ssa.Call)
		if !ok {
			return
		}
		if sf := staticCallee(c); sf != nil && w.helperIs(sf, "isVoid") {
			for _, b := range fn.Blocks {
				if cond, tE, _, okb := branchEdges(b); okb && cond == ssa.Value(c) {
					// on the true edge a jsonNull is produced
					for blk := range reachFrom(tE.To(), nil) {
						for _, in2 := range blk.Instrs {
							if mi, ok := in2.(*ssa.MakeInterface); ok && typeName(mi.X.Type()) == "jsonNull" {
								conv = true
							}
						}
						if blk != tE.To() {
							break
						}
					}
					for _, in2 := range tE.To().Instrs {
						if mi, ok := in2.(*ssa.MakeInterface); ok && typeName(mi.X.Type()) == "jsonNull" {
							conv = true
						}
					}
				}
			}
		}
	})
	d := NewDeriv(w, fn)
	feeds := false
	if len(patchCall.Call.Args) > 1 {
		for v := range d.Visited(patchCall.Call.Args[1]) {
			if mi, ok := v.(*ssa.MakeInterface); ok && typeName(mi.X.Type()) == "jsonNull" {
				feeds = true
			}
		}
	}
	r.Check(conv && feeds, rule, fnName(fn)+":void-becomes-null", pos, "a void addition (deletion) is turned into null in the diff that is patched into the empty document",
		"void additions are not turned into null before patching: a deleted key disappears from the merge patch instead of being set to null")
}

// ruleMergeRead: readMergeInto marks every hunk as merge and maps null to void.
func ruleMergeRead(w *World, r *Report, pkg *ssa.Package) {
	const rule = "R-MERGEHUNK"
	// scope: the exported merge reader, its closures and the unexported
	// functions of the package it reaches by static calls (the recursive
	// walk over the merge document, however it is organised)
	entry := w.Func(pkg, "ReadMergeString")
	fn := entry
	var scope []*ssa.Function
	{
		seen := map[*ssa.Function]bool{entry: true}
		work := []*ssa.Function{entry}
		for len(work) > 0 {
			f := work[0]
			work = work[1:]
			withClosures(f, func(cf *ssa.Function) {
				scope = append(scope, cf)
				allInstrs(cf, func(in ssa.Instruction) {
					c, ok := in.(ssa.CallInstruction)
					if !ok {
						return
					}
					sf := staticCallee(c)
					if sf == nil || sf.Blocks == nil || sf.Parent() != nil || fnPkg(sf) != pkg.Pkg || seen[sf] {
						return
					}
					if obj, _ := sf.Object().(*types.Func); obj == nil || obj.Exported() {
						return
					}
					seen[sf] = true
					work = append(work, sf)
				})
			})
		}
	}
	if f := w.FuncOpt(pkg, "readMergeInto"); f != nil {
		fn = f
	}
	r.Fn(fnName(fn))
	h := newHunkType(pkg)
	n := 0
	var allIn []ssa.Instruction
	for _, f := range scope {
		allInstrs(f, func(in ssa.Instruction) { allIn = append(allIn, in) })
	}
	for _, in := range allIn {
		a, ok := in.(*ssa.Alloc)
		if !ok || !types.Identical(a.Type().(*types.Pointer).Elem(), h.named) {
			continue
		}
		n++
		hasMerge := hunkMergeFlag(a)
		r.Check(hasMerge, rule, fmt.Sprintf("%s:hunk#%d", fnName(fn), n), w.Pos(a.Pos()), "every hunk read from a merge patch carries Metadata.Merge",
			"a hunk read from a merge patch lacks the Merge flag: it is applied strictly and demands the old value to be absent")
	}
	if n < 1 {
		r.Bad(rule, fnName(fn)+":instance-floor", w.Pos(fn.Pos()), fmt.Sprintf("only %d hunk literals in readMergeInto", n))
	}
	// null -> void: the value stored for a leaf is a phi/variable that receives voidNode on the isNull-true edge
	conv := false
	for _, in := range allIn {
		c, ok := in.(*ssa.Call)
		if !ok {
			continue
		}
		if sf := staticCallee(c); sf == nil || !w.helperIs(sf, "isNull") {
			continue
		}
		fn := c.Parent()
		for _, b := range fn.Blocks {
			cond, tE, _, okb := branchEdges(b)
			if !okb || cond != ssa.Value(c) {
				continue
			}
			isVoidVal := func(v ssa.Value) bool {
				v = strip(v)
				if c, ok := v.(*ssa.Const); ok {
					return typeName(c.Type()) == "voidNode"
				}
				return typeName(v.Type()) == "voidNode"
			}
			for _, blk := range fn.Blocks {
				for _, in2 := range blk.Instrs {
					switch y := in2.(type) {
					case *ssa.Phi:
						for i, e := range y.Edges {
							if mi, ok := e.(*ssa.MakeInterface); ok && isVoidVal(mi.X) && edgeDominatesOrIs(tE, blk.Preds[i], blk) {
								conv = true
							}
						}
					case *ssa.MakeInterface:
						if isVoidVal(y.X) && (blk == tE.To() || edgeDominates(tE, blk)) {
							conv = true
						}
					}
				}
			}
		}
	}
	// the whole-object hunk: a fresh empty object is written only for an
	// EMPTY patch object (RFC 7386 merges a non-empty one member by member;
	// replacing the target there loses the members the patch does not mention)
	isEmptyObj := func(v ssa.Value) bool {
		v = strip(v)
		if mm, ok := v.(*ssa.MakeMap); ok {
			if typeName(mm.Type()) != "jsonObject" {
				return false
			}
			for _, ref := range *mm.Referrers() {
				if _, isUpd := ref.(*ssa.MapUpdate); isUpd {
					return false
				}
			}
			return true
		}
		c, ok := v.(*ssa.Call)
		if !ok {
			return false
		}
		sf := staticCallee(c)
		if sf == nil || sf.Blocks == nil || fnPkg(sf) != pkg.Pkg || len(sf.Params) != 0 || typeName(sf.Signature.Results().At(0).Type()) != "jsonObject" {
			return false
		}
		for _, ret := range returnsOf(sf) {
			if _, isMM := strip(ret.Results[0]).(*ssa.MakeMap); !isMM {
				return false
			}
		}
		return true
	}
	nEmpty := 0
	for _, in := range allIn {
		v, ok := in.(ssa.Value)
		if !ok || strip(v) != v || !isEmptyObj(v) {
			continue
		}
		f := in.Parent()
		// only where the empty object becomes (part of) a hunk: stored into a
		// list literal, or handed to a function of the reader's scope
		inScope := map[*ssa.Function]bool{}
		for _, sf := range scope {
			inScope[sf] = true
		}
		feeds := false
		var uses func(x ssa.Value, depth int)
		uses = func(x ssa.Value, depth int) {
			if x.Referrers() == nil || depth > 3 {
				return
			}
			for _, ref := range *x.Referrers() {
				switch y := ref.(type) {
				case *ssa.MakeInterface:
					uses(y, depth+1)
				case *ssa.ChangeType:
					uses(y, depth+1)
				case *ssa.Store:
					if _, isElem := y.Addr.(*ssa.IndexAddr); isElem && y.Val == x {
						feeds = true
					}
				case *ssa.Call:
					if y.Call.IsInvoke() {
						continue
					}
					if sf := staticCallee(y); sf != nil && inScope[sf] {
						for _, a := range y.Call.Args {
							if a == x {
								feeds = true
							}
						}
					}
				}
			}
		}
		uses(v, 0)
		if !feeds {
			continue
		}
		nEmpty++
		guarded := false
		for _, b := range f.Blocks {
			cond, tE, fE, okb := branchEdges(b)
			if !okb {
				continue
			}
			bo, okc := cond.(*ssa.BinOp)
			if !okc || (bo.Op != token.EQL && bo.Op != token.NEQ) {
				continue
			}
			t, off, isC, okT := termOf(bo.X)
			k, okK := constInt(bo.Y)
			if !okT || isC || !t.isLen || off != 0 || !okK || k != 0 {
				continue
			}
			if _, isMap := t.v.Type().Underlying().(*types.Map); !isMap {
				continue
			}
			e := tE
			if bo.Op == token.NEQ {
				e = fE
			}
			if e.To() == in.Block() || edgeDominates(e, in.Block()) {
				guarded = true
			}
		}
		r.Check(guarded, rule, fmt.Sprintf("%s:empty-object-hunk#%d", fnName(f), nEmpty), w.Pos(in.Pos()),
			"the hunk that writes a fresh empty object is built only on the edge where the patch object has no members",
			"a hunk that writes a fresh empty object (replacing whatever is there) is built for a patch object that may have members: the members of the target that the patch does not mention are lost, RFC 7386 keeps them")
	}
	r.Check(conv, rule, fnName(fn)+":null-becomes-void", w.Pos(fn.Pos()), "a null in the merge patch becomes a void addition (delete the member)", "null values of a merge patch are no longer turned into deletions")
}

// sameValue: identical SSA value, or loads of the same access path.
func sameValue(a, b ssa.Value) bool {
	a, b = strip(a), strip(b)
	if a == b {
		return true
	}
	ra, sa := accessPath(a)
	rb, sb := accessPath(b)
	return ra == rb && selString(sa) == selString(sb) && len(sa) > 0
}

func constantFloat(c *ssa.Const) (float64, bool) {
	if c.Value == nil {
		return 0, false
	}
	switch c.Value.Kind() {
	case constant.Int, constant.Float:
		f, _ := constant.Float64Val(c.Value)
		return f, true
	}
	return 0, false
}

// rulePtrAgree: the test by which writePointer refuses number-like keys is the
// very function by which readPointer turns tokens into indices; otherwise
// some key is written that the reader takes for an index.
func rulePtrAgree(w *World, r *Report, pkg *ssa.Package) {
	const rule = "R-PTRAGREE"
	classify := func(fn *ssa.Function) map[string]bool {
		out := map[string]bool{}
		for _, b := range fn.Blocks {
			cond, _, _, ok := branchEdges(b)
			if !ok {
				continue
			}
			switch x := cond.(type) {
			case *ssa.BinOp:
				if !(isNilConst(x.X) || isNilConst(x.Y)) {
					continue
				}
				ev := x.X
				if isNilConst(ev) {
					ev = x.Y
				}
				if ex, ok := ev.(*ssa.Extract); ok {
					if c, ok := ex.Tuple.(*ssa.Call); ok && isStringArgCall(c) {
						out[calleeFullName(c)] = true
					}
				}
			case *ssa.Call:
				if isStringArgCall(x) && calleeFullName(x) != "builtin:len" {
					if sf := staticCallee(x); sf == nil || (!w.helperIs(sf, "isVoid") && !w.helperIs(sf, "isNull")) {
						out[calleeFullName(x)] = true
					}
				}
			}
		}
		return out
	}
	rd := classify(w.Func(pkg, "readPointer"))
	wr := classify(w.Func(pkg, "writePointer"))
	delete(rd, "github.com/go-openapi/jsonpointer.New")
	r.Fn(fnName(w.Func(pkg, "readPointer")))
	r.Fn(fnName(w.Func(pkg, "writePointer")))
	same := len(rd) > 0
	for k := range rd {
		if !wr[k] {
			same = false
		}
	}
	r.Check(same, rule, "v2.pointer:index-test-agrees", w.Pos(w.Func(pkg, "writePointer").Pos()),
		fmt.Sprintf("readPointer classifies tokens with %v and writePointer refuses keys with the same test", sortedKeys(rd)),
		fmt.Sprintf("readPointer classifies tokens as indices with %v, writePointer tests keys with %v: a key the writer lets through can be read back as an array index", sortedKeys(rd), sortedKeys(wr)))
}

func isStringArgCall(c *ssa.Call) bool {
	if len(c.Call.Args) == 0 || c.Call.IsInvoke() {
		return false
	}
	b, ok := c.Call.Args[0].Type().Underlying().(*types.Basic)
	return ok && b.Kind() == types.String
}

// ruleVoidArg: the diff functions are never handed the void node as the
// other side by the library itself. (The merge arms put nodeList(n) into Add;
// nodeList drops void, so a void argument yields a merge hunk that adds
// nothing, which RenderMerge cannot turn into null.) The one deletion marker
// — a merge hunk whose Add is exactly [void] — is built as a literal.
func ruleVoidArg(w *World, r *Report, pkg *ssa.Package) {
	const rule = "R-VOIDARG"
	fam := map[*ssa.Function]bool{}
	for _, fn := range diffFunctions(w, pkg) {
		fam[fn] = true
	}
	diffT := pkg.Type("Diff")
	n, nMarker := 0, 0
	h := newHunkType(pkg)
	for _, fn := range diffFunctions(w, pkg) {
		k := 0
		withClosures(fn, func(f *ssa.Function) {
			allInstrs(f, func(in ssa.Instruction) {
				switch x := in.(type) {
				case *ssa.Call:
					isFam := false
					if x.Call.IsInvoke() {
						sig := x.Call.Method.Type().(*types.Signature)
						for i := 0; i < sig.Results().Len(); i++ {
							if diffT != nil && types.Identical(sig.Results().At(i).Type(), diffT.Type()) && !x.Call.Method.Exported() {
								isFam = true
							}
						}
					} else if sf := staticCallee(x); sf != nil && fam[sf] {
						isFam = true
					}
					if !isFam {
						return
					}
					n++
					k++
					// the other side: the first node-typed argument of an interface
					// call, the second node-typed operand (after the receiver /
					// the node itself) of a static call
					bad := ""
					skip := 1
					if x.Call.IsInvoke() {
						skip = 0
					}
					for _, a := range x.Call.Args {
						if !isNodeish(w, pkg, a.Type()) {
							continue
						}
						if skip > 0 {
							skip--
							continue
						}
						if typeName(strip(a).Type()) == "voidNode" {
							bad = valueName(strip(a))
						}
						break
					}
					r.Check(bad == "", rule, fmt.Sprintf("%s:diff-call#%d", fnName(fn), k), w.Pos(x.Pos()),
						"the nested diff is handed a node of the other document, not the void marker",
						"a nested diff is handed the void marker as the other side: under merge strategy the callee's hunk adds nodeList(void) = nothing, so the deletion is lost from the rendered merge patch")
				case *ssa.Store:
					// Add: []JsonNode{voidNode{}} in a hunk literal
					fa, ok := x.Addr.(*ssa.FieldAddr)
					if !ok || fieldName(fa.X.Type(), fa.Field) != "Add" {
						return
					}
					bt := fa.X.Type()
					if p, ok := bt.Underlying().(*types.Pointer); ok {
						bt = p.Elem()
					}
					if !types.Identical(bt, h.named) || !oneElemSlice(x.Val, 0) {
						return
					}
					for _, e := range appendedElems(x.Val) {
						_ = e
					}
					if sl, ok := strip(x.Val).(*ssa.Slice); ok {
						if a, ok := sl.X.(*ssa.Alloc); ok {
							for _, ref := range *a.Referrers() {
								if ia, ok := ref.(*ssa.IndexAddr); ok {
									for _, r2 := range *ia.Referrers() {
										if st, ok := r2.(*ssa.Store); ok && typeName(strip(st.Val).Type()) == "voidNode" {
											nMarker++
										}
									}
								}
							}
						}
					}
				}
			})
		})
		if k > 0 {
			r.Fn(fnName(fn))
		}
	}
	if n < 6 {
		r.Bad(rule, "v2:instance-floor", "-", fmt.Sprintf("only %d nested diff calls found", n))
	}
	r.Check(nMarker >= 1, rule, "v2:deletion-marker", "-", "the deletion of a key under merge strategy is a hunk literal whose Add is exactly [void]",
		"no diff function builds the merge deletion marker (a hunk whose Add is exactly [void]) any more")
}

// ---------------------------------------------------------------- R-CTXINDEX
//
// The JSON Patch writer tests the context of an array hunk at computed
// positions: the element before the hunk at index-1 and the element after it
// at index+len(Remove) (the tests are emitted before the removals, RFC 6902
// evaluates them against the unchanged array). Every computed path index in
// RenderPatch is normalised to a linear form over the atoms INDEX (the
// hunk's own last path index) and len(<hunk>.Remove); it must equal the
// expected form for the context field its branch is about. A value chosen by
// a phi is evaluated edge by edge under the guard facts of that edge (so
// `next := index; if len(Remove) > 0 { next += len(Remove) }` is accepted and
// `if len(Remove) > 0 { next++ }` is not).

type linForm struct {
	coef map[string]int64
	c    int64
}

func (a linForm) add(b linForm, sign int64) linForm {
	out := linForm{coef: map[string]int64{}, c: a.c + sign*b.c}
	for k, v := range a.coef {
		out.coef[k] += v
	}
	for k, v := range b.coef {
		out.coef[k] += sign * v
	}
	for k, v := range out.coef {
		if v == 0 {
			delete(out.coef, k)
		}
	}
	return out
}

func pathKey(v ssa.Value) string {
	root, sel := accessPath(v)
	return fmt.Sprintf("%p%s", root, selString(sel))
}

// lin: linear form of an integer-valued value; ok=false for phis and
// anything non-linear.
func lin(v ssa.Value) (linForm, bool) {
	for {
		switch x := v.(type) {
		case *ssa.ChangeType:
			v = x.X
			continue
		case *ssa.Convert:
			if isIntType(x.X.Type()) && isIntType(x.Type()) {
				v = x.X
				continue
			}
		}
		break
	}
	if k, ok := constInt(v); ok {
		return linForm{coef: map[string]int64{}, c: k}, true
	}
	switch x := v.(type) {
	case *ssa.BinOp:
		if x.Op == token.ADD || x.Op == token.SUB {
			a, ok1 := lin(x.X)
			b, ok2 := lin(x.Y)
			if !ok1 || !ok2 {
				return linForm{}, false
			}
			if x.Op == token.ADD {
				return a.add(b, 1), true
			}
			return a.add(b, -1), true
		}
	case *ssa.Call:
		if c, ok := isBuiltinCall(x, "len"); ok {
			_, sel := accessPath(c.Call.Args[0])
			if len(sel) > 0 {
				return linForm{coef: map[string]int64{"len:" + pathKey(c.Call.Args[0]): 1}}, true
			}
		}
	case *ssa.Extract:
		if ta, ok := x.Tuple.(*ssa.TypeAssert); ok && x.Index == 0 && typeName(ta.AssertedType) == "PathIndex" {
			return linForm{coef: map[string]int64{"INDEX": 1}}, true
		}
	case *ssa.TypeAssert:
		if !x.CommaOk && typeName(x.AssertedType) == "PathIndex" {
			return linForm{coef: map[string]int64{"INDEX": 1}}, true
		}
	case *ssa.Phi:
		return linForm{}, false
	}
	return linForm{coef: map[string]int64{fmt.Sprintf("val:%p", v): 1}}, true
}

func ruleCtxIndex(w *World, r *Report, pkg *ssa.Package) {
	const rule = "R-CTXINDEX"
	fn := w.Method(pkg, "Diff", "RenderPatch")
	r.Fn(fnName(fn))
	isPI := func(t types.Type) bool { return typeName(t) == "PathIndex" }
	// candidates: computed PathIndex values not feeding another computed PathIndex
	var cands []ssa.Value
	withClosures(fn, func(f *ssa.Function) {
		allInstrs(f, func(in ssa.Instruction) {
			v, ok := in.(ssa.Value)
			if !ok || !isPI(v.Type()) {
				return
			}
			switch in.(type) {
			case *ssa.BinOp, *ssa.Phi:
			default:
				return
			}
			inner := false
			for _, ref := range *v.Referrers() {
				if rv, ok := ref.(ssa.Value); ok && isPI(rv.Type()) {
					switch ref.(type) {
					case *ssa.BinOp, *ssa.Phi:
						inner = true
					}
				}
			}
			if !inner {
				cands = append(cands, v)
			}
		})
	})
	// role of a block: the context field mentioned by the closest dominating branch
	roleOf := func(b *ssa.BasicBlock) (string, string) {
		best, bestKey := "", ""
		var bestBlk *ssa.BasicBlock
		for _, bb := range b.Parent().Blocks {
			cond, tE, fE, ok := branchEdges(bb)
			if !ok || !(edgeDominates(tE, b) || edgeDominates(fE, b) || tE.To() == b || fE.To() == b) {
				continue
			}
			role, key := "", ""
			var scan func(v ssa.Value, depth int)
			scan = func(v ssa.Value, depth int) {
				if depth > 4 || v == nil {
					return
				}
				root, sel := accessPath(v)
				s := selString(sel)
				for _, f := range []string{"Before", "After"} {
					if i := strings.Index(s, "."+f); i >= 0 {
						role, key = f, fmt.Sprintf("%p%s", root, s[:i])
					}
				}
				switch x := v.(type) {
				case *ssa.BinOp:
					scan(x.X, depth+1)
					scan(x.Y, depth+1)
				case *ssa.UnOp:
					if x.Op == token.NOT {
						scan(x.X, depth+1)
					}
				case *ssa.Call:
					for _, a := range x.Call.Args {
						scan(a, depth+1)
					}
				}
			}
			scan(cond, 0)
			if role == "" {
				continue
			}
			if bestBlk == nil || bestBlk.Dominates(bb) {
				best, bestKey, bestBlk = role, key, bb
			}
		}
		return best, bestKey
	}
	n := map[string]int{}
	factsOf := map[*ssa.Function]*Facts{}
	getFacts := func(f *ssa.Function) *Facts {
		if factsOf[f] == nil {
			factsOf[f] = NewFacts(f, nil)
		}
		return factsOf[f]
	}
	// one obligation per (candidate, context in which it is evaluated): in
	// RenderPatch itself, or in a helper at each of its call sites in
	// RenderPatch with the parameters replaced by the arguments' forms
	check := func(cv ssa.Value, roleBlk *ssa.BasicBlock, subst map[string]linForm, via string) {
		in := cv.(ssa.Instruction)
		role, hunk := roleOf(roleBlk)
		if role == "" {
			return
		}
		n[role]++
		removeAtom := "len:" + hunk + ".Remove"
		want := linForm{coef: map[string]int64{"INDEX": 1}, c: -1}
		wantTxt := "index-1"
		if role == "After" {
			want = linForm{coef: map[string]int64{"INDEX": 1, removeAtom: 1}}
			wantTxt = "index+len(Remove)"
		}
		fs := getFacts(in.Parent())
		callerFacts := getFacts(roleBlk.Parent())
		callerState, _ := callerFacts.At(roleBlk)
		// zero under a fact state: every remaining atom must be pinned by the facts
		zero := func(res linForm, st state) bool {
			c := res.c
			for k, coef := range res.coef {
				if k != removeAtom {
					return false
				}
				pinned := false
				for _, s2 := range []state{st, callerState} {
					for t, f := range s2 {
						if !pinned && t.isLen && t.w == nil && "len:"+pathKey(t.v) == removeAtom && f.minVal() == f.maxVal() {
							c += coef * f.minVal()
							pinned = true
						}
					}
				}
				if !pinned {
					return false
				}
			}
			return c == 0
		}
		var eval func(v ssa.Value, st state, depth int) (bool, string)
		eval = func(v ssa.Value, st state, depth int) (bool, string) {
			if phi, ok := v.(*ssa.Phi); ok && depth < 4 {
				for i, e := range phi.Edges {
					pred := phi.Block().Preds[i]
					if !fs.reach[pred] {
						continue
					}
					si := -1
					for j, s := range pred.Succs {
						if s == phi.Block() {
							si = j
						}
					}
					est, feasible := fs.edgeState(pred, si)
					if !feasible {
						continue
					}
					if ok, why := eval(e, est, depth+1); !ok {
						return false, why
					}
				}
				return true, ""
			}
			lf, ok := lin(v)
			if !ok {
				return false, "not a linear expression of the hunk's index"
			}
			// parameters of a helper stand for the arguments at this call site
			for k, coef := range lf.coef {
				if sub, ok := subst[k]; ok {
					delete(lf.coef, k)
					scaled := linForm{coef: map[string]int64{}, c: sub.c * coef}
					for kk, vv := range sub.coef {
						scaled.coef[kk] = vv * coef
					}
					lf = lf.add(scaled, 1)
				}
			}
			res := lf.add(want, -1)
			if zero(res, st) {
				return true, ""
			}
			return false, fmt.Sprintf("%s differs from %s", valueName(v), wantTxt)
		}
		st, _ := fs.At(in.Block())
		ok, why := eval(cv, st, 0)
		r.Check(ok, rule, fmt.Sprintf("%s:%s-index#%d%s", fnName(fn), strings.ToLower(role), n[role], via), w.Pos(in.Pos()),
			fmt.Sprintf("the %s-context test addresses %s", strings.ToLower(role), wantTxt),
			fmt.Sprintf("the %s-context test does not address %s (%s): an RFC 6902 evaluation tests another element than jd's own reader, which infers the context from the values only", strings.ToLower(role), wantTxt, why))
	}
	for _, cv := range cands {
		in := cv.(ssa.Instruction)
		if in.Parent() != fn {
			continue
		}
		check(cv, in.Block(), nil, "")
	}
	// helpers called from RenderPatch that compute a path index from a parameter
	allInstrs(fn, func(in ssa.Instruction) {
		c, ok := in.(*ssa.Call)
		if !ok {
			return
		}
		g := staticCallee(c)
		if g == nil || g.Blocks == nil || fnPkg(g) != pkg.Pkg || g.Parent() != nil || len(c.Call.Args) != len(g.Params) {
			return
		}
		subst := map[string]linForm{}
		for i, p := range g.Params {
			if !isIntType(p.Type()) {
				continue
			}
			if lf, ok := lin(c.Call.Args[i]); ok {
				subst[fmt.Sprintf("val:%p", ssa.Value(p))] = lf
			}
		}
		allInstrs(g, func(in2 ssa.Instruction) {
			v, ok := in2.(ssa.Value)
			if !ok || !isPI(v.Type()) {
				return
			}
			switch in2.(type) {
			case *ssa.BinOp, *ssa.Phi:
			default:
				return
			}
			for _, ref := range *v.Referrers() {
				if rv, ok := ref.(ssa.Value); ok && isPI(rv.Type()) {
					switch ref.(type) {
					case *ssa.BinOp, *ssa.Phi:
						return
					}
				}
			}
			check(v, c.Block(), subst, "→"+g.Name())
		})
	})
	if n["Before"] < 1 || n["After"] < 1 {
		r.Bad(rule, fnName(fn)+":instance-floor", w.Pos(fn.Pos()), fmt.Sprintf("context index computations found: before=%d after=%d", n["Before"], n["After"]))
	}
}

// ruleMergeRoot — R-MERGEROOT (C12, "null at the root", "{} over a non-object").
// RFC 7386 treats the patch document's root differently from its members:
//
//	MergePatch(T, null) = null          (a member null deletes, the root null *is* the result)
//	MergePatch(T, {})   = {} if T is not an object
//
// (a) No patch document is a no-op on every target, so a successful read must
// never answer with a diff that has no hunk. (b) The member reader turns null
// into the deletion marker; the root must not go through that conversion
// undistinguished: either the top-level reader tests the root for null before
// delegating, or the conversion is guarded by a test of the path's length.
func ruleMergeRoot(w *World, r *Report, pkg *ssa.Package, tag string) {
	const rule = "R-MERGEROOT"
	fn := w.Func(pkg, "ReadMergeString")
	r.Fn(fnName(fn))
	// (a) empty diff on success
	{
		var isEmptyLit func(v ssa.Value, depth int) bool
		isEmptyLit = func(v ssa.Value, depth int) bool {
			if depth > 4 {
				return false
			}
			switch x := strip(v).(type) {
			case *ssa.Slice:
				if al, ok := x.X.(*ssa.Alloc); ok {
					if at, ok := al.Type().(*types.Pointer).Elem().Underlying().(*types.Array); ok && at.Len() == 0 {
						return true
					}
				}
			case *ssa.MakeSlice:
				if k, ok := constInt(x.Len); ok && k == 0 {
					// made empty and never grown on the way to this return is not tracked: only the plain literal counts
					return false
				}
			case *ssa.Const:
				return x.IsNil()
			case *ssa.Phi:
				for _, e := range x.Edges {
					if isEmptyLit(e, depth+1) {
						return true
					}
				}
			}
			return false
		}
		bad := ""
		n := 0
		for _, ret := range returnsOf(fn) {
			if !isNilErrReturn(ret) {
				continue
			}
			n++
			if isEmptyLit(ret.Results[0], 0) {
				bad = w.Pos(ret.Pos())
			}
		}
		r.Check(bad == "", rule, tag+".ReadMergeString:never-the-empty-diff", w.Pos(fn.Pos()),
			fmt.Sprintf("none of the %d success returns of the merge reader hands back a diff without hunks", n),
			"the merge reader answers a patch document with the empty diff (return at "+bad+"): applying it leaves every target unchanged, but no RFC 7386 patch document is a no-op on every target — `{}` turns any non-object target into `{}`")
	}
	// (b) the root null
	{
		// the root node: first result of the JSON reader
		var root ssa.Value
		allInstrs(fn, func(in ssa.Instruction) {
			ex, ok := in.(*ssa.Extract)
			if !ok || ex.Index != 0 || !isJsonNodeIface(ex.Type()) {
				return
			}
			if root == nil {
				root = ex
			}
		})
		rootTested := false
		if root != nil {
			d := NewDeriv(w, fn)
			for _, b := range fn.Blocks {
				cond, _, _, ok := branchEdges(b)
				if !ok {
					continue
				}
				switch c := cond.(type) {
				case *ssa.Call:
					if sf := staticCallee(c); sf != nil && w.helperIs(sf, "isNull") && len(c.Call.Args) == 1 && d.HasRoot(c.Call.Args[0], root) {
						rootTested = true
					}
				case *ssa.Extract:
					if ta, ok := c.Tuple.(*ssa.TypeAssert); ok && typeName(ta.AssertedType) == "jsonNull" && d.HasRoot(ta.X, root) {
						rootTested = true
					}
				}
			}
		}
		// the conversion sites in what the reader reaches
		guarded, sites := 0, 0
		seen := map[*ssa.Function]bool{fn: true}
		work := []*ssa.Function{fn}
		for len(work) > 0 {
			f := work[0]
			work = work[1:]
			withClosures(f, func(g *ssa.Function) {
				var pathParams []ssa.Value
				for _, p := range g.Params {
					if typeName(p.Type()) == "Path" {
						pathParams = append(pathParams, p)
					}
				}
				for _, b := range g.Blocks {
					cond, tE, _, ok := branchEdges(b)
					if !ok {
						continue
					}
					c, isCall := cond.(*ssa.Call)
					if !isCall {
						continue
					}
					sf := staticCallee(c)
					if sf == nil || !w.helperIs(sf, "isNull") {
						continue
					}
					sites++
					// is the true edge dominated by a branch on len(path)?
					okLen := false
					for _, b2 := range g.Blocks {
						cond2, t2, f2, ok2 := branchEdges(b2)
						if !ok2 {
							continue
						}
						bo, isBo := cond2.(*ssa.BinOp)
						if !isBo {
							continue
						}
						t, _, _, okT := termOf(bo.X)
						if !okT || !t.isLen {
							continue
						}
						isPath := false
						for _, pp := range pathParams {
							if t.v == pp {
								isPath = true
							}
						}
						if isPath && (edgeDominates(t2, tE.To()) || edgeDominates(f2, tE.To()) || edgeDominates(t2, b) || edgeDominates(f2, b)) {
							okLen = true
						}
					}
					if okLen {
						guarded++
					}
				}
				allInstrs(g, func(in ssa.Instruction) {
					if cc, ok := in.(ssa.CallInstruction); ok {
						if sf := staticCallee(cc); sf != nil && sf.Blocks != nil && sf.Parent() == nil && fnPkg(sf) == pkg.Pkg && !seen[sf] {
							if obj, _ := sf.Object().(*types.Func); obj != nil && !obj.Exported() && !w.helperIs(sf, "isNull") {
								seen[sf] = true
								work = append(work, sf)
							}
						}
					}
				})
			})
		}
		key := tag + ".ReadMergeString:root-null-is-not-a-deletion"
		switch {
		case sites == 0:
			r.Ok(rule, key, w.Pos(fn.Pos()), "no null test found in what the merge reader reaches: this clause makes no claim (not decided)")
		default:
			r.Check(rootTested || guarded == sites, rule, key, w.Pos(fn.Pos()),
				"the root of the patch document is told apart from its members before null is turned into the deletion marker",
				"the root of the patch document goes through the same null→deletion conversion as a member (the top-level reader does not test the root for null and the conversion does not look at the path's length): the patch document `null` empties the target, whereas RFC 7386 makes the result `null`")
		}
	}
}

// opIndexSet: the constant indices k such that v is derived from list[k].
func opIndexSet(d *Deriv, v ssa.Value, list ssa.Value) map[int64]bool {
	out := map[int64]bool{}
	for x := range d.Visited(v) {
		switch y := x.(type) {
		case *ssa.IndexAddr:
			if strip(y.X) == list {
				if k, ok := constInt(y.Index); ok {
					out[k] = true
				}
			}
		case *ssa.Index:
			if strip(y.X) == list {
				if k, ok := constInt(y.Index); ok {
					out[k] = true
				}
			}
		}
	}
	return out
}

func sameKeys(a, b map[int64]bool) bool {
	if len(a) != len(b) {
		return false
	}
	for k := range a {
		if !b[k] {
			return false
		}
	}
	return true
}
