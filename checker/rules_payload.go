package main

import (
	"fmt"
	"go/token"
	"go/types"
	"sort"
	"strings"

	"golang.org/x/tools/go/ssa"
)

// ruleRenderPayload — R-PAYLOAD (C02: the native text carries the diff
// losslessly; colour adds ANSI sequences and nothing else).
//
// Every byte DiffElement.Render (and the package functions whose output it
// writes) puts into the text is either a constant of the renderer (line
// headers, ANSI sequences, newlines) or comes out of the JSON encoder
// (json.Marshal, a node's Json(), another rendering function of the package
// obeying the same rule). A value taken from the hunk and written without
// passing the encoder — the raw runes of a string, a hand-made escape, a
// strconv/fmt rendering of a node — gives a text that is not the JSON of the
// value (`<`, `&`, U+2028, control characters are escaped by encoding/json),
// so plain and coloured output differ in more than ANSI sequences or the text
// does not read back.
func ruleRenderPayload(w *World, r *Report, pkg *ssa.Package, tag string) {
	rule := "R-PAYLOAD"
	if tag != "v2" {
		rule += "(" + tag + ")"
	}
	entry := w.MethodOpt(pkg, "DiffElement", "Render")
	if entry == nil || entry.Blocks == nil {
		r.Unk(rule, tag+".(DiffElement).Render", "-", "the hunk renderer was not found")
		return
	}
	type site struct {
		fn   *ssa.Function
		call ssa.CallInstruction
	}
	inSet := map[*ssa.Function]bool{entry: true}
	order := []*ssa.Function{entry}
	// call sites of every function inside the set
	callers := map[*ssa.Function][]site{}
	addFn := func(f *ssa.Function) {
		if !inSet[f] {
			inSet[f] = true
			order = append(order, f)
		}
	}
	type verdict struct {
		ok  bool
		why string
	}
	var okValue func(fn *ssa.Function, v ssa.Value, depth int, seen map[ssa.Value]bool) verdict
	isEncoder := func(c *ssa.Call) bool {
		switch calleeFullName(c) {
		case "encoding/json.Marshal", "encoding/json.MarshalIndent":
			return true
		}
		if c.Call.IsInvoke() && (methodIs(c.Call.Method, "Json") || c.Call.Method.Name() == "Json") {
			return true
		}
		if sf := staticCallee(c); sf != nil && sf.Signature.Recv() != nil && sf.Name() == "Json" && fnPkg(sf) == pkg.Pkg {
			return true
		}
		return false
	}
	okValue = func(fn *ssa.Function, v ssa.Value, depth int, seen map[ssa.Value]bool) verdict {
		if depth > 30 {
			return verdict{false, "derivation too deep"}
		}
		if seen[v] {
			return verdict{true, ""}
		}
		seen[v] = true
		switch x := v.(type) {
		case *ssa.Const:
			return verdict{true, ""}
		case *ssa.Call:
			if isEncoder(x) {
				return verdict{true, ""}
			}
			name := calleeFullName(x)
			switch name {
			case "(*bytes.Buffer).String", "(*bytes.Buffer).Bytes", "(*strings.Builder).String":
				return verdict{true, ""} // the writes into it are sites of their own
			case "fmt.Sprintf", "fmt.Sprint", "fmt.Sprintln":
				for _, a := range variadicElems(x) {
					if vd := okValue(fn, a, depth+1, seen); !vd.ok {
						return vd
					}
				}
				if len(x.Call.Args) > 0 {
					if _, isK := x.Call.Args[0].(*ssa.Const); !isK && name == "fmt.Sprintf" {
						return verdict{false, "format string is not a constant"}
					}
				}
				return verdict{true, ""}
			}
			if b, ok := x.Call.Value.(*ssa.Builtin); ok {
				switch b.Name() {
				case "append":
					for _, a := range x.Call.Args {
						if vd := okValue(fn, a, depth+1, seen); !vd.ok {
							return vd
						}
					}
					return verdict{true, ""}
				case "len", "cap":
					return verdict{true, ""}
				}
			}
			if sf := staticCallee(x); sf != nil && sf.Blocks != nil && fnPkg(sf) == pkg.Pkg {
				addFn(sf)
				callers[sf] = append(callers[sf], site{fn, x})
				return verdict{true, ""} // its returns are checked as obligations of their own
			}
			if name == "" {
				name = valueName(x)
			}
			return verdict{false, "result of " + name + " (not the JSON encoder)"}
		case *ssa.Extract:
			if nx, ok := x.Tuple.(*ssa.Next); ok {
				if rg, ok := nx.Iter.(*ssa.Range); ok {
					if x.Index == 1 && !nx.IsString {
						return verdict{true, ""} // map key / index
					}
					return okValue(fn, rg.X, depth+1, seen)
				}
			}
			return okValue(fn, x.Tuple, depth+1, seen)
		case *ssa.Convert:
			return okValue(fn, x.X, depth+1, seen)
		case *ssa.ChangeType:
			return okValue(fn, x.X, depth+1, seen)
		case *ssa.MakeInterface:
			return okValue(fn, x.X, depth+1, seen)
		case *ssa.Slice:
			return okValue(fn, x.X, depth+1, seen)
		case *ssa.Index:
			return okValue(fn, x.X, depth+1, seen)
		case *ssa.Lookup:
			return okValue(fn, x.X, depth+1, seen)
		case *ssa.Phi:
			for _, e := range x.Edges {
				if vd := okValue(fn, e, depth+1, seen); !vd.ok {
					return vd
				}
			}
			return verdict{true, ""}
		case *ssa.BinOp:
			if x.Op == token.ADD {
				if vd := okValue(fn, x.X, depth+1, seen); !vd.ok {
					return vd
				}
				return okValue(fn, x.Y, depth+1, seen)
			}
			return verdict{false, "computed by operator " + x.Op.String()}
		case *ssa.UnOp:
			if x.Op != token.MUL {
				return verdict{false, "computed by operator " + x.Op.String()}
			}
			switch a := x.X.(type) {
			case *ssa.Alloc:
				// a local: everything stored into it
				for _, ref := range *a.Referrers() {
					if st, ok := ref.(*ssa.Store); ok && st.Addr == a {
						if vd := okValue(fn, st.Val, depth+1, seen); !vd.ok {
							return vd
						}
					}
				}
				return verdict{true, ""}
			case *ssa.IndexAddr:
				return okValue(fn, a.X, depth+1, seen)
			case *ssa.FreeVar:
				return verdict{false, "captured variable " + a.Name()}
			case *ssa.Global:
				return verdict{true, ""}
			}
			return verdict{false, "loaded from " + valueName(x.X) + " (data of the hunk, not encoder output)"}
		case *ssa.Alloc:
			for _, ref := range *x.Referrers() {
				if st, ok := ref.(*ssa.Store); ok && st.Addr == x {
					if vd := okValue(fn, st.Val, depth+1, seen); !vd.ok {
						return vd
					}
				}
			}
			return verdict{true, ""}
		case *ssa.Parameter:
			if fn == entry {
				return verdict{false, "the renderer's own input " + x.Name() + " written without encoding"}
			}
			idx := -1
			for i, p := range fn.Params {
				if p == x {
					idx = i
				}
			}
			for _, cs := range callers[fn] {
				args := cs.call.Common().Args
				if idx < 0 || idx >= len(args) {
					continue
				}
				if vd := okValue(cs.fn, args[idx], depth+1, map[ssa.Value]bool{}); !vd.ok {
					return verdict{false, "parameter " + x.Name() + " of " + fnName(fn) + " receives " + vd.why}
				}
			}
			return verdict{true, ""}
		case *ssa.TypeAssert:
			return verdict{false, "a value of the hunk (" + typeName(x.AssertedType) + ") written without encoding"}
		case *ssa.Field, *ssa.FieldAddr:
			return verdict{false, "a field of the hunk written without encoding"}
		}
		return verdict{false, valueName(v) + " (not encoder output)"}
	}
	isWrite := func(c ssa.CallInstruction) (data []ssa.Value, yes bool) {
		name := calleeFullName(c)
		args := c.Common().Args
		switch name {
		case "(*bytes.Buffer).Write", "(*bytes.Buffer).WriteString", "(*bytes.Buffer).WriteRune", "(*bytes.Buffer).WriteByte",
			"(*strings.Builder).Write", "(*strings.Builder).WriteString", "(*strings.Builder).WriteRune", "(*strings.Builder).WriteByte":
			if len(args) == 2 {
				return args[1:], true
			}
		case "io.WriteString":
			if len(args) == 2 {
				return args[1:], true
			}
		case "fmt.Fprintf", "fmt.Fprint", "fmt.Fprintln":
			if cc, ok := c.(*ssa.Call); ok {
				return variadicElems(cc), true
			}
		}
		return nil, false
	}
	nSites := 0
	var bad []string
	for i := 0; i < len(order); i++ {
		fn := order[i]
		r.Fn(fnName(fn))
		allInstrs(fn, func(in ssa.Instruction) {
			c, ok := in.(ssa.CallInstruction)
			if !ok {
				return
			}
			// a package function handed the text buffer writes on the renderer's behalf
			if sf := staticCallee(c); sf != nil && sf.Blocks != nil && fnPkg(sf) == pkg.Pkg && !inSet[sf] {
				for _, a := range c.Common().Args {
					if isWriterType(a.Type()) {
						addFn(sf)
					}
				}
			}
			if sf := staticCallee(c); sf != nil && inSet[sf] && sf != fn {
				dup := false
				for _, cs := range callers[sf] {
					if cs.call == c {
						dup = true
					}
				}
				if !dup {
					callers[sf] = append(callers[sf], site{fn, c})
				}
			}
			if data, yes := isWrite(c); yes {
				for _, dv := range data {
					nSites++
					if vd := okValue(fn, dv, 0, map[ssa.Value]bool{}); !vd.ok {
						bad = append(bad, fmt.Sprintf("%s writes %s at %s", fnName(fn), vd.why, w.Pos(c.Pos())))
					}
				}
			}
		})
		if fn != entry {
			for _, ret := range returnsOf(fn) {
				for _, rv := range ret.Results {
					if !isTextType(rv.Type()) {
						continue
					}
					nSites++
					if vd := okValue(fn, rv, 0, map[ssa.Value]bool{}); !vd.ok {
						bad = append(bad, fmt.Sprintf("%s returns %s at %s", fnName(fn), vd.why, w.Pos(ret.Pos())))
					}
				}
			}
		}
	}
	sort.Strings(bad)
	if len(bad) > 3 {
		bad = bad[:3]
	}
	r.Check(len(bad) == 0, rule, tag+".(DiffElement).Render:text-is-constants-and-encoder-output", w.Pos(entry.Pos()),
		fmt.Sprintf("all %d written or returned texts in the %d rendering functions are renderer constants or JSON-encoder output", nSites, len(order)),
		strings.Join(bad, "; ")+": the rendered line is not the JSON encoding of the hunk's value (encoding/json also escapes <, >, &, U+2028/9 and control characters), so coloured and plain output differ in more than ANSI sequences, or the text does not read back to the same value")
	if nSites < 8 {
		r.Bad(rule, tag+".(DiffElement).Render:instance-floor", w.Pos(entry.Pos()), fmt.Sprintf("only %d writes found in the hunk renderer", nSites))
	}
}

func isWriterType(t types.Type) bool {
	s := t.String()
	return s == "*bytes.Buffer" || s == "*strings.Builder" || s == "io.Writer" || s == "*bufio.Writer"
}

func isTextType(t types.Type) bool {
	switch u := t.Underlying().(type) {
	case *types.Basic:
		return u.Info()&types.IsString != 0
	case *types.Slice:
		return isByteType(u.Elem())
	}
	return false
}

// variadicElems: the values stored into the varargs array of a call (all arguments for non-variadic use).
func variadicElems(c *ssa.Call) []ssa.Value {
	var out []ssa.Value
	for _, a := range c.Call.Args {
		sl, ok := a.(*ssa.Slice)
		if !ok {
			out = append(out, a)
			continue
		}
		al, ok := sl.X.(*ssa.Alloc)
		if !ok {
			out = append(out, a)
			continue
		}
		for _, ref := range *al.Referrers() {
			if ia, ok := ref.(*ssa.IndexAddr); ok {
				for _, r2 := range *ia.Referrers() {
					if st, ok := r2.(*ssa.Store); ok {
						out = append(out, st.Val)
					}
				}
			}
		}
	}
	return out
}

// ruleRenderAsserts — R-RENDERASSERT (C02: rendering with colour changes
// nothing but ANSI sequences — in particular it does not crash). The hunk
// renderer is outside R-PANIC's scope; its unchecked type assertions are
// obligations of their own, discharged by the correlated-flag schema: an
// unchecked assertion of an element of list X to T is safe when it lies behind
// a boolean flag that becomes true only where len(X) == 1 has been established
// and X[0] has been asserted to T successfully. Any other unchecked assertion
// in the renderer is reported.
func ruleRenderAsserts(w *World, r *Report, pkg *ssa.Package, tag string) {
	const rule = "R-RENDERASSERT"
	fn := w.MethodOpt(pkg, "DiffElement", "Render")
	if fn == nil || fn.Blocks == nil {
		r.Ok(rule, tag+".(DiffElement).Render", "-", "the hunk renderer was not found: no claim")
		return
	}
	r.Fn(fnName(fn))
	key := func(v ssa.Value) string {
		root, sel := accessPath(v)
		return fmt.Sprintf("%p%s", root, selString(sel))
	}
	n := 0
	for _, b := range fn.Blocks {
		for _, in := range b.Instrs {
			ta, ok := in.(*ssa.TypeAssert)
			if !ok || ta.CommaOk {
				continue
			}
			if _, isIface := ta.X.Type().Underlying().(*types.Interface); !isIface {
				continue
			}
			n++
			okS, why := false, "no guarding flag found"
			// the list the asserted element comes from
			var list ssa.Value
			if ld, isLd := ta.X.(*ssa.UnOp); isLd && ld.Op == token.MUL {
				if ia, isIA := ld.X.(*ssa.IndexAddr); isIA {
					list = ia.X
				}
			}
			if list != nil {
				lk := key(list)
				// srcOK: block src lies behind len(list) == 1 and a successful assertion of list[0] to the same type
				srcOK := func(src *ssa.BasicBlock) bool {
					lenOK, elemOK := false, false
					for _, b3 := range fn.Blocks {
						c3, t3, _, ok3 := branchEdges(b3)
						if !ok3 || !(edgeDominates(t3, src) || t3.To() == src) {
							continue
						}
						if bo, isBo := c3.(*ssa.BinOp); isBo && bo.Op == token.EQL {
							if k, isK := constInt(bo.Y); isK && k == 1 {
								if c, isLen := isBuiltinCall(stripInt(bo.X), "len"); isLen && key(c.Call.Args[0]) == lk {
									lenOK = true
								}
							}
						}
						if ex, isEx := c3.(*ssa.Extract); isEx && ex.Index == 1 {
							if t2, isTA := ex.Tuple.(*ssa.TypeAssert); isTA && t2.CommaOk && types.Identical(t2.AssertedType, ta.AssertedType) {
								if ld, isLd := t2.X.(*ssa.UnOp); isLd && ld.Op == token.MUL {
									if ia, isIA := ld.X.(*ssa.IndexAddr); isIA && key(ia.X) == lk {
										if k, isK := constInt(ia.Index); isK && k == 0 {
											elemOK = true
										}
									}
								}
							}
						}
					}
					return lenOK && elemOK
				}
				// flagOK: the boolean being true implies the facts above (a flag set to true only behind them,
				// or a conjunction computed behind the true edge of such a flag)
				var flagOK func(v ssa.Value, depth int) bool
				flagOK = func(v ssa.Value, depth int) bool {
					phi, isPhi := v.(*ssa.Phi)
					if !isPhi || depth > 3 {
						return false
					}
					any := false
					for i, e := range phi.Edges {
						src := phi.Block().Preds[i]
						if k, isK := constBool(e); isK {
							if !k {
								continue
							}
							any = true
							if !srcOK(src) && !behindFlag(fn, src, func(c ssa.Value) bool { return flagOK(c, depth+1) }) {
								return false
							}
							continue
						}
						// a computed value: fine when it is itself such a flag, or arrives only behind the true edge of one
						any = true
						if flagOK(e, depth+1) {
							continue
						}
						if behindFlag(fn, src, func(c ssa.Value) bool { return flagOK(c, depth+1) }) {
							continue
						}
						return false
					}
					return any
				}
				for _, bb := range fn.Blocks {
					cond, tE, _, okb := branchEdges(bb)
					if !okb || !(edgeDominates(tE, b) || tE.To() == b && len(b.Preds) == 1) {
						continue
					}
					if flagOK(cond, 0) {
						okS = true
					} else if _, isPhi := cond.(*ssa.Phi); isPhi {
						why = "the flag guarding the assertion can become true without len(list) == 1 and a successful assertion of its first element"
					}
				}
			}
			r.Check(okS, rule, fmt.Sprintf("%s:unchecked-assert#%d", fnName(fn), n), w.Pos(ta.Pos()),
				"the unchecked assertion lies behind a flag that is true only where the list has exactly one element and that element was asserted to the same type",
				"an unchecked assertion to "+typeName(ta.AssertedType)+" in the hunk renderer is not protected ("+why+"): rendering (with colour) a hunk whose values are not all of that type panics")
		}
	}
	if n == 0 {
		r.Ok(rule, fnName(fn)+":no-unchecked-assertions", w.Pos(fn.Pos()), "the hunk renderer contains no unchecked type assertion")
	}
}

// behindFlag: block src is reachable only over the true edge of a branch whose condition satisfies pred.
func behindFlag(fn *ssa.Function, src *ssa.BasicBlock, pred func(ssa.Value) bool) bool {
	for _, bb := range fn.Blocks {
		cond, tE, _, ok := branchEdges(bb)
		if !ok || !(edgeDominates(tE, src) || tE.To() == src && len(src.Preds) == 1) {
			continue
		}
		if pred(cond) {
			return true
		}
	}
	return false
}
