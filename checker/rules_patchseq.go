package main

import (
	"fmt"
	"go/constant"
	"go/token"
	"go/types"
	"strings"

	"golang.org/x/tools/go/ssa"
)

// rulePatchSeq — R-PATCHSEQ (C10, last clause: "reading jd's own JSON Patch
// output and applying it to a reproduces b").
//
// The op sequences RenderPatch emits for one list hunk are known (R-PAIR,
// R-CTXINDEX and R-REVADD decide them on the writer): with the hunk at index
// i, r removed and a added values,
//
//	[test i-1]?  [test i+r]?  (test i, remove i)^r  (add i)^a
//
// For every such sequence (context present/absent, r in 0..3, a in 0..2, with
// and without a following hunk) the context reader is evaluated by conditional
// constant propagation: the ops' names and indices are bound, every branch on
// len(patch), on patch[k].Op and on the indices parsed from patch[k].Path is
// decided, errors of the pointer and value readers are assumed absent and the
// parents equal. The path taken must consume exactly the context tests and
// store their values into Before/After (the boundary marker otherwise); at the
// start of each following (test, remove) pair it must consume nothing.
//
// This is the reader's decision table against the writer's grammar — the part
// of C10 that a well-meant "hardening" of the index comparisons breaks (a
// context test further away than one position is what the writer emits for
// r >= 2). If the reader is organised in a way the evaluator does not
// recognise (different signature, helpers it cannot bind), the rule makes no
// claim and says so.
func rulePatchSeq(w *World, r *Report, pkg *ssa.Package) {
	const rule = "R-PATCHSEQ"
	fn := w.FuncOpt(pkg, "setPatchDiffElementContext")
	key := "v2.setPatchDiffElementContext:reads-own-context-shapes"
	if fn == nil || fn.Blocks == nil || len(fn.Params) != 2 || fn.Signature.Results().Len() != 2 {
		r.Ok(rule, key, "-", "the context reader is not organised as (ops, *hunk) -> (rest, error): this rule makes no claim (not decided)")
		return
	}
	pos := w.Pos(fn.Pos())
	r.Fn(fnName(fn))
	ev := &seqEval{w: w, fn: fn, patch: fn.Params[0], hunk: fn.Params[1]}
	type op struct {
		name string
		idx  int64
	}
	type scenario struct {
		ops                 []op
		wantConsume         int
		wantBefore, wantAft string // "void" or "op<k>"
		desc                string
	}
	var scs []scenario
	const i = 5
	suffixes := [][]op{nil, {{"test", 19}, {"test", 21}, {"test", 20}, {"remove", 20}}, {{"add", 30}}}
	for _, hasB := range []bool{false, true} {
		for _, hasA := range []bool{false, true} {
			for rr := 0; rr <= 3; rr++ {
				for aa := 0; aa <= 2; aa++ {
					if rr+aa == 0 {
						continue
					}
					for si, suf := range suffixes {
						var ops []op
						before, after := "void", "void"
						if hasB {
							before = fmt.Sprintf("op%d", len(ops))
							ops = append(ops, op{"test", i - 1})
						}
						if hasA {
							after = fmt.Sprintf("op%d", len(ops))
							ops = append(ops, op{"test", int64(i + rr)})
						}
						ctx := len(ops)
						var pairStarts []int
						for k := 0; k < rr; k++ {
							pairStarts = append(pairStarts, len(ops))
							ops = append(ops, op{"test", i}, op{"remove", i})
						}
						for k := 0; k < aa; k++ {
							ops = append(ops, op{"add", i})
						}
						ops = append(ops, suf...)
						desc := fmt.Sprintf("before=%v after=%v removes=%d adds=%d suffix#%d", hasB, hasA, rr, aa, si)
						if ops[0].name == "test" {
							scs = append(scs, scenario{ops, ctx, before, after, desc + " @start"})
						}
						// the reader is called again at the start of every later (test, remove) pair
						for pi, ps := range pairStarts {
							if ps == 0 && ctx == 0 {
								continue // same as @start
							}
							scs = append(scs, scenario{ops[ps:], 0, "void", "void", fmt.Sprintf("%s @pair%d", desc, pi+1)})
						}
					}
				}
			}
		}
	}
	nOK := 0
	for _, sc := range scs {
		names := make([]string, len(sc.ops))
		idx := make([]int64, len(sc.ops))
		for k, o := range sc.ops {
			names[k], idx[k] = o.name, o.idx
		}
		res := ev.run(names, idx)
		if res.undecided != "" {
			r.Ok(rule, key, pos, "the evaluator cannot decide a branch of the context reader ("+res.undecided+"): this rule makes no claim (not decided)")
			return
		}
		seq := []string{}
		for _, o := range sc.ops {
			seq = append(seq, fmt.Sprintf("%s /%d", o.name, o.idx))
		}
		if len(seq) > 8 {
			seq = append(seq[:8], "…")
		}
		got := fmt.Sprintf("consumes %d, before=%s, after=%s", res.consumed, res.before, res.after)
		if res.err {
			got = "returns an error"
		}
		want := fmt.Sprintf("consumes %d, before=%s, after=%s", sc.wantConsume, sc.wantBefore, sc.wantAft)
		// a reader that leaves Before/After untouched when nothing is consumed is as good as one that stores the markers
		same := !res.err && res.consumed == sc.wantConsume &&
			(res.before == sc.wantBefore || (sc.wantBefore == "void" && res.before == "unset")) &&
			(res.after == sc.wantAft || (sc.wantAft == "void" && res.after == "unset"))
		if !same {
			r.Bad(rule, key, pos, fmt.Sprintf("for the op sequence RenderPatch emits for a list hunk (%s): [%s] the context reader %s; to read jd's own output it must: %s — the rendered patch is rejected or read as a different hunk", sc.desc, strings.Join(seq, ", "), got, want))
			return
		}
		nOK++
	}
	// the converse for the before-context: a test op is enforced, once it has become Before, at the
	// position right above the edit (R-CTXPOS); RFC 6902 evaluates it at the index it names. A test
	// further up than one position must therefore not be folded into Before — jd would check another
	// element than the RFC does and accept what the RFC rejects.
	{
		key2 := "v2.setPatchDiffElementContext:before-context-only-if-adjacent"
		bad := ""
		nNeg := 0
	neg:
		for _, gap := range []int64{2, 3} {
			for _, tail := range [][]op{
				{{"add", i}},
				{{"test", i}, {"remove", i}},
				{{"test", i + 1}, {"test", i}, {"remove", i}},
				{{"test", i + 2}, {"test", i}, {"remove", i}, {"test", i}, {"remove", i}},
				{{"test", i}, {"add", i}},
			} {
				ops := append([]op{{"test", i - gap}}, tail...)
				names := make([]string, len(ops))
				idx := make([]int64, len(ops))
				seq := []string{}
				for k, o := range ops {
					names[k], idx[k] = o.name, o.idx
					seq = append(seq, fmt.Sprintf("%s /%d", o.name, o.idx))
				}
				res := ev.run(names, idx)
				if res.undecided != "" {
					bad = ""
					nNeg = -1
					break neg
				}
				nNeg++
				if !res.err && res.before == "op0" {
					bad = fmt.Sprintf("[%s]: the first test, %d positions above the edit, is folded into the hunk's before-context (consumes %d)", strings.Join(seq, ", "), gap, res.consumed)
					break neg
				}
			}
		}
		switch {
		case nNeg < 0:
			r.Ok(rule, key2, pos, "the evaluator cannot decide a branch of the context reader on the non-adjacent sequences: this clause makes no claim (not decided)")
		case bad != "":
			r.Bad(rule, key2, pos, "for the op sequence "+bad+": the list patch checks a before-context at the position right above the edit, RFC 6902 evaluates the test at the index it names — jd compares a different element and accepts documents on which the RFC evaluation fails")
		default:
			r.Ok(rule, key2, pos, fmt.Sprintf("none of %d op sequences whose leading test lies 2 or 3 positions above the edit is folded into a before-context", nNeg))
		}
	}
	// and for the after-context: the element a test names can only be the one *behind* the edit if
	// its index is not smaller than the edit's; a test above the edit position folded into After is
	// checked at the edit position, not where RFC 6902 evaluates it
	{
		key3 := "v2.setPatchDiffElementContext:after-context-not-above-the-edit"
		bad := ""
		nNeg := 0
	neg2:
		for _, gap := range []int64{2, 3} {
			for _, tail := range [][]op{
				{{"add", i + gap}},
				{{"test", i + gap}, {"remove", i + gap}},
			} {
				ops := append([]op{{"test", i - 1}, {"test", i}}, tail...)
				names := make([]string, len(ops))
				idx := make([]int64, len(ops))
				seq := []string{}
				for k, o := range ops {
					names[k], idx[k] = o.name, o.idx
					seq = append(seq, fmt.Sprintf("%s /%d", o.name, o.idx))
				}
				res := ev.run(names, idx)
				if res.undecided != "" {
					nNeg = -1
					break neg2
				}
				nNeg++
				if !res.err && res.after == "op1" {
					bad = fmt.Sprintf("[%s]: the second test, %d positions above the edit, is folded into the hunk's after-context (consumes %d)", strings.Join(seq, ", "), gap, res.consumed)
					break neg2
				}
			}
		}
		switch {
		case nNeg < 0:
			r.Ok(rule, key3, pos, "the evaluator cannot decide a branch of the context reader on these sequences: this clause makes no claim (not decided)")
		case bad != "":
			r.Bad(rule, key3, pos, "for the op sequence "+bad+": the list patch checks an after-context at the edit position, RFC 6902 evaluates the test at the index it names — jd compares a different element and accepts documents on which the RFC evaluation fails")
		default:
			r.Ok(rule, key3, pos, fmt.Sprintf("none of %d op sequences whose second test lies above the edit position is folded into an after-context", nNeg))
		}
	}
	r.Ok(rule, key, pos, fmt.Sprintf("all %d op sequences of the writer's list-hunk grammar (context present/absent, 0..3 removals, 0..2 additions, with and without a following hunk, at the start of the hunk and of each later pair) are consumed as the writer means them", nOK))
}

type seqEval struct {
	w     *World
	fn    *ssa.Function
	patch *ssa.Parameter
	hunk  *ssa.Parameter
}

type seqResult struct {
	consumed      int
	before, after string
	err           bool
	undecided     string
}

// opIndexOf: v is &patch[k] (possibly through a load) — returns k.
func (ev *seqEval) elemOf(v ssa.Value) (int64, bool) {
	switch x := v.(type) {
	case *ssa.IndexAddr:
		if strip(x.X) == ssa.Value(ev.patch) {
			return constInt(x.Index)
		}
	case *ssa.UnOp:
		if x.Op == token.MUL {
			return ev.elemOf(x.X)
		}
	case *ssa.Index:
		if strip(x.X) == ssa.Value(ev.patch) {
			return constInt(x.Index)
		}
	}
	return 0, false
}

// fieldOf: v is a load of patch[k].<field>.
func (ev *seqEval) fieldOf(v ssa.Value) (k int64, field string, ok bool) {
	v = strip(v)
	switch x := v.(type) {
	case *ssa.UnOp:
		if x.Op != token.MUL {
			return 0, "", false
		}
		fa, isFA := x.X.(*ssa.FieldAddr)
		if !isFA {
			return 0, "", false
		}
		k, ok := ev.elemOf(fa.X)
		if !ok {
			return 0, "", false
		}
		st := fa.X.Type().Underlying().(*types.Pointer).Elem().Underlying().(*types.Struct)
		return k, st.Field(fa.Field).Name(), true
	case *ssa.Field:
		k, ok := ev.elemOf(x.X)
		if !ok {
			return 0, "", false
		}
		st := x.X.Type().Underlying().(*types.Struct)
		return k, st.Field(x.Field).Name(), true
	}
	return 0, "", false
}

// pointerOp: v is derived (through calls and extracts) from exactly patch[k].Path — returns k.
func (ev *seqEval) pointerOp(v ssa.Value, depth int) (int64, bool) {
	if depth > 12 {
		return 0, false
	}
	v = strip(v)
	if k, f, ok := ev.fieldOf(v); ok && f == "Path" {
		return k, true
	}
	switch x := v.(type) {
	case *ssa.Extract:
		return ev.pointerOp(x.Tuple, depth+1)
	case *ssa.Call:
		found, have := int64(0), false
		for _, a := range x.Call.Args {
			if k, ok := ev.pointerOp(a, depth+1); ok {
				if have && k != found {
					return 0, false
				}
				found, have = k, true
			}
		}
		return found, have
	case *ssa.TypeAssert:
		return ev.pointerOp(x.X, depth+1)
	case *ssa.UnOp:
		if x.Op == token.MUL {
			if ia, ok := x.X.(*ssa.IndexAddr); ok {
				return ev.pointerOp(ia.X, depth+1)
			}
		}
	case *ssa.Index:
		return ev.pointerOp(x.X, depth+1)
	case *ssa.Slice:
		return ev.pointerOp(x.X, depth+1)
	}
	return 0, false
}

func (ev *seqEval) run(names []string, idx []int64) seqResult {
	res := seqResult{before: "unset", after: "unset"}
	n := int64(len(names))
	var prev *ssa.BasicBlock
	var evalInt func(v ssa.Value, depth int) (int64, bool)
	var evalStr func(v ssa.Value, depth int) (string, bool)
	var evalBool func(v ssa.Value, depth int) (bool, bool)
	isIntish := func(t types.Type) bool {
		b, ok := t.Underlying().(*types.Basic)
		return ok && b.Info()&(types.IsInteger|types.IsFloat) != 0
	}
	evalInt = func(v ssa.Value, depth int) (int64, bool) {
		if depth > 20 {
			return 0, false
		}
		v = strip(v)
		if c, ok := v.(*ssa.Const); ok && c.Value != nil {
			if c.Value.Kind() == constant.Int {
				return c.Int64(), true
			}
			if c.Value.Kind() == constant.Float {
				f, _ := constant.Float64Val(c.Value)
				return int64(f), true
			}
		}
		switch x := v.(type) {
		case *ssa.Convert:
			return evalInt(x.X, depth+1)
		case *ssa.Call:
			if b, ok := x.Call.Value.(*ssa.Builtin); ok && b.Name() == "len" {
				if strip(x.Call.Args[0]) == ssa.Value(ev.patch) {
					return n, true
				}
				if _, ok := ev.pointerOp(x.Call.Args[0], 0); ok {
					return 2, true // a parsed pointer inside an array: at least parent + index
				}
			}
		case *ssa.BinOp:
			a, ok1 := evalInt(x.X, depth+1)
			b, ok2 := evalInt(x.Y, depth+1)
			if !ok1 || !ok2 {
				return 0, false
			}
			switch x.Op {
			case token.ADD:
				return a + b, true
			case token.SUB:
				return a - b, true
			}
		case *ssa.Phi:
			if prev != nil {
				for i, p := range x.Block().Preds {
					if p == prev {
						return evalInt(x.Edges[i], depth+1)
					}
				}
			}
		case *ssa.Extract:
			if isIntish(x.Type()) {
				if k, ok := ev.pointerOp(x, 0); ok && k < n {
					return idx[k], true
				}
			}
		}
		return 0, false
	}
	evalStr = func(v ssa.Value, depth int) (string, bool) {
		if depth > 20 {
			return "", false
		}
		v = strip(v)
		if c, ok := v.(*ssa.Const); ok && c.Value != nil && c.Value.Kind() == constant.String {
			return constant.StringVal(c.Value), true
		}
		if k, f, ok := ev.fieldOf(v); ok && k < n {
			switch f {
			case "Op":
				return names[k], true
			case "Path":
				return fmt.Sprintf("/arr/%d", idx[k]), true
			}
		}
		if c, ok := v.(*ssa.Call); ok {
			// a string computed from one op's pointer other than its index: the parent — all ops address the same array
			if _, ok := ev.pointerOp(c, 0); ok && isStringType(c.Type()) {
				return "/arr", true
			}
		}
		if x, ok := v.(*ssa.Phi); ok && prev != nil {
			for i, p := range x.Block().Preds {
				if p == prev {
					return evalStr(x.Edges[i], depth+1)
				}
			}
		}
		return "", false
	}
	evalBool = func(v ssa.Value, depth int) (bool, bool) {
		if depth > 20 {
			return false, false
		}
		if b, ok := constBool(v); ok {
			return b, true
		}
		switch x := v.(type) {
		case *ssa.UnOp:
			if x.Op == token.NOT {
				b, ok := evalBool(x.X, depth+1)
				return !b, ok
			}
		case *ssa.Phi:
			if prev != nil {
				for i, p := range x.Block().Preds {
					if p == prev {
						return evalBool(x.Edges[i], depth+1)
					}
				}
			}
		case *ssa.Extract:
			// ok of a comma-ok assertion of a parsed path element to the index type / of a helper: the ops address array elements
			if x.Index >= 1 {
				if _, ok := ev.pointerOp(x, 0); ok {
					return true, true
				}
			}
		case *ssa.BinOp:
			if isErrorType(x.X.Type()) || isErrorType(x.Y.Type()) {
				if isNilConst(x.X) || isNilConst(x.Y) {
					return x.Op == token.EQL, true // no reader error
				}
			}
			if isStringType(x.X.Type()) {
				a, ok1 := evalStr(x.X, depth+1)
				b, ok2 := evalStr(x.Y, depth+1)
				if ok1 && ok2 {
					switch x.Op {
					case token.EQL:
						return a == b, true
					case token.NEQ:
						return a != b, true
					}
				}
				return false, false
			}
			a, ok1 := evalInt(x.X, depth+1)
			b, ok2 := evalInt(x.Y, depth+1)
			if ok1 && ok2 {
				switch x.Op {
				case token.EQL:
					return a == b, true
				case token.NEQ:
					return a != b, true
				case token.LSS:
					return a < b, true
				case token.LEQ:
					return a <= b, true
				case token.GTR:
					return a > b, true
				case token.GEQ:
					return a >= b, true
				}
			}
		}
		return false, false
	}
	classify := func(v ssa.Value) string {
		// the one-element list stored into Before/After
		sl, ok := strip(v).(*ssa.Slice)
		if !ok {
			return "?"
		}
		al, ok := sl.X.(*ssa.Alloc)
		if !ok {
			return "?"
		}
		out := "?"
		for _, ref := range *al.Referrers() {
			ia, ok := ref.(*ssa.IndexAddr)
			if !ok {
				continue
			}
			for _, r2 := range *ia.Referrers() {
				st, ok := r2.(*ssa.Store)
				if !ok {
					continue
				}
				el := strip(st.Val)
				if _, isVoid := el.Type().Underlying().(*types.Struct); isVoid {
					out = "void"
					continue
				}
				if ex, ok := el.(*ssa.Extract); ok {
					if c, ok := ex.Tuple.(*ssa.Call); ok && len(c.Call.Args) == 1 {
						if k, f, ok := ev.fieldOf(c.Call.Args[0]); ok && f == "Value" {
							out = fmt.Sprintf("op%d", k)
						}
					}
				}
			}
		}
		return out
	}
	b := ev.fn.Blocks[0]
	for steps := 0; steps < 500; steps++ {
		for _, in := range b.Instrs {
			switch x := in.(type) {
			case *ssa.Store:
				fa, ok := x.Addr.(*ssa.FieldAddr)
				if !ok || strip(fa.X) != ssa.Value(ev.hunk) {
					continue
				}
				st := fa.X.Type().Underlying().(*types.Pointer).Elem().Underlying().(*types.Struct)
				switch st.Field(fa.Field).Name() {
				case "Before":
					res.before = classify(x.Val)
				case "After":
					res.after = classify(x.Val)
				}
			case *ssa.If:
				c, ok := evalBool(x.Cond, 0)
				if !ok {
					res.undecided = "condition at " + ev.w.Pos(x.Cond.Pos())
					if !x.Cond.Pos().IsValid() {
						res.undecided = "condition " + x.Cond.String()
					}
					return res
				}
				prev = b
				if c {
					b = b.Succs[0]
				} else {
					b = b.Succs[1]
				}
			case *ssa.Jump:
				prev = b
				b = b.Succs[0]
			case *ssa.Return:
				if !isNilConst(x.Results[1]) {
					res.err = true
					return res
				}
				rv := strip(x.Results[0])
				if rv == ssa.Value(ev.patch) {
					res.consumed = 0
					return res
				}
				if sl, ok := rv.(*ssa.Slice); ok && strip(sl.X) == ssa.Value(ev.patch) && sl.High == nil {
					lo := int64(0)
					if sl.Low != nil {
						v, ok := evalInt(sl.Low, 0)
						if !ok {
							res.undecided = "remainder slice bound"
							return res
						}
						lo = v
					}
					res.consumed = int(lo)
					return res
				}
				res.undecided = "returned remainder is not the op list or a tail of it"
				return res
			case *ssa.Panic:
				res.err = true
				return res
			}
		}
		if _, isIf := b.Instrs[len(b.Instrs)-1].(*ssa.If); isIf {
			continue
		}
	}
	res.undecided = "evaluation did not terminate"
	return res
}


// ruleAfterPos — R-AFTERPOS (C10 "never more permissive than the RFC").
//
// A JSON Patch evaluates the test that jd reads as a hunk's after context *before* the hunk's
// removals, at the index the test names; the native hunk compares its after context *after* all its
// removals (those of coalesced ops included), at the hunk's index. The two look at the same element
// exactly when the test sits at index + number of removals — which is where RenderPatch puts it.
// Inside the context reader the after test's index is only compared with its neighbours through
// inequalities, and the number of removals is not known there (later pairs are coalesced into the
// hunk by the driver). So the reader as a whole must, before it hands out a diff, compare for
// (in)equality a value derived from a hunk's index and the number of its removals with the index of
// the after test, on every path to a successful return.
//
// Decided structurally: (1) some function reached from the exported reader contains an == / !=
// whose operands' backward slice holds both `len(<hunk>.Remove)` and a path element asserted to the
// index kind; (2) in the exported reader every return of a diff that is not the nil constant, with a
// nil error, is dominated by that comparison (or by the call that reaches it). What is NOT decided:
// that the compared index really is the one of the after test (a value-flow question across the
// three readers) — the seeded reverts and the R-PATCHSEQ table cover the obvious ways to get that
// wrong.
func ruleAfterPos(w *World, r *Report, pkg *ssa.Package) {
	const rule = "R-AFTERPOS"
	drv := w.FuncOpt(pkg, "ReadPatchString")
	key := "v2.ReadPatchString:after-test-position"
	if drv == nil || drv.Blocks == nil {
		r.Ok(rule, key, "-", "no ReadPatchString: this rule makes no claim (not decided)")
		return
	}
	r.Fn(fnName(drv))
	// does the reader coalesce ops into hunks and read after context at all?
	storesAfter := false
	for _, fn := range w.FuncsOf(pkg) {
		if fn.Blocks == nil || !strings.Contains(strings.ToLower(fn.Name()), "patch") {
			continue
		}
		allInstrs(fn, func(in ssa.Instruction) {
			if st, ok := in.(*ssa.Store); ok {
				if fa, ok := st.Addr.(*ssa.FieldAddr); ok && fieldName(fa.X.Type(), fa.Field) == "After" {
					if _, isParam := fa.X.(*ssa.Parameter); isParam {
						storesAfter = true
					}
				}
			}
		})
	}
	if !storesAfter {
		r.Ok(rule, key, w.Pos(drv.Pos()), "no reader stores an after context through a hunk pointer: this rule makes no claim (not decided)")
		return
	}
	// (1) the comparison
	isTie := func(bo *ssa.BinOp) bool {
		if bo.Op != token.EQL && bo.Op != token.NEQ {
			return false
		}
		hasLenRemove, hasIndexAssert := false, false
		seen := map[ssa.Value]bool{}
		var walk func(v ssa.Value, depth int)
		walk = func(v ssa.Value, depth int) {
			if v == nil || seen[v] || depth > 40 {
				return
			}
			seen[v] = true
			switch x := v.(type) {
			case *ssa.Call:
				if b, ok := x.Call.Value.(*ssa.Builtin); ok && b.Name() == "len" {
					arg := x.Call.Args[0]
					switch y := arg.(type) {
					case *ssa.Field:
						if fieldName(y.X.Type(), y.Field) == "Remove" {
							hasLenRemove = true
						}
					case *ssa.UnOp:
						if fa, ok := y.X.(*ssa.FieldAddr); ok && fieldName(fa.X.Type(), fa.Field) == "Remove" {
							hasLenRemove = true
						}
					}
				}
			case *ssa.TypeAssert:
				if typeName(x.AssertedType) == "PathIndex" {
					hasIndexAssert = true
				}
			case *ssa.UnOp:
				if al, ok := x.X.(*ssa.Alloc); ok && x.Op == token.MUL {
					for _, ref := range *al.Referrers() {
						if st, ok := ref.(*ssa.Store); ok && st.Addr == ssa.Value(al) {
							walk(st.Val, depth+1)
						}
					}
				}
			}
			if in, ok := v.(ssa.Instruction); ok {
				for _, op := range in.Operands(nil) {
					if *op != nil {
						walk(*op, depth+1)
					}
				}
			}
		}
		walk(bo.X, 0)
		walk(bo.Y, 0)
		return hasLenRemove && hasIndexAssert
	}
	ties := map[*ssa.Function][]*ssa.BinOp{}
	seenF := map[*ssa.Function]bool{}
	var reach func(fn *ssa.Function, depth int)
	reach = func(fn *ssa.Function, depth int) {
		if fn == nil || fn.Blocks == nil || seenF[fn] || depth > 4 || fnPkg(fn) != pkg.Pkg {
			return
		}
		seenF[fn] = true
		allInstrs(fn, func(in ssa.Instruction) {
			switch x := in.(type) {
			case *ssa.BinOp:
				if isTie(x) {
					ties[fn] = append(ties[fn], x)
				}
			case *ssa.Call:
				reach(staticCallee(x), depth+1)
			}
		})
	}
	reach(drv, 0)
	if len(ties) == 0 {
		r.Bad(rule, key, w.Pos(drv.Pos()), "nothing in the JSON Patch reader compares the index at which the patch tested a hunk's after context with the hunk's index plus the number of its removals: the patch evaluates that test before the removals at the index it names, the hunk compares after the removals at its own index, so a test placed elsewhere (or removals coalesced into the hunk afterwards) makes jd accept a patch that RFC 6902 evaluation rejects")
		return
	}
	// (2) domination of the successful returns of the exported reader
	var gates []*ssa.BasicBlock
	for _, bo := range ties[drv] {
		gates = append(gates, bo.Block())
	}
	allInstrs(drv, func(in ssa.Instruction) {
		if c, ok := in.(*ssa.Call); ok {
			if g := staticCallee(c); g != nil && len(ties[g]) > 0 {
				gates = append(gates, c.Block())
			}
		}
	})
	bad := ""
	nRet := 0
	for _, ret := range returnsOf(drv) {
		if len(ret.Results) != 2 || !isNilConst(ret.Results[1]) || isNilConst(ret.Results[0]) {
			continue
		}
		nRet++
		dom := false
		for _, g := range gates {
			if g.Dominates(ret.Block()) {
				dom = true
			}
		}
		if !dom {
			bad = w.Pos(ret.Pos())
		}
	}
	r.Check(bad == "" && nRet > 0, rule, key, w.Pos(drv.Pos()),
		fmt.Sprintf("the %d successful return(s) of a diff lie behind the comparison of the after test's index with index + removals", nRet),
		"a diff is returned (at "+bad+") without the comparison of the after test's index with the hunk's index plus its removals having been made: a patch whose after test sits elsewhere is accepted although RFC 6902 evaluation rejects it")
}
