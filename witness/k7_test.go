package wit

// K7 (C01, C05, C08): jsonObject.ident hashes the values found under the set keys
// without their key names (and the fold sorts them), so with two or more set keys
// members whose key values are permuted share one identity. Not repaired: binding
// the key changes every keyed identity and with it the (hash-ordered) output of set
// diffs; the pinned TestSetDiff/complex_set_key_diff fixes that order.

import (
	"testing"

	jd "github.com/josephburnett/jd/v2"
)

func TestK7(t *testing.T) {
	opts := []jd.Option{jd.SetKeys("a", "b")}
	rd := func(s string) jd.JsonNode { n, err := jd.ReadJsonString(s); if err != nil { t.Fatal(err) }; return n }
	// C05: Equals false, Diff empty
	a, b := rd(`[{"a":1,"b":2,"v":0},{"a":2,"b":1,"v":5}]`), rd(`[{"a":1,"b":2,"v":9},{"a":2,"b":1,"v":5}]`)
	if d := a.Diff(b, opts...); len(d) == 0 && !a.Equals(b, opts...) {
		t.Errorf("C05: Diff is empty although Equals is false")
	}
	// C01: own diff does not apply
	a, b = rd(`[{"a":1,"b":2,"v":0}]`), rd(`[{"a":2,"b":1,"v":0}]`)
	if got, err := a.Patch(a.Diff(b, opts...)); err != nil || !got.Equals(b, opts...) {
		t.Errorf("C01: a.Patch(a.Diff(b)) = %v, %v", got, err)
	}
	// C08: the hunk addressed to {"a":1,"b":2} changes the member {"a":2,"b":1}
	a, b = rd(`[{"a":1,"b":2,"w":0}]`), rd(`[{"a":1,"b":2,"w":7}]`)
	d := a.Diff(b, opts...)
	c := rd(`[{"a":2,"b":1,"w":0},{"a":1,"b":2,"w":0}]`)
	want := rd(`[{"a":2,"b":1,"w":0},{"a":1,"b":2,"w":7}]`)
	if got, err := c.Patch(d); err != nil || !got.Equals(want, opts...) {
		t.Errorf("C08: %v patched with\n%s gives %v, %v", c.Json(), d.Render(), got, err)
	}
}
