package main

import (
	"fmt"
	"go/token"
	"go/types"
	"sort"
	"strings"

	"golang.org/x/tools/go/ssa"
)

// ruleJSONCodec: the library talks to encoding/json and yaml.v2 only through
// Marshal / Unmarshal with default settings — one encoding for plain and
// coloured output, for hunks and documents.
func ruleJSONCodec(w *World, r *Report, pkg *ssa.Package, tag string) {
	const rule = "R-JSONCODEC"
	allowed := map[string]bool{"encoding/json.Marshal": true, "encoding/json.Unmarshal": true,
		"gopkg.in/yaml.v2.Marshal": true, "gopkg.in/yaml.v2.Unmarshal": true}
	n := 0
	for _, fn := range w.FuncsOf(pkg) {
		allInstrs(fn, func(in ssa.Instruction) {
			c, ok := in.(ssa.CallInstruction)
			if !ok {
				return
			}
			sf := staticCallee(c)
			if sf == nil || fnPkg(sf) == nil {
				return
			}
			p := fnPkg(sf).Path()
			if p != "encoding/json" && p != "gopkg.in/yaml.v2" {
				return
			}
			n++
			name := calleeFullName(c)
			key := fmt.Sprintf("%s→%s", fnName(fn), name)
			r.Check(allowed[name], rule, key, w.Pos(c.Pos()), "default Marshal/Unmarshal",
				"uses "+name+": a second way of encoding/decoding values (other escaping, indentation or number handling) — plain and coloured, hunk and document renderings no longer agree byte for byte")
		})
	}
	if n < 5 {
		r.Bad(rule, tag+":instance-floor", "-", fmt.Sprintf("only %d calls into encoding/json / yaml.v2 found", n))
	}
	// value references (method values, function values passed around)
	for _, fn := range w.FuncsOf(pkg) {
		allInstrs(fn, func(in ssa.Instruction) {
			var ops []*ssa.Value
			for _, op := range in.Operands(ops) {
				f, ok := (*op).(*ssa.Function)
				if !ok || fnPkg(f) == nil {
					continue
				}
				p := fnPkg(f).Path()
				if p != "encoding/json" && p != "gopkg.in/yaml.v2" {
					continue
				}
				if _, isCall := in.(ssa.CallInstruction); isCall && staticCallee(in.(ssa.CallInstruction)) == f {
					continue
				}
				name := f.Object().(*types.Func).FullName()
				r.Check(allowed[name], rule, fmt.Sprintf("%s→value:%s", fnName(fn), name), w.Pos(in.Pos()), "default Marshal/Unmarshal passed as the codec", "passes "+name+" as a codec")
			}
		})
	}
}

// ruleCodecRoutes: ReadJson* hand json.Unmarshal, ReadYaml* hand yaml.Unmarshal
// to the shared unmarshal(); Json() reaches only json.Marshal, Yaml() only
// yaml.Marshal (one named exception: jsonNull.Yaml renders through JSON).
func ruleCodecRoutes(w *World, r *Report, pkg *ssa.Package, tag string) {
	const rule = "R-CODEC"
	for _, rd := range []struct{ fn, codec string }{{"ReadJsonFile", "encoding/json.Unmarshal"}, {"ReadJsonString", "encoding/json.Unmarshal"},
		{"ReadYamlFile", "gopkg.in/yaml.v2.Unmarshal"}, {"ReadYamlString", "gopkg.in/yaml.v2.Unmarshal"}} {
		fn := w.Func(pkg, rd.fn)
		r.Fn(fnName(fn))
		got := map[string]bool{}
		allInstrs(fn, func(in ssa.Instruction) {
			c, ok := in.(*ssa.Call)
			if !ok {
				return
			}
			for _, a := range c.Call.Args {
				if f, ok := strip(a).(*ssa.Function); ok && f.Object() != nil {
					got[f.Object().(*types.Func).FullName()] = true
				}
				if mc, ok := a.(*ssa.MakeClosure); ok {
					got["closure:"+mc.Fn.Name()] = true
				}
			}
			if sf := staticCallee(c); sf != nil && fnPkg(sf) != nil {
				if p := fnPkg(sf).Path(); p == "encoding/json" || p == "gopkg.in/yaml.v2" {
					got[calleeFullName(c)] = true
				}
			}
		})
		ks := sortedKeys(got)
		r.Check(len(ks) == 1 && ks[0] == rd.codec, rule, fnName(fn), w.Pos(fn.Pos()), rd.fn+" decodes with "+rd.codec, fmt.Sprintf("%s decodes with %v, expected exactly %s", rd.fn, ks, rd.codec))
	}
	// the shared unmarshal: the document is what the codec produced, converted by NewJsonNode
	if um := w.FuncOpt(pkg, "unmarshal"); um != nil {
		r.Fn(fnName(um))
		okc := false
		allInstrs(um, func(in ssa.Instruction) {
			c, ok := in.(*ssa.Call)
			if ok {
				if sf := staticCallee(c); sf != nil && sf.Name() == "NewJsonNode" {
					// argument is the load of the local the codec filled
					if ld, ok := c.Call.Args[0].(*ssa.UnOp); ok && ld.Op == token.MUL {
						if a, ok := ld.X.(*ssa.Alloc); ok {
							for _, ref := range *a.Referrers() {
								if mi, ok := ref.(*ssa.MakeInterface); ok {
									for _, r2 := range *mi.Referrers() {
										if cc, ok := r2.(*ssa.Call); ok && cc.Call.Value == ssa.Value(um.Params[1]) {
											okc = true
										}
									}
								}
							}
						}
					}
				}
			}
		})
		r.Check(okc, rule, fnName(um)+":decoded-value-converted", w.Pos(um.Pos()), "the value the codec decoded is what NewJsonNode converts", "NewJsonNode is not applied to the value the codec decoded")
	}
	nt := newNodeTypes(w, pkg, tag)
	cg := w.CG()
	delegates := map[*ssa.Function]bool{}
	marshalReach := func(fn *ssa.Function) map[string]bool {
		out := map[string]bool{}
		seen := map[*ssa.Function]bool{fn: true}
		work := []*ssa.Function{fn}
		for len(work) > 0 {
			f := work[len(work)-1]
			work = work[:len(work)-1]
			n := cg.Nodes[f]
			if n == nil {
				continue
			}
			for _, e := range n.Out {
				c := e.Callee.Func
				if c.Object() != nil {
					switch c.Object().(*types.Func).FullName() {
					case "encoding/json.Marshal", "gopkg.in/yaml.v2.Marshal":
						out[c.Object().(*types.Func).FullName()] = true
					}
				}
				if fnPkg(c) == pkg.Pkg && !seen[c] {
					// another node's Json/Yaml is its own obligation: do not follow
					if (c.Name() == "Json" || c.Name() == "Yaml") && c.Signature.Recv() != nil {
						if c.Name() == fn.Name() {
							delegates[fn] = true
						}
						continue
					}
					seen[c] = true
					work = append(work, c)
				}
			}
		}
		return out
	}
	for _, t := range nt.names {
		for _, m := range []struct{ name, want string }{{"Json", "encoding/json.Marshal"}, {"Yaml", "gopkg.in/yaml.v2.Marshal"}} {
			fn := nt.method(t, m.name)
			got := sortedKeys(marshalReach(fn))
			key := fnName(fn)
			if t == "voidNode" {
				r.Check(len(got) == 0, rule, key, w.Pos(fn.Pos()), "the void renders as the empty string in both formats", fmt.Sprintf("void rendering reaches %v", got))
				continue
			}
			if t == "jsonNull" && m.name == "Yaml" {
				r.Check(len(got) == 1 && got[0] == "encoding/json.Marshal", rule, key, w.Pos(fn.Pos()), "named exception: null is the same scalar in JSON and YAML and is rendered through JSON", fmt.Sprintf("null's YAML rendering reaches %v", got))
				continue
			}
			want := m.want
			okc := false
			for _, g := range got {
				if g == want {
					okc = true
				}
			}
			// Yaml of containers may reach json.Marshal through jsonObject.MarshalJSON only if yaml calls it; accept extra json only for Yaml? no: require exact
			exact := (len(got) == 1 && okc) || (len(got) == 0 && delegates[fn])
			r.Check(exact, rule, key, w.Pos(fn.Pos()), m.name+"() reaches only "+want, fmt.Sprintf("%s() of %s reaches %v, expected only %s", m.name, t, got, want))
		}
	}
}

// ruleYamlTypes: NewJsonNode has an arm for every dynamic type yaml.v2 v2.4.0
// and encoding/json can store into an interface{}.
func ruleYamlTypes(w *World, r *Report, pkg *ssa.Package) {
	const rule = "R-YAMLTYPES"
	// version pin
	ver := w.moduleVersion("gopkg.in/yaml.v2")
	r.Check(ver == "v2.4.0", rule, "yaml.v2:version", "-", "gopkg.in/yaml.v2 is at v2.4.0, the version whose resolver table is frozen in the checker",
		"gopkg.in/yaml.v2 is at "+ver+": the table of dynamic types it produces was read off v2.4.0 and must be re-confirmed")
	fn := w.Func(pkg, "NewJsonNode")
	r.Fn(fnName(fn))
	arms := map[string]bool{}
	allInstrs(fn, func(in ssa.Instruction) {
		ta, ok := in.(*ssa.TypeAssert)
		if !ok || !ta.CommaOk || ta.X != ssa.Value(fn.Params[0]) {
			return
		}
		arms[types.TypeString(ta.AssertedType, nil)] = true
	})
	// nil arm: comparison of the parameter with nil
	allInstrs(fn, func(in ssa.Instruction) {
		if bo, ok := in.(*ssa.BinOp); ok && bo.Op == token.EQL && bo.X == ssa.Value(fn.Params[0]) && isNilConst(bo.Y) {
			arms["nil"] = true
		}
	})
	want := []string{"map[interface{}]interface{}", "map[string]interface{}", "[]interface{}", "string", "bool", "int", "int64", "uint64", "float64", "nil"}
	norm := func(s string) string { return strings.ReplaceAll(s, "any", "interface{}") }
	have := map[string]bool{}
	for a := range arms {
		have[norm(a)] = true
	}
	for _, t := range want {
		r.Check(have[t], rule, "v2.NewJsonNode:arm:"+t, w.Pos(fn.Pos()), "NewJsonNode converts dynamic type "+t,
			"NewJsonNode has no arm for "+t+", which yaml.v2 / encoding/json produce: such a document is rejected in one format and accepted in the other")
	}
	// each scalar arm yields the right node type: on the arm's true edge the returned node
	nodeFor := map[string]string{"string": "jsonString", "bool": "jsonBool", "int": "jsonNumber", "int64": "jsonNumber", "uint64": "jsonNumber", "float64": "jsonNumber"}
	for _, b := range fn.Blocks {
		for _, in := range b.Instrs {
			ta, ok := in.(*ssa.TypeAssert)
			if !ok || !ta.CommaOk || ta.X != ssa.Value(fn.Params[0]) {
				continue
			}
			tn := norm(types.TypeString(ta.AssertedType, nil))
			wantNode, scalar := nodeFor[tn]
			if !scalar {
				continue
			}
			var okEdge *Edge
			for _, ref := range *ta.Referrers() {
				if ex, ok := ref.(*ssa.Extract); ok && ex.Index == 1 {
					for _, bb := range fn.Blocks {
						if cond, tE, _, okb := branchEdges(bb); okb && cond == ssa.Value(ex) {
							e := tE
							okEdge = &e
						}
					}
				}
			}
			if okEdge == nil {
				continue
			}
			got := map[string]bool{}
			for blk := range reachFrom(okEdge.To(), nil) {
				if ret, ok := blk.Instrs[len(blk.Instrs)-1].(*ssa.Return); ok && isNilErrReturn(ret) {
					if mi, ok := ret.Results[0].(*ssa.MakeInterface); ok {
						got[typeName(mi.X.Type())] = true
					}
				}
			}
			ks := sortedKeys(got)
			sort.Strings(ks)
			r.Check(len(ks) == 1 && ks[0] == wantNode, rule, "v2.NewJsonNode:arm:"+tn+"→"+wantNode, w.Pos(ta.Pos()), "a "+tn+" becomes a "+wantNode,
				fmt.Sprintf("a %s becomes %v, expected %s: strings that look like numbers/booleans (or the reverse) change type between formats", tn, ks, wantNode))
		}
	}
}

// rulePathTab: Path.JsonNode (kind -> JSON shape) and NewPath (JSON shape ->
// kind) are inverse on the kinds a reader can produce.
func rulePathTab(w *World, r *Report, pkg *ssa.Package) {
	const rule = "R-PATHTAB"
	jn := w.Method(pkg, "Path", "JsonNode")
	np := w.Func(pkg, "NewPath")
	r.Fn(fnName(jn))
	r.Fn(fnName(np))
	// writer: kind -> (node type, empty?)
	type shape struct {
		node  string
		empty bool
	}
	wr := map[string]shape{}
	for _, b := range jn.Blocks {
		for _, in := range b.Instrs {
			ta, ok := in.(*ssa.TypeAssert)
			if !ok || !ta.CommaOk {
				continue
			}
			kind := typeName(ta.AssertedType)
			for _, ref := range *ta.Referrers() {
				ex, ok := ref.(*ssa.Extract)
				if !ok || ex.Index != 1 {
					continue
				}
				for _, bb := range jn.Blocks {
					cond, tE, _, okb := branchEdges(bb)
					if !okb || cond != ssa.Value(ex) {
						continue
					}
					for _, in2 := range tE.To().Instrs {
						st, ok := in2.(*ssa.Store)
						if !ok {
							continue
						}
						mi, ok := st.Val.(*ssa.MakeInterface)
						if !ok {
							continue
						}
						sh := shape{node: typeName(mi.X.Type())}
						switch x := mi.X.(type) {
						case *ssa.MakeMap:
							sh.empty = true
							_ = x
						case *ssa.ChangeType:
							if sl, ok := x.X.(*ssa.Slice); ok {
								if a, ok := sl.X.(*ssa.Alloc); ok {
									if arr, ok := a.Type().(*types.Pointer).Elem().Underlying().(*types.Array); ok && arr.Len() == 0 {
										sh.empty = true
									}
								}
							}
							if _, ok := x.X.(*ssa.MakeMap); ok {
								sh.empty = true
							}
						case *ssa.Slice:
							if a, ok := x.X.(*ssa.Alloc); ok {
								if arr, ok := a.Type().(*types.Pointer).Elem().Underlying().(*types.Array); ok && arr.Len() == 0 {
									sh.empty = true
								}
							}
						}
						wr[kind] = sh
					}
				}
			}
		}
	}
	// reader: node type -> kinds produced under it, with the emptiness edge
	type prod struct {
		kind  string
		empty string // "yes" (len==0 edge), "no", "any"
	}
	rd := map[string][]prod{}
	pe := pkg.Type("PathElement")
	// the function that holds the per-element type switch: NewPath itself or a package function it hands the element to
	rdFn := np
	{
		has := func(f *ssa.Function) bool {
			found := false
			allInstrs(f, func(in ssa.Instruction) {
				if ta, ok := in.(*ssa.TypeAssert); ok && ta.CommaOk && typeName(ta.AssertedType) == "jsonString" {
					found = true
				}
			})
			return found
		}
		if !has(np) {
			seenF := map[*ssa.Function]bool{np: true}
			work := []*ssa.Function{np}
			for len(work) > 0 && rdFn == np {
				f := work[0]
				work = work[1:]
				allInstrs(f, func(in ssa.Instruction) {
					c, ok := in.(ssa.CallInstruction)
					if !ok {
						return
					}
					if sf := staticCallee(c); sf != nil && sf.Blocks != nil && fnPkg(sf) == pkg.Pkg && !seenF[sf] {
						seenF[sf] = true
						if has(sf) && rdFn == np {
							rdFn = sf
						}
						work = append(work, sf)
					}
				})
			}
		}
		r.Fn(fnName(rdFn))
	}
	// the subject of the type switch: the operand asserted to jsonString
	var subject ssa.Value
	allInstrs(rdFn, func(in ssa.Instruction) {
		if ta, ok := in.(*ssa.TypeAssert); ok && ta.CommaOk && typeName(ta.AssertedType) == "jsonString" {
			subject = ta.X
		}
	})
	for _, b := range rdFn.Blocks {
		for _, in := range b.Instrs {
			mi, ok := in.(*ssa.MakeInterface)
			if !ok || !types.Identical(mi.Type(), pe.Type()) {
				continue
			}
			kind := typeName(mi.X.Type())
			// the innermost node-type assertion whose true edge dominates this block
			node := ""
			var nodeBlk *ssa.BasicBlock
			for _, bb := range rdFn.Blocks {
				for _, in2 := range bb.Instrs {
					ta, ok := in2.(*ssa.TypeAssert)
					if !ok || !ta.CommaOk || ta.X != subject {
						continue
					}
					for _, ref := range *ta.Referrers() {
						if ex, ok := ref.(*ssa.Extract); ok && ex.Index == 1 {
							for _, b3 := range rdFn.Blocks {
								if cond, tE, _, okb := branchEdges(b3); okb && cond == ssa.Value(ex) && (tE.To() == b || edgeDominates(tE, b)) {
									if nodeBlk == nil || nodeBlk.Dominates(tE.To()) {
										node, nodeBlk = typeName(ta.AssertedType), tE.To()
									}
								}
							}
						}
					}
				}
			}
			empty := "any"
			for _, b3 := range rdFn.Blocks {
				cond, tE, fE, okb := branchEdges(b3)
				if !okb {
					continue
				}
				bo, ok := cond.(*ssa.BinOp)
				if !ok || bo.Op != token.EQL {
					continue
				}
				t, _, _, okT := termOf(bo.X)
				k, okK := constInt(bo.Y)
				if !okT || !t.isLen || !okK || k != 0 {
					continue
				}
				if tE.To() == b || edgeDominates(tE, b) {
					empty = "yes"
				} else if fE.To() == b || edgeDominates(fE, b) {
					empty = "no"
				}
			}
			rd[node] = append(rd[node], prod{kind, empty})
		}
	}
	if len(wr) < 6 {
		infra("R-PATHTAB: only %d kinds extracted from Path.JsonNode", len(wr))
	}
	for _, kind := range sortedKeys(wr) {
		sh := wr[kind]
		ok := false
		for _, p := range rd[sh.node] {
			if p.kind != kind {
				continue
			}
			if p.empty == "any" || (p.empty == "yes") == sh.empty {
				ok = true
			}
		}
		r.Check(ok, rule, "v2.Path:"+kind, w.Pos(jn.Pos()), fmt.Sprintf("%s is written as a %s (empty=%v) and NewPath reads that shape back as %s", kind, sh.node, sh.empty, kind),
			fmt.Sprintf("%s is written as a %s (empty=%v) but NewPath does not read that shape back as %s (reads %v)", kind, sh.node, sh.empty, kind, rd[sh.node]))
	}
}

// ruleRenderIdentity: renderJson / renderYaml return exactly the bytes the
// codec produced.
func ruleRenderIdentity(w *World, r *Report, pkg *ssa.Package) {
	const rule = "R-CODEC"
	for _, rn := range []struct{ fn, codec string }{{"renderJson", "encoding/json.Marshal"}, {"renderYaml", "gopkg.in/yaml.v2.Marshal"}} {
		fn := w.Func(pkg, rn.fn)
		r.Fn(fnName(fn))
		ok := true
		why := ""
		n := 0
		for _, ret := range returnsOf(fn) {
			n++
			cv, isCv := ret.Results[0].(*ssa.Convert)
			if !isCv {
				ok, why = false, "returns "+valueName(ret.Results[0])
				continue
			}
			ex, isEx := cv.X.(*ssa.Extract)
			if !isEx || ex.Index != 0 {
				ok, why = false, "returns a conversion of "+valueName(cv.X)
				continue
			}
			c, isC := ex.Tuple.(*ssa.Call)
			if !isC || calleeFullName(c) != rn.codec || strip(c.Call.Args[0]) != ssa.Value(fn.Params[0]) {
				ok, why = false, "returns the output of something other than "+rn.codec+" of its argument"
			}
		}
		r.Check(ok && n > 0, rule, fnName(fn)+":returns-codec-output", w.Pos(fn.Pos()), rn.fn+" returns string(bytes) of "+rn.codec+", untransformed",
			rn.fn+" alters the codec's output ("+why+"): what is written is no longer what the codec reads back")
	}
}

// ruleScanErr: a bufio.Scanner stops silently at an over-long token; a reader
// built on one must consult Err(), or input is truncated without an error.
func ruleScanErr(w *World, r *Report, pkg *ssa.Package, tag string) {
	const rule = "R-SCANERR"
	n := 0
	for _, fn := range w.FuncsOf(pkg) {
		if fn.Parent() != nil {
			continue
		}
		scans, errs := 0, 0
		var pos ssa.Instruction
		withClosures(fn, func(f *ssa.Function) {
			allInstrs(f, func(in ssa.Instruction) {
				if c, ok := in.(ssa.CallInstruction); ok {
					switch calleeFullName(c) {
					case "(*bufio.Scanner).Scan":
						scans++
						pos = in
					case "(*bufio.Scanner).Err":
						if v, ok := in.(ssa.Value); ok && usedValue(v) {
							errs++
						}
					}
				}
			})
		})
		if scans == 0 {
			continue
		}
		n++
		r.Check(errs > 0, rule, fnName(fn)+":scanner-error-consulted", w.Pos(pos.Pos()), "the scanner's Err() is consulted after scanning",
			"input is read with a bufio.Scanner whose Err() is never consulted: a line longer than the scanner's buffer ends the scan silently and the rest of the input is dropped without an error")
	}
	if n == 0 {
		r.Ok(rule, tag+":no-scanner", "-", "the library splits its input itself; no bufio.Scanner is used")
	}
}

// ruleRawArg: renderJson / renderYaml are only handed what a raw() method
// built (premise (a) of lemma S6 and of the codec symmetry).
func ruleRawArg(w *World, r *Report, pkg *ssa.Package) {
	const rule = "R-RAWARG"
	n := 0
	for _, fn := range w.FuncsOf(pkg) {
		allInstrs(fn, func(in ssa.Instruction) {
			c, ok := in.(*ssa.Call)
			if !ok {
				return
			}
			sf := staticCallee(c)
			if sf == nil || fnPkg(sf) != pkg.Pkg || (!w.helperIs(sf, "renderJson") && !w.helperIs(sf, "renderYaml")) {
				return
			}
			n++
			arg := strip(c.Call.Args[0])
			okRaw := false
			if ac, isC := arg.(*ssa.Call); isC {
				if ac.Call.IsInvoke() {
					okRaw = methodIs(ac.Call.Method, "raw")
				} else if af := staticCallee(ac); af != nil {
					okRaw = w.fnIs(af, "raw")
				}
			}
			r.Check(okRaw, rule, fmt.Sprintf("%s→%s", fnName(fn), sf.Name()), w.Pos(c.Pos()), "the value rendered is the output of raw()",
				"the renderer is handed "+valueName(arg)+" instead of the node's raw() form: the codec sees jd's internal Go types (a null is a nil []byte, a number a named float) and renders them differently from the other format")
		})
	}
	if n < 10 {
		r.Bad(rule, "v2:instance-floor", "-", fmt.Sprintf("only %d calls of renderJson/renderYaml found", n))
	}
}

// ruleRawInput: the document readers hand the decoder the input bytes
// themselves. Between the exported Read{Json,Yaml}{String,File} entry points
// and the decoder call (encoding/json or yaml.v2 Unmarshal, directly or
// through a decoder passed as a function value) the bytes may only be
// converted (string <-> []byte) or read from the named file; trimming,
// re-slicing or rewriting them changes what the decoder sees (YAML block
// scalars keep or lose trailing line breaks, JSON and YAML readers part ways).
func ruleRawInput(w *World, r *Report, pkg *ssa.Package, tag string) {
	const rule = "R-RAWINPUT"
	entries := []*ssa.Function{}
	for _, n := range []string{"ReadJsonString", "ReadYamlString", "ReadJsonFile", "ReadYamlFile"} {
		if f := pkg.Func(n); f != nil {
			entries = append(entries, f)
		}
	}
	if len(entries) < 4 {
		infra("R-RAWINPUT: document readers not found in %s", pkg.Pkg.Path())
	}
	// scope: entries and the unexported functions they reach by static calls
	scope := []*ssa.Function{}
	seen := map[*ssa.Function]bool{}
	work := append([]*ssa.Function{}, entries...)
	for _, e := range entries {
		seen[e] = true
	}
	for len(work) > 0 {
		f := work[0]
		work = work[1:]
		scope = append(scope, f)
		allInstrs(f, func(in ssa.Instruction) {
			c, ok := in.(ssa.CallInstruction)
			if !ok {
				return
			}
			sf := staticCallee(c)
			if sf == nil || sf.Blocks == nil || fnPkg(sf) != pkg.Pkg || seen[sf] {
				return
			}
			if obj, _ := sf.Object().(*types.Func); obj == nil || obj.Exported() {
				return
			}
			seen[sf] = true
			work = append(work, sf)
		})
	}
	isBytes := func(t types.Type) bool {
		sl, ok := t.Underlying().(*types.Slice)
		return ok && isByteType(sl.Elem())
	}
	// raw(v): v is the function's own input (parameter, possibly converted)
	// or the content of the file it was told to read; returns the parameter
	// index it forwards (-1: file content / none)
	raw := func(fn *ssa.Function, v ssa.Value) (bool, int) {
		for {
			switch x := v.(type) {
			case *ssa.Convert:
				v = x.X
				continue
			case *ssa.ChangeType:
				v = x.X
				continue
			}
			break
		}
		if p, ok := v.(*ssa.Parameter); ok && p.Parent() == fn {
			for i, q := range fn.Params {
				if q == p {
					return true, i
				}
			}
		}
		if ex, ok := v.(*ssa.Extract); ok && ex.Index == 0 {
			if c, ok := ex.Tuple.(*ssa.Call); ok {
				switch calleeFullName(c) {
				case "io/ioutil.ReadFile", "os.ReadFile", "io/ioutil.ReadAll", "io.ReadAll":
					return true, -1
				}
			}
		}
		return false, -1
	}
	// forwarding[fn][i]: parameter i of fn reaches a decoder unchanged
	forwarding := map[*ssa.Function]map[int]bool{}
	nSites := 0
	for round := 0; round < 4; round++ {
		for _, fn := range scope {
			ord := 0
			allInstrs(fn, func(in ssa.Instruction) {
				c, ok := in.(*ssa.Call)
				if !ok || len(c.Call.Args) == 0 {
					return
				}
				var arg ssa.Value
				what := ""
				switch name := calleeFullName(c); {
				case name == "encoding/json.Unmarshal" || name == "gopkg.in/yaml.v2.Unmarshal":
					arg, what = c.Call.Args[0], name
				case name == "dynamic":
					if p, ok := c.Call.Value.(*ssa.Parameter); ok && len(c.Call.Args) == 2 && isBytes(c.Call.Args[0].Type()) {
						arg, what = c.Call.Args[0], "the decoder passed as "+p.Name()
					}
				default:
					sf := staticCallee(c)
					if sf == nil || forwarding[sf] == nil {
						return
					}
					for i := range forwarding[sf] {
						if i < len(c.Call.Args) {
							arg, what = c.Call.Args[i], fnName(sf)
						}
					}
				}
				if arg == nil {
					return
				}
				ord++
				okRaw, pi := raw(fn, arg)
				if okRaw && pi >= 0 {
					if forwarding[fn] == nil {
						forwarding[fn] = map[int]bool{}
					}
					forwarding[fn][pi] = true
				}
				if round == 3 {
					nSites++
					r.Check(okRaw, rule, fmt.Sprintf("%s:input#%d", fnName(fn), ord), w.Pos(c.Pos()),
						"the bytes handed to "+what+" are the reader's own input (converted at most)",
						"the bytes handed to "+what+" are not the reader's input itself ("+valueName(strip(arg))+"): the document is altered before it is decoded")
				}
			})
		}
	}
	for _, fn := range scope {
		r.Fn(fnName(fn))
	}
	if nSites < 3 {
		r.Bad(rule, tag+":instance-floor", "-", fmt.Sprintf("only %d decoder input sites found behind the document readers", nSites))
	}
}

// ruleDiffReaders — R-DIFFREADER. For each of the diff formats named
// (Diff, Patch, Merge): (a) Read<F>File is Read<F>String of the file's content:
// every text or byte argument it hands to a function of the package is the
// content ioutil/os.ReadFile returned, converted at most (no trimming,
// splitting or re-joining of lines on the way — the two leading blanks of a
// context line and a trailing newline inside a value are payload); (b) nothing
// the string reader reaches decodes with the YAML codec: diffs, JSON Patch and
// JSON Merge Patch documents are JSON texts, and YAML is not a superset of JSON
// for escapes such as \/ and surrogate pairs.
func ruleDiffReaders(w *World, r *Report, pkg *ssa.Package, tag string, formats ...string) {
	rule := "R-DIFFREADER"
	if tag != "v2" {
		rule += "(" + tag + ")"
	}
	for _, f := range formats {
		fileFn := pkg.Func("Read" + f + "File")
		strFn := pkg.Func("Read" + f + "String")
		if fileFn == nil || strFn == nil || fileFn.Blocks == nil || strFn.Blocks == nil {
			r.Bad(rule, tag+".Read"+f+"File", "-", "the file or string reader of this format was not found")
			continue
		}
		r.Fn(fnName(fileFn))
		r.Fn(fnName(strFn))
		// (a)
		isContent := func(v ssa.Value) bool {
			for {
				switch x := v.(type) {
				case *ssa.Convert:
					v = x.X
					continue
				case *ssa.ChangeType:
					v = x.X
					continue
				}
				break
			}
			ex, ok := v.(*ssa.Extract)
			if !ok || ex.Index != 0 {
				return false
			}
			c, ok := ex.Tuple.(*ssa.Call)
			if !ok {
				return false
			}
			switch calleeFullName(c) {
			case "io/ioutil.ReadFile", "os.ReadFile", "io/ioutil.ReadAll", "io.ReadAll":
				return true
			}
			return false
		}
		bad := ""
		n := 0
		allInstrs(fileFn, func(in ssa.Instruction) {
			c, ok := in.(*ssa.Call)
			if !ok {
				return
			}
			sf := staticCallee(c)
			if sf == nil || fnPkg(sf) != pkg.Pkg {
				// an external function fed with the content is a transformation unless it is the file read itself
				for _, a := range c.Call.Args {
					if isTextType(a.Type()) && isContent(a) {
						bad = "the file's content is passed through " + calleeFullName(c) + " at " + w.Pos(c.Pos())
					}
				}
				return
			}
			for _, a := range c.Call.Args {
				if !isTextType(a.Type()) {
					continue
				}
				if _, isK := a.(*ssa.Const); isK {
					continue
				}
				if p, isP := a.(*ssa.Parameter); isP && p.Parent() == fileFn {
					continue // the file name
				}
				n++
				if !isContent(a) {
					bad = fnName(sf) + " is handed " + valueName(strip(a)) + " instead of the file's content, at " + w.Pos(c.Pos())
				}
			}
		})
		r.Check(bad == "" && n > 0, rule, fnName(fileFn)+":content-untouched", w.Pos(fileFn.Pos()),
			"the text handed on is the content of the file, converted at most",
			"the file reader does not hand the file's content on unchanged ("+bad+"): a diff read from a file is not the diff that was written")
		// (b)
		seen := map[*ssa.Function]bool{strFn: true}
		work := []*ssa.Function{strFn}
		yaml := ""
		for len(work) > 0 {
			g := work[0]
			work = work[1:]
			withClosures(g, func(h *ssa.Function) {
				allInstrs(h, func(in ssa.Instruction) {
					c, ok := in.(ssa.CallInstruction)
					if !ok {
						return
					}
					name := calleeFullName(c)
					if strings.Contains(name, "yaml") && strings.Contains(name, "Unmarshal") {
						yaml = fnName(h) + " decodes with " + name + " at " + w.Pos(c.Pos())
					}
					// the decoder handed on as a function value
					for _, a := range c.Common().Args {
						if f, isFn := a.(*ssa.Function); isFn {
							if fn := f.String(); strings.Contains(fn, "yaml") && strings.Contains(fn, "Unmarshal") {
								yaml = fnName(h) + " hands the decoder " + fn + " on at " + w.Pos(c.Pos())
							}
						}
					}
					if sf := staticCallee(c); sf != nil && sf.Blocks != nil && fnPkg(sf) == pkg.Pkg && !seen[sf] && sf.Parent() == nil {
						seen[sf] = true
						work = append(work, sf)
					}
				})
			})
		}
		r.Check(yaml == "", rule, fnName(strFn)+":json-only", w.Pos(strFn.Pos()),
			fmt.Sprintf("none of the %d functions the reader reaches decodes with the YAML codec", len(seen)),
			yaml+": this format is a JSON text; yaml.v2 rejects valid JSON escapes (\\/, surrogate pairs), so valid documents are refused")
	}
}

// ruleBlankDoc — R-BLANKDOC (C16: "rendering any document as YAML and reading
// it back gives an equal document"). The readers turn a blank text into the
// void document before any decoder sees it. "Blank" must mean the white space
// of the formats themselves (space, tab, CR, LF): the Unicode-aware trimmers
// of the standard library (strings.TrimSpace, bytes.TrimSpace, strings.Fields,
// unicode.IsSpace) also eat U+00A0, U+2003, U+3000 …, which YAML writes
// unquoted as the whole text of a one-string document — that document would
// read back as void.
func ruleBlankDoc(w *World, r *Report, pkg *ssa.Package, tag string) {
	rule := "R-BLANKDOC"
	if tag != "v2" {
		rule += "(" + tag + ")"
	}
	entries := []*ssa.Function{}
	for _, n := range []string{"ReadJsonString", "ReadYamlString"} {
		if f := w.FuncOpt(pkg, n); f != nil {
			entries = append(entries, f)
		}
	}
	scope := reachableIn(w, pkg, entries)
	n := 0
	unicodeAware := map[string]bool{"strings.TrimSpace": true, "bytes.TrimSpace": true, "strings.Fields": true, "bytes.Fields": true, "unicode.IsSpace": true,
		"strings.TrimLeftFunc": true, "strings.TrimRightFunc": true, "strings.TrimFunc": true}
	var fns []*ssa.Function
	for fn := range scope {
		fns = append(fns, fn)
	}
	sort.Slice(fns, func(i, j int) bool { return fnName(fns[i]) < fnName(fns[j]) })
	for _, fn := range fns {
		if fn.Blocks == nil {
			continue
		}
		d := NewDeriv(w, fn)
		k := 0
		for _, b := range fn.Blocks {
			cond, _, _, ok := branchEdges(b)
			if !ok {
				continue
			}
			// a test on the document text: its derivation reaches a []byte / string parameter
			fromText := false
			bad := ""
			for v := range d.Visited(cond) {
				if p, isP := v.(*ssa.Parameter); isP {
					if bt, okb := p.Type().Underlying().(*types.Basic); okb && bt.Info()&types.IsString != 0 {
						fromText = true
					}
					if sl, oks := p.Type().Underlying().(*types.Slice); oks && isByteType(sl.Elem()) {
						fromText = true
					}
				}
				if c, isC := v.(*ssa.Call); isC {
					name := calleeFullName(c)
					for u := range unicodeAware {
						if strings.HasSuffix(name, u) {
							bad = u
						}
					}
				}
			}
			if !fromText {
				continue
			}
			k++
			n++
			r.Fn(fnName(fn))
			r.Check(bad == "", rule, fmt.Sprintf("%s:text-test#%d", fnName(fn), k), w.Pos(b.Instrs[len(b.Instrs)-1].Pos()),
				"the test made on the document text before decoding does not use a Unicode-aware white-space function",
				"the document text is tested with "+bad+", which treats U+00A0, U+2003, U+3000 … as blank: a document consisting of such a string (which YAML writes unquoted) is read as the void document")
		}
	}
	if n == 0 {
		r.Ok(rule, tag+":no-text-test", "-", "the readers make no test on the document text before decoding")
	}
}

// ruleYamlMergeKey — R-YAMLMERGEKEY (C16: "strings that look like … YAML
// syntax"; keys are strings too). A fact about the pinned codec, frozen here
// like the dynamic-type table of R-YAMLTYPES: gopkg.in/yaml.v2 v2.4.0 writes
// the map key "<<" unquoted and its decoder resolves the plain scalar `<<` in
// key position as the YAML 1.1 merge key. A document with a member named "<<"
// therefore does not survive Yaml() → ReadYamlString unless something between
// the node and yaml.Marshal protects that key. The rule checks the structural
// half: the value handed to yaml.Marshal is the renderer's parameter (the
// plain map raw() built), untouched.
func ruleYamlMergeKey(w *World, r *Report, pkg *ssa.Package, tag string) {
	const rule = "R-YAMLMERGEKEY"
	n := 0
	for _, fn := range w.FuncsOf(pkg) {
		k := 0
		allInstrs(fn, func(in ssa.Instruction) {
			c, ok := in.(*ssa.Call)
			if !ok || !strings.HasSuffix(calleeFullName(c), "yaml.v2.Marshal") || len(c.Call.Args) != 1 {
				return
			}
			k++
			n++
			r.Fn(fnName(fn))
			arg := strip(c.Call.Args[0])
			_, isParam := arg.(*ssa.Parameter)
			if ver := w.moduleVersion("gopkg.in/yaml.v2"); ver != "" && ver != "v2.4.0" {
				r.Ok(rule, fmt.Sprintf("%s:marshal#%d", fnName(fn), k), w.Pos(c.Pos()), "yaml.v2 is not the pinned v2.4.0 ("+ver+"): the frozen fact does not apply, no claim (not decided)")
				return
			}
			if !isParam {
				r.Ok(rule, fmt.Sprintf("%s:marshal#%d", fnName(fn), k), w.Pos(c.Pos()), "the value handed to yaml.Marshal is computed by the renderer (not its plain parameter): whether it protects the key \"<<\" is not decided, no claim")
				return
			}
			r.Bad(rule, fmt.Sprintf("%s:marshal#%d", fnName(fn), k), w.Pos(c.Pos()),
				"the document's plain map goes to yaml.Marshal as it is: yaml.v2 v2.4.0 writes the key \"<<\" unquoted and reads `<<:` as a merge key, so {\"<<\":\"x\"} renders as `<<: x`, which does not read back, and {\"<<\":{\"a\":1},\"b\":2} reads back as {\"a\":1,\"b\":2}")
		})
	}
	if n == 0 {
		r.Ok(rule, tag+":no-yaml-marshal", "-", "yaml.Marshal is not called in the package")
	}
}
