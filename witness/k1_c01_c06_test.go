package jd

import "testing"

// K1 seen from C01 and C06: in list mode the diff of two one-element arrays whose
// elements are a string and the number with the same eight bytes is empty.
func TestK1ListMode(t *testing.T) {
	a, _ := ReadJsonString(`["AAAAAAAA"]`)
	b, _ := ReadJsonString(`[2261634.5098039214]`)
	d := a.Diff(b)
	t.Logf("diff=%q equals=%v", d.Render(), a.Equals(b))
	p, err := a.Patch(d)
	t.Logf("patched=%s err=%v equalsB=%v", p.Json(), err, p.Equals(b))
	if len(d) != 0 || a.Equals(b) || p.Equals(b) {
		t.Fatalf("witness no longer holds")
	}
}
