package main

import (
	"fmt"
	"go/token"
	"go/types"
	"os"
	"sort"
	"strings"

	"golang.org/x/tools/go/ssa"
)

// hunkType: the package's DiffElement struct and its field indices by name.
type hunkType struct {
	named  *types.Named
	fields map[string]int
}

func newHunkType(pkg *ssa.Package) *hunkType {
	t := pkg.Type("DiffElement")
	if t == nil {
		infra("%s: type DiffElement not found", pkg.Pkg.Path())
	}
	n := t.Type().(*types.Named)
	st, ok := n.Underlying().(*types.Struct)
	if !ok {
		infra("DiffElement is not a struct")
	}
	h := &hunkType{named: n, fields: map[string]int{}}
	for i := 0; i < st.NumFields(); i++ {
		h.fields[st.Field(i).Name()] = i
	}
	return h
}

// fieldStores: every store into field `name` of a DiffElement in fn (and its
// closures), whatever the base (local struct, element of a slice, pointer).
type fieldStore struct {
	st   *ssa.Store
	in   *ssa.Function
	addr *ssa.FieldAddr
}

func (h *hunkType) fieldStores(fn *ssa.Function, name string) []fieldStore {
	idx, ok := h.fields[name]
	if !ok {
		return nil
	}
	var out []fieldStore
	withClosures(fn, func(f *ssa.Function) {
		allInstrs(f, func(in ssa.Instruction) {
			st, ok := in.(*ssa.Store)
			if !ok {
				return
			}
			fa, ok := st.Addr.(*ssa.FieldAddr)
			if !ok || fa.Field != idx {
				return
			}
			bt := fa.X.Type()
			if p, ok := bt.Underlying().(*types.Pointer); ok {
				bt = p.Elem()
			}
			if !types.Identical(bt, h.named) {
				return
			}
			out = append(out, fieldStore{st, f, fa})
		})
	})
	return out
}

// ---------------------------------------------------------------- R-PATHFRESH

type freshness struct {
	w    *World
	memo map[*ssa.Function]int // 0 unknown 1 fresh 2 not
}

// freshPath: v is a path slice whose backing array is not shared with a
// caller-visible slice that the recursion keeps appending to.
func (f *freshness) freshPath(v ssa.Value, seen map[ssa.Value]bool) (bool, string) {
	v = strip(v)
	if seen[v] {
		return true, ""
	}
	seen[v] = true
	switch x := v.(type) {
	case *ssa.Const:
		return true, ""
	case *ssa.MakeSlice:
		return true, ""
	case *ssa.Slice:
		if _, isAlloc := x.X.(*ssa.Alloc); isAlloc {
			return true, "" // composite literal
		}
		return f.freshPath(x.X, seen)
	case *ssa.Phi:
		for _, e := range x.Edges {
			if ok, why := f.freshPath(e, seen); !ok {
				return false, why
			}
		}
		return true, ""
	case *ssa.UnOp:
		if x.Op == token.MUL {
			if a, ok := x.X.(*ssa.Alloc); ok {
				if s, ok := singleStore(a); ok {
					return f.freshPath(s, seen)
				}
			}
		}
		return false, "loaded from " + valueName(x.X)
	case *ssa.Extract:
		if c, ok := x.Tuple.(*ssa.Call); ok {
			return f.freshCall(c, x.Index, seen)
		}
	case *ssa.Call:
		return f.freshCall(x, 0, seen)
	case *ssa.Parameter:
		return false, "the function's own " + valueName(x) + " (shared with the caller's recursion)"
	}
	return false, valueName(v)
}

func (f *freshness) freshCall(c *ssa.Call, idx int, seen map[ssa.Value]bool) (bool, string) {
	if b, ok := c.Call.Value.(*ssa.Builtin); ok {
		if b.Name() == "append" {
			ok, why := f.freshPath(c.Call.Args[0], seen)
			if !ok {
				return false, "append onto " + why
			}
			return true, ""
		}
		return false, "builtin " + b.Name()
	}
	sf := staticCallee(c)
	if sf == nil || sf.Blocks == nil {
		return false, "result of " + calleeFullName(c)
	}
	// alias-preserving helpers: result is (a re-slice of) the receiver
	if f.w.fnIs(sf, "drop") && len(c.Call.Args) == 1 {
		return f.freshPath(c.Call.Args[0], seen)
	}
	switch f.memo[sf] {
	case 1:
		return true, ""
	case 2:
		return false, "result of " + fnName(sf) + ", which may return a shared slice"
	}
	f.memo[sf] = 1 // optimistic for recursion
	for _, ret := range returnsOf(sf) {
		if idx >= len(ret.Results) {
			continue
		}
		if ok, _ := f.freshPath(ret.Results[idx], map[ssa.Value]bool{}); !ok {
			f.memo[sf] = 2
			return false, "result of " + fnName(sf) + ", which may return a shared slice"
		}
	}
	return true, ""
}

// rulePathFresh: a hunk owns its path.
func rulePathFresh(w *World, r *Report, pkg *ssa.Package, tag string) {
	rule := "R-PATHFRESH"
	if tag == "lib" {
		rule += "(lib)"
	}
	h := newHunkType(pkg)
	fr := &freshness{w: w, memo: map[*ssa.Function]int{}}
	n := 0
	for _, fn := range w.FuncsOf(pkg) {
		if fn.Parent() != nil {
			continue
		}
		stores := h.fieldStores(fn, "Path")
		if len(stores) == 0 {
			continue
		}
		r.Fn(fnName(fn))
		for i, fs := range stores {
			n++
			key := fmt.Sprintf("%s:Path-store#%d", fnName(fn), i+1)
			ok, why := fr.freshPath(fs.st.Val, map[ssa.Value]bool{})
			r.Check(ok, rule, key, w.Pos(fs.st.Pos()), "the stored path is a clone / freshly built slice",
				"the hunk's Path is "+why+": sibling recursion steps append into the same backing array, so this hunk's last path element can be overwritten after it was emitted")
		}
	}
	if n == 0 {
		r.Bad(rule, tag+":no-path-stores", "-", "no store into DiffElement.Path found")
	}
}

// ---------------------------------------------------------------- R-PROV

// diffFunctions: functions that build hunks from two documents.
func diffFunctions(w *World, pkg *ssa.Package) []*ssa.Function {
	// structural: the implementations of the Diff-returning method(s) of the
	// internal node interface, and every unexported function of the package
	// they reach by static calls that itself returns a Diff; names are only
	// the fallback when the interface is not found
	diffT := pkg.Type("Diff")
	seen := map[*ssa.Function]bool{}
	var out, work []*ssa.Function
	returnsDiff := func(fn *ssa.Function) bool {
		if diffT == nil {
			return false
		}
		res := fn.Signature.Results()
		for i := 0; i < res.Len(); i++ {
			if types.Identical(res.At(i).Type(), diffT.Type()) {
				return true
			}
		}
		return false
	}
	if it := pkg.Type("jsonNodeInternals"); it != nil && diffT != nil {
		if iface, ok := it.Type().Underlying().(*types.Interface); ok {
			for i := 0; i < iface.NumMethods(); i++ {
				m := iface.Method(i)
				sig := m.Type().(*types.Signature)
				isDiff := false
				for j := 0; j < sig.Results().Len(); j++ {
					if types.Identical(sig.Results().At(j).Type(), diffT.Type()) {
						isDiff = true
					}
				}
				if !isDiff {
					continue
				}
				for _, n := range w.Implementers(pkg, "jsonNodeInternals") {
					if fn := w.MethodOpt(pkg, n.Obj().Name(), m.Name()); fn != nil && fn.Blocks != nil && !seen[fn] {
						seen[fn] = true
						work = append(work, fn)
					}
				}
			}
		}
	}
	for len(work) > 0 {
		fn := work[0]
		work = work[1:]
		out = append(out, fn)
		withClosures(fn, func(f *ssa.Function) {
			allInstrs(f, func(in ssa.Instruction) {
				c, ok := in.(ssa.CallInstruction)
				if !ok {
					return
				}
				sf := staticCallee(c)
				if sf == nil || sf.Blocks == nil || sf.Parent() != nil || sf.Synthetic != "" || fnPkg(sf) != pkg.Pkg || seen[sf] || !returnsDiff(sf) {
					return
				}
				if obj, _ := sf.Object().(*types.Func); obj == nil || obj.Exported() {
					return
				}
				seen[sf] = true
				work = append(work, sf)
			})
		})
	}
	for _, fn := range w.FuncsOf(pkg) {
		if fn.Parent() != nil || fn.Synthetic != "" || seen[fn] {
			continue
		}
		n := fn.Name()
		if n == "diff" || strings.HasPrefix(n, "diff") {
			seen[fn] = true
			out = append(out, fn)
		}
	}
	sort.Slice(out, func(i, j int) bool { return fnName(out[i]) < fnName(out[j]) })
	return out
}

func isNodeish(w *World, pkg *ssa.Package, t types.Type) bool {
	jn := pkg.Type("JsonNode")
	if jn == nil {
		return false
	}
	if types.Identical(t, jn.Type()) {
		return true
	}
	if iface, ok := jn.Type().Underlying().(*types.Interface); ok {
		if n, ok := t.(*types.Named); ok && !types.IsInterface(n) && types.Implements(n, iface) {
			return true
		}
	}
	return false
}

// appendedElems: for `x = append(base, elems...)` chains return the appended
// element sources; for any other value the value itself.
func appendedElems(v ssa.Value) []ssa.Value {
	v = strip(v)
	if c, ok := v.(*ssa.Call); ok {
		if b, ok := c.Call.Value.(*ssa.Builtin); ok && b.Name() == "append" && len(c.Call.Args) == 2 {
			out := []ssa.Value{c.Call.Args[1]}
			// base: further appends, or the field itself / empty list
			base := strip(c.Call.Args[0])
			if bc, ok := base.(*ssa.Call); ok {
				if bb, ok := bc.Call.Value.(*ssa.Builtin); ok && bb.Name() == "append" {
					out = append(out, appendedElems(base)...)
				}
			}
			return out
		}
	}
	return []ssa.Value{v}
}

// ruleProv: what a hunk removes comes from the receiver side, what it adds
// from the argument side; list context: Before from the argument side, After
// from the receiver side.
func ruleProv(w *World, r *Report, pkg *ssa.Package, tag string, fields map[string]string) {
	rule := "R-PROV"
	if tag == "lib" {
		rule += "(lib)"
	}
	h := newHunkType(pkg)
	n := 0
	for _, fn := range diffFunctions(w, pkg) {
		if len(fn.Params) < 2 {
			continue
		}
		aSide := []ssa.Value{fn.Params[0]}
		var bSide []ssa.Value
		for _, p := range fn.Params[1:] {
			if isNodeish(w, pkg, p.Type()) {
				bSide = append(bSide, p)
			}
		}
		if !isNodeish(w, pkg, fn.Params[0].Type()) || len(bSide) == 0 {
			continue
		}
		d := NewDeriv(w, fn)
		r.Fn(fnName(fn))
		for _, field := range sortedKeys(fields) {
			side := fields[field] // "a" or "b": where the values must NOT come from is the other side
			forbidden := bSide
			if side == "b" {
				forbidden = aSide
			}
			for i, fs := range h.fieldStores(fn, field) {
				n++
				key := fmt.Sprintf("%s:%s-store#%d", fnName(fn), field, i+1)
				bad := ""
				for _, el := range appendedElems(fs.st.Val) {
					roots := d.Roots(el)
					for _, f := range forbidden {
						if roots[f] {
							bad = valueName(f)
							if os.Getenv("JDLINT_DEBUG_PROV") != "" {
								fmt.Println("PROV", fnName(fn), field, w.Pos(fs.st.Pos()), "el=", el.Name(), debugRoots(w, d, el))
							}
						}
					}
				}
				want := "the receiver side (document a)"
				if side == "b" {
					want = "the argument side (document b)"
				}
				r.Check(bad == "", rule, key, w.Pos(fs.st.Pos()), field+" values are drawn from "+want+" only",
					fmt.Sprintf("%s of a hunk is fed from %s, but must come from %s: the hunk would name values that are not at that location", field, bad, want))
			}
		}
	}
	if n < len(fields)+1 {
		r.Bad(rule, tag+":instance-floor", "-", fmt.Sprintf("only %d hunk field stores found in diff functions", n))
	}
}

// ---------------------------------------------------------------- R-NOEMPTY

// ruleNoEmpty: an accumulated hunk is appended to the result only if it is
// non-empty; the scalar diff is empty exactly on the Equals-true edge.
func ruleNoEmpty(w *World, r *Report, pkg *ssa.Package, tag string, fRemove, fAdd string) {
	rule := "R-NOEMPTY"
	if tag == "lib" {
		rule += "(lib)"
	}
	h := newHunkType(pkg)
	n := 0
	for _, fn := range diffFunctions(w, pkg) {
		lps := loopsOf(fn)
		// local hunks whose Remove/Add grow inside a loop
		grown := map[*ssa.Alloc]bool{}
		for _, f := range []string{fRemove, fAdd} {
			for _, fs := range h.fieldStores(fn, f) {
				if fs.in != fn {
					continue
				}
				a, ok := fs.addr.X.(*ssa.Alloc)
				if !ok {
					continue
				}
				if innermostLoop(lps, fs.st.Block()) == nil {
					continue
				}
				// accumulation: field = append(field, ...)
				if c, ok := strip(fs.st.Val).(*ssa.Call); ok {
					if bb, ok := c.Call.Value.(*ssa.Builtin); ok && bb.Name() == "append" {
						if ld, ok := strip(c.Call.Args[0]).(*ssa.UnOp); ok && ld.Op == token.MUL {
							if bfa, ok := ld.X.(*ssa.FieldAddr); ok && bfa.X == ssa.Value(a) && bfa.Field == fs.addr.Field {
								grown[a] = true
							}
						}
					}
				}
			}
		}
		for a := range grown {
			// every append of *a to the result
			for _, ref := range *a.Referrers() {
				ld, ok := ref.(*ssa.UnOp)
				if !ok || ld.Op != token.MUL {
					continue
				}
				for _, use := range *ld.Referrers() {
					stv, ok := use.(*ssa.Store)
					if !ok {
						continue
					}
					// stored into a varargs array that is appended
					n++
					key := fmt.Sprintf("%s:emit-accumulated-hunk#%d", fnName(fn), n)
					cut := EdgeSet{}
					for _, b := range fn.Blocks {
						cond, tE, fE, okb := branchEdges(b)
						if !okb {
							continue
						}
						bo, okb := cond.(*ssa.BinOp)
						if !okb {
							continue
						}
						t, off, _, okT := termOf(bo.X)
						k, okK := constInt(bo.Y)
						if !okT || !okK || !t.isLen || off != 0 {
							continue
						}
						root, sel := accessPath(t.v)
						_ = root
						s := selString(sel)
						if !(strings.HasSuffix(s, "."+fRemove) || strings.HasSuffix(s, "."+fAdd)) {
							continue
						}
						switch {
						case bo.Op == token.GTR && k == 0, bo.Op == token.NEQ && k == 0, bo.Op == token.GEQ && k == 1:
							cut[tE] = true
						case bo.Op == token.EQL && k == 0, bo.Op == token.LEQ && k == 0, bo.Op == token.LSS && k == 1:
							cut[fE] = true
						}
					}
					r.Fn(fnName(fn))
					r.Check(len(cut) > 0 && cutsOff(fn, cut, stv.Block()), rule, key, w.Pos(stv.Pos()),
						"the accumulated hunk is emitted only behind a test that it removes or adds something",
						"an accumulated hunk can be appended to the diff while both its remove and add lists are empty: a no-op hunk, and a non-empty diff for equal documents")
				}
			}
		}
	}
	// scalar diff: empty exactly when Equals
	if fn := w.FuncOpt(pkg, "diff"); fn != nil && len(fn.Params) >= 2 {
		r.Fn(fnName(fn))
		ok, why := false, "no branch on Equals(a, b) found"
		for _, b := range fn.Blocks {
			cond, tE, fE, okb := branchEdges(b)
			if !okb {
				continue
			}
			c, isCall := cond.(*ssa.Call)
			if !isCall || !c.Call.IsInvoke() || c.Call.Method.Name() != "Equals" {
				continue
			}
			emptyOnTrue, nonEmptyOnFalse := false, false
			for blk := range reachFrom(tE.To(), nil) {
				if ret, isRet := blk.Instrs[len(blk.Instrs)-1].(*ssa.Return); isRet {
					if isEmptySlice(ret.Results[0]) {
						emptyOnTrue = true
					} else {
						emptyOnTrue = false
						why = "the Equals-true edge returns something other than the empty diff"
					}
				}
			}
			for blk := range reachFrom(fE.To(), nil) {
				if ret, isRet := blk.Instrs[len(blk.Instrs)-1].(*ssa.Return); isRet {
					if cc, isC := strip(ret.Results[0]).(*ssa.Call); isC {
						if bb, isB := cc.Call.Value.(*ssa.Builtin); isB && bb.Name() == "append" {
							nonEmptyOnFalse = true
						}
					}
					// a literal Diff{hunk}
					if sl, isSl := strip(ret.Results[0]).(*ssa.Slice); isSl {
						if al, isAl := sl.X.(*ssa.Alloc); isAl {
							if arr, isArr := al.Type().(*types.Pointer).Elem().Underlying().(*types.Array); isArr && arr.Len() >= 1 && sl.Low == nil && sl.High == nil {
								nonEmptyOnFalse = true
							}
						}
					}
				}
			}
			if emptyOnTrue && nonEmptyOnFalse {
				ok, why = true, ""
			} else if why == "no branch on Equals(a, b) found" {
				why = "the Equals-false edge does not return a one-hunk diff"
			}
		}
		r.Check(ok, rule, fnName(fn)+":empty-iff-equal", w.Pos(fn.Pos()), "the scalar diff returns the empty diff exactly on the Equals-true edge and a hunk on the false edge", why)
		n++
	}
	if n < 3 {
		r.Bad(rule, tag+":instance-floor", "-", fmt.Sprintf("only %d instances found", n))
	}
}

// ---------------------------------------------------------------- R-SETMEMBER

// ruleSetMember: in the set diff, a member is listed as removed (added) only
// on the miss edge of its lookup in the other side's member map.
func ruleSetMember(w *World, r *Report, pkg *ssa.Package, tag string, fRemove, fAdd string) {
	rule := "R-SETMEMBER"
	if tag == "lib" {
		rule += "(lib)"
	}
	fn := w.MethodOpt(pkg, "jsonSet", "diff")
	if fn == nil {
		infra("%s: (jsonSet).diff not found", tag)
	}
	r.Fn(fnName(fn))
	h := newHunkType(pkg)
	d := NewDeriv(w, fn)
	lps := loopsOf(fn)
	recv := fn.Params[0]
	other := fn.Params[1]
	n := 0
	for _, f := range []string{fRemove, fAdd} {
		for _, fs := range h.fieldStores(fn, f) {
			if innermostLoop(lps, fs.st.Block()) == nil {
				continue // initialisation
			}
			n++
			key := fmt.Sprintf("%s:%s-member", fnName(fn), f)
			// the store must be dominated by the miss edge (ok == false) of a
			// map lookup whose map holds the OTHER side's members
			wantOther := other
			if f == fAdd {
				wantOther = recv
			}
			missGuarded := func(at *ssa.BasicBlock) bool {
				for _, b := range fn.Blocks {
					cond, tE, fE, okb := branchEdges(b)
					if !okb {
						continue
					}
					neg := false
					for {
						u, isU := cond.(*ssa.UnOp)
						if !isU || u.Op != token.NOT {
							break
						}
						cond, neg = u.X, !neg
					}
					ex, isEx := cond.(*ssa.Extract)
					if !isEx || ex.Index != 1 {
						continue
					}
					lk, isLk := ex.Tuple.(*ssa.Lookup)
					if !isLk || !lk.CommaOk {
						continue
					}
					if !d.HasRoot(lk.X, wantOther) {
						continue
					}
					miss := fE
					if neg {
						miss = tE
					}
					if edgeDominates(miss, at) || (miss.To() == at && len(at.Preds) == 1) {
						return true
					}
				}
				return false
			}
			okc := missGuarded(fs.st.Block())
			if !okc {
				// the members listed come from a pre-filtered list: every append
				// that builds the list the loop walks lies on the miss edge
				builders, guarded := 0, 0
				for _, el := range appendedElems(fs.st.Val) {
					vis := map[ssa.Value]bool{}
					for x := range d.Visited(el) {
						vis[x] = true
						// which member is listed is decided by the key it is looked up with
						if lk, isLk := x.(*ssa.Lookup); isLk {
							for y := range d.Visited(lk.Index) {
								vis[y] = true
							}
						}
					}
					for x := range vis {
						c, isCall := x.(*ssa.Call)
						if !isCall || innermostLoop(lps, c.Block()) == nil || c.Block() == fs.st.Block() {
							continue
						}
						if b, isB := c.Call.Value.(*ssa.Builtin); !isB || b.Name() != "append" {
							continue
						}
						if types.Identical(c.Type(), fs.st.Val.Type()) {
							continue
						}
						builders++
						if missGuarded(c.Block()) {
							guarded++
						} else if os.Getenv("JDLINT_DEBUG") != "" {
							fmt.Fprintf(os.Stderr, "R-SETMEMBER debug: unguarded builder %s at %s\n", c.String(), w.Pos(c.Pos()))
						}
					}
				}
				okc = builders > 0 && builders == guarded
			}
			r.Check(okc, rule, key, w.Pos(fs.st.Pos()), "a member is listed only on the miss edge of its lookup among the other side's members",
				"a member can be listed as "+strings.ToLower(f)+"d although it is present on both sides (not confined to the lookup-miss edge)")
		}
	}
	if n < 2 {
		r.Bad(rule, tag+":instance-floor", "-", fmt.Sprintf("only %d member appends found in the set diff", n))
	}
}

// ---------------------------------------------------------------- R-KINDS

type kindTables struct {
	emit   map[string]map[string]bool // container type -> path kinds emitted
	next   map[string][]string        // path kind -> option types returned by next()
	disp   map[string]string          // option type -> node type; "" key = default
	accept map[string]map[string]bool // container type -> kinds accepted by patch
}

func extractKinds(w *World, pkg *ssa.Package) *kindTables {
	kt := &kindTables{emit: map[string]map[string]bool{}, next: map[string][]string{}, disp: map[string]string{}, accept: map[string]map[string]bool{}}
	pe := pkg.Type("PathElement")
	opt := pkg.Type("Option")
	if pe == nil || opt == nil {
		infra("PathElement / Option types not found")
	}
	// emit
	for _, t := range []string{"jsonList", "jsonSet", "jsonMultiset", "jsonObject"} {
		kt.emit[t] = map[string]bool{}
		var fns []*ssa.Function
		if fn := w.MethodOpt(pkg, t, "diff"); fn != nil {
			fns = append(fns, fn)
		}
		if t == "jsonList" {
			if fn := w.MethodOpt(pkg, t, "diffRest"); fn != nil {
				fns = append(fns, fn)
			}
		}
		for _, fn := range fns {
			withClosures(fn, func(f *ssa.Function) {
				allInstrs(f, func(in ssa.Instruction) {
					if mi, ok := in.(*ssa.MakeInterface); ok && types.Identical(mi.Type(), pe.Type()) {
						kt.emit[t][typeName(mi.X.Type())] = true
					}
				})
			})
		}
	}
	// next
	if fn := w.MethodOpt(pkg, "Path", "next"); fn != nil {
		for _, b := range fn.Blocks {
			for _, in := range b.Instrs {
				ta, ok := in.(*ssa.TypeAssert)
				if !ok || !ta.CommaOk {
					continue
				}
				kind := typeName(ta.AssertedType)
				for _, ref := range *ta.Referrers() {
					ex, ok := ref.(*ssa.Extract)
					if !ok || ex.Index != 1 {
						continue
					}
					for _, bb := range fn.Blocks {
						cond, tE, _, okb := branchEdges(bb)
						if !okb || cond != ssa.Value(ex) {
							continue
						}
						for _, in2 := range tE.To().Instrs {
							ret, ok := in2.(*ssa.Return)
							if !ok || len(ret.Results) < 2 {
								continue
							}
							kt.next[kind] = optionLiteral(ret.Results[1])
						}
					}
				}
			}
		}
	}
	// dispatch
	if fn := w.FuncOpt(pkg, "dispatch"); fn != nil {
		for _, b := range fn.Blocks {
			for _, in := range b.Instrs {
				ret, ok := in.(*ssa.Return)
				if !ok {
					continue
				}
				node := ""
				if mi, ok := ret.Results[0].(*ssa.MakeInterface); ok {
					node = typeName(mi.X.Type())
				}
				if node == "" || node == "JsonNode" {
					continue
				}
				// which option assertion's true edge leads here
				found := false
				for _, bb := range fn.Blocks {
					for _, in2 := range bb.Instrs {
						ta, ok := in2.(*ssa.TypeAssert)
						if !ok || !ta.CommaOk || !types.Identical(ta.X.Type(), opt.Type()) {
							continue
						}
						for _, ref := range *ta.Referrers() {
							ex, ok := ref.(*ssa.Extract)
							if !ok || ex.Index != 1 {
								continue
							}
							for _, b3 := range fn.Blocks {
								cond, tE, _, okb := branchEdges(b3)
								if okb && cond == ssa.Value(ex) && (tE.To() == b || edgeDominates(tE, b)) {
									kt.disp[typeName(ta.AssertedType)] = node
									found = true
								}
							}
						}
					}
				}
				if !found {
					if ct, ok := ret.Results[0].(*ssa.MakeInterface); ok {
						if _, isCT := ct.X.(*ssa.ChangeType); isCT {
							kt.disp[""] = node
						}
					}
				}
			}
		}
	}
	// accept
	for _, t := range []string{"jsonList", "jsonSet", "jsonMultiset", "jsonObject"} {
		kt.accept[t] = map[string]bool{}
		fn := w.MethodOpt(pkg, t, "patch")
		if fn == nil {
			continue
		}
		allInstrs(fn, func(in ssa.Instruction) {
			ta, ok := in.(*ssa.TypeAssert)
			if ok && types.Identical(ta.X.Type(), pe.Type()) {
				kt.accept[t][typeName(ta.AssertedType)] = true
			}
		})
	}
	return kt
}

// optionLiteral: element types of a []Option literal (nil / empty -> none).
func optionLiteral(v ssa.Value) []string {
	v = strip(v)
	sl, ok := v.(*ssa.Slice)
	if !ok {
		return nil
	}
	a, ok := sl.X.(*ssa.Alloc)
	if !ok {
		return nil
	}
	var out []string
	for _, ref := range *a.Referrers() {
		ia, ok := ref.(*ssa.IndexAddr)
		if !ok {
			continue
		}
		for _, r2 := range *ia.Referrers() {
			if st, ok := r2.(*ssa.Store); ok {
				if mi, ok := st.Val.(*ssa.MakeInterface); ok {
					out = append(out, typeName(mi.X.Type()))
				}
			}
		}
	}
	sort.Strings(out)
	return out
}

// ruleKinds: emitted path element kinds are routed back to the same container
// semantics and accepted by its patch.
func ruleKinds(w *World, r *Report, pkg *ssa.Package) {
	const rule = "R-KINDS"
	kt := extractKinds(w, pkg)
	routing := true
	if len(kt.next) < 4 || kt.disp[""] == "" {
		// next()/dispatch are not organised as a type switch returning literals the rule can read
		routing = false
		r.Ok(rule, "v2:routing", "-", fmt.Sprintf("the next()/dispatch tables could not be read off this tree (next=%v disp=%v): the routing clause makes no claim (not decided); the accepted-kinds clauses still apply", kt.next, kt.disp))
	}
	for _, t := range []string{"jsonList", "jsonSet", "jsonMultiset", "jsonObject"} {
		kinds := sortedKeys(kt.emit[t])
		if len(kinds) == 0 {
			r.Bad(rule, "v2.("+t+").diff:emits", "-", "the container's diff emits no path element kind at all")
			continue
		}
		for _, k := range kinds {
			key := fmt.Sprintf("v2.(%s):%s", t, k)
			var problems []string
			if !kt.accept[t][k] {
				problems = append(problems, fmt.Sprintf("(%s).patch does not accept a %s path element", t, k))
			}
			if t != "jsonObject" && routing {
				routed := kt.disp[""]
				for _, o := range kt.next[k] {
					if n, ok := kt.disp[o]; ok {
						routed = n
						break
					}
				}
				if _, known := kt.next[k]; !known && k != "PathIndex" && k != "PathKey" {
					problems = append(problems, "Path.next has no arm for "+k)
				}
				if routed != t {
					problems = append(problems, fmt.Sprintf("a %s element makes next()+dispatch treat the array as %s, but it was emitted by the %s diff", k, routed, t))
				}
			}
			r.Check(len(problems) == 0, rule, key, "-", fmt.Sprintf("%s emitted by the %s diff is routed by next()+dispatch back to %s and accepted by its patch", k, t, t), strings.Join(problems, "; "))
		}
		// and nothing else: a patch that also accepts a kind its own diff never
		// emits applies hunks addressed to another kind of container (a list
		// hunk with its index and context applied to an object member)
		var extra []string
		for k := range kt.accept[t] {
			if !kt.emit[t][k] {
				extra = append(extra, k)
			}
		}
		sort.Strings(extra)
		r.Check(len(extra) == 0, rule, fmt.Sprintf("v2.(%s).patch:accepts-own-kinds-only", t), "-",
			fmt.Sprintf("(%s).patch accepts exactly the path element kinds the %s diff emits %v", t, t, kinds),
			fmt.Sprintf("(%s).patch also accepts %v, which the %s diff never emits: a hunk addressed to another kind of container is applied here instead of being rejected", t, extra, t))
	}
}

// ---------------------------------------------------------------- R-IDENTUSE

// ruleIdentUse: identity hashing (ident, pathIdent) is coarser than equality;
// it must not be reachable from any Equals or hashCode method (in-package
// static and interface calls), and it must still be used by the set diff and
// the set patch.
func ruleIdentUse(w *World, r *Report, pkg *ssa.Package, tag string) {
	const rule = "R-IDENTUSE"
	nt := newNodeTypes(w, pkg, tag)
	isIdent := func(fn *ssa.Function) bool {
		return fnPkg(fn) == pkg.Pkg && fn.Signature.Recv() != nil && (w.fnIs(fn, "ident") || w.fnIs(fn, "pathIdent"))
	}
	// reachability over resolved in-package callees
	reachIdent := func(start *ssa.Function) (bool, string) {
		seen := map[*ssa.Function]bool{start: true}
		work := []*ssa.Function{start}
		for len(work) > 0 {
			f := work[len(work)-1]
			work = work[:len(work)-1]
			found := ""
			withClosures(f, func(g *ssa.Function) {
				allInstrs(g, func(in ssa.Instruction) {
					c, ok := in.(ssa.CallInstruction)
					if !ok {
						return
					}
					for _, callee := range w.implementations(c) {
						if fnPkg(callee) != pkg.Pkg || callee.Blocks == nil {
							continue
						}
						if isIdent(callee) {
							found = fmt.Sprintf("%s calls %s at %s", fnName(f), callee.Name(), w.Pos(c.Pos()))
						}
						if !seen[callee] {
							seen[callee] = true
							work = append(work, callee)
						}
					}
				})
			})
			if found != "" {
				return true, found
			}
		}
		return false, ""
	}
	for _, t := range nt.names {
		for _, m := range []string{"Equals", "hashCode"} {
			fn := nt.method(t, m)
			r.Fn(fnName(fn))
			bad, via := reachIdent(fn)
			r.Check(!bad, rule, fnName(fn)+":no-identity-hashing", w.Pos(fn.Pos()), "equality and hashing never go through identity (keys-only) hashing",
				"identity hashing (keys only) is reachable from "+m+": "+via+" — objects that differ outside their keys compare equal")
		}
	}
	for _, tm := range [][2]string{{"jsonSet", "diff"}, {"jsonSet", "patch"}} {
		fn := nt.method(tm[0], tm[1])
		ok, _ := reachIdent(fn)
		r.Check(ok, rule, fnName(fn)+":uses-identity-hashing", w.Pos(fn.Pos()), "the set "+tm[1]+" matches object members by identity", "the set "+tm[1]+" no longer matches object members by their identity (SetKeys has no effect)")
	}
}

// ---------------------------------------------------------------- R-HASHMOVE

// ruleHashMove: element digests reach a container's digest input by data
// movement only (append, copy, sort, map keys) — never through arithmetic that
// can cancel (xor, add); and an ordered list's digest input is not sorted.
func ruleHashMove(w *World, r *Report, nt *nodeTypes) {
	const rule = "R-HASHMOVE"
	ruleHashNoArith(w, r, nt)
	ruleHashFoldAll(w, r, nt)
	for _, t := range nt.names {
		fn := nt.method(t, "hashCode")
		cls := nt.classifyHash(fn, 0)
		if cls.kind != "digest" || cls.input == nil {
			continue
		}
		recv := fn.Params[0]
		if _, isSlice := recv.Type().Underlying().(*types.Slice); !isSlice {
			if _, isMap := recv.Type().Underlying().(*types.Map); !isMap {
				continue
			}
		}
		if b, ok := recv.Type().Underlying().(*types.Slice); ok {
			if bb, ok := b.Elem().Underlying().(*types.Basic); ok && bb.Kind() == types.Byte {
				continue
			}
		}
		d := NewDeriv(w, fn)
		vis := d.Visited(cls.input)
		bad := ""
		sorted := false
		for v := range vis {
			switch x := v.(type) {
			case *ssa.BinOp:
				switch x.Op {
				case token.XOR, token.ADD, token.SUB, token.MUL, token.AND, token.OR, token.SHL, token.SHR, token.AND_NOT:
					if bt, ok := x.Type().Underlying().(*types.Basic); ok && bt.Info()&types.IsInteger != 0 {
						bad = fmt.Sprintf("digest input passes through integer arithmetic (%s) at %s", x.Op, w.Pos(x.Pos()))
					}
				}
			}
		}
		allInstrs(fn, func(in ssa.Instruction) {
			if c, ok := in.(ssa.CallInstruction); ok {
				if a := w.sorterArg(c, 0); a != nil && vis[a] {
					sorted = true
				}
			}
		})
		key := fnName(fn)
		pos := w.Pos(fn.Pos())
		r.Check(bad == "", rule, key, pos, "element digests reach the digest input by data movement only", bad+": element digests can cancel, so containers with different members hash alike")
		if t == "jsonList" {
			r.Check(!sorted, rule, key+":order-sensitive", pos, "the ordered list's digest input is not sorted",
				"the ordered list's element digests are sorted before hashing: permuted lists hash alike, and list diff matches them as common elements")
		}
		if t == "jsonObject" {
			// sorting the key strings is fine; sorting digests separates a key's digest from its value's
			digestSorted := false
			allInstrs(fn, func(in ssa.Instruction) {
				c, ok := in.(ssa.CallInstruction)
				if !ok {
					return
				}
				if a := w.sorterArg(c, 0); a != nil && vis[a] {
					if sl, ok := a.Type().Underlying().(*types.Slice); ok {
						if _, isArr := sl.Elem().Underlying().(*types.Array); isArr {
							digestSorted = true
						}
					}
				}
			})
			r.Check(!digestSorted, rule, key+":keys-bound-to-values", pos, "key and value digests keep their pairing (only key strings are sorted)",
				"the object's key and value digests are sorted as one pool: the digest no longer says which value belongs to which key, so objects with permuted values hash alike")
		}
		// framing: everything concatenated into the digest input is a fixed-width digest or the constant tag
		frameBad := ""
		for v := range vis {
			c, ok := v.(*ssa.Call)
			if !ok {
				continue
			}
			b, ok := c.Call.Value.(*ssa.Builtin)
			if !ok || b.Name() != "append" || len(c.Call.Args) != 2 {
				continue
			}
			if sl, ok := c.Type().Underlying().(*types.Slice); !ok || !isByteType(sl.Elem()) {
				continue
			}
			arg := strip(c.Call.Args[1])
			fixed := false
			if s2, ok := arg.(*ssa.Slice); ok {
				if p, ok := s2.X.Type().Underlying().(*types.Pointer); ok {
					if _, isArr := p.Elem().Underlying().(*types.Array); isArr && s2.Low == nil && s2.High == nil {
						fixed = true
					}
				}
			}
			if !fixed {
				frameBad = w.Pos(c.Pos())
			}
		}
		r.Check(frameBad == "", rule, key+":fixed-width-fields", pos, "the digest input is a concatenation of fixed-width digests behind the tag",
			"a variable-length field is concatenated into the digest input (at "+frameBad+"): field boundaries become ambiguous, so different containers can produce the same byte string")
	}
}

func debugRoots(w *World, d *Deriv, v ssa.Value) string {
	var out []string
	for r := range d.Roots(v) {
		out = append(out, valueName(r)+"@"+w.Pos(r.Pos()))
	}
	sort.Strings(out)
	return strings.Join(out, " | ")
}

// isEmptySlice: make(T, 0) / T{} / nil.
func isEmptySlice(v ssa.Value) bool {
	v = strip(v)
	switch x := v.(type) {
	case *ssa.Const:
		return x.IsNil()
	case *ssa.MakeSlice:
		k, ok := constInt(x.Len)
		return ok && k == 0
	case *ssa.Slice:
		if a, ok := x.X.(*ssa.Alloc); ok {
			if arr, ok := a.Type().(*types.Pointer).Elem().Underlying().(*types.Array); ok {
				if arr.Len() == 0 {
					return true
				}
				if x.High != nil {
					k, ok := constInt(x.High)
					return ok && k == 0
				}
			}
		}
	}
	return false
}

// ---------------------------------------------------------------- C06: R-LCSDEP, R-CTX1

// oneElemSlice: v is a slice literal with exactly one element (possibly the
// result of a local closure all of whose returns are such literals).
func oneElemSlice(v ssa.Value, depth int) bool {
	v = strip(v)
	switch x := v.(type) {
	case *ssa.Slice:
		if a, ok := x.X.(*ssa.Alloc); ok && x.Low == nil && x.High == nil {
			if arr, ok := a.Type().(*types.Pointer).Elem().Underlying().(*types.Array); ok {
				return arr.Len() == 1
			}
		}
	case *ssa.Call:
		if sf := staticCallee(x); sf != nil && sf.Parent() != nil && depth < 2 {
			rets := returnsOf(sf)
			if len(rets) == 0 {
				return false
			}
			for _, ret := range rets {
				if len(ret.Results) != 1 || !oneElemSlice(ret.Results[0], depth+1) {
					return false
				}
			}
			return true
		}
	case *ssa.Phi:
		for _, e := range x.Edges {
			if !oneElemSlice(e, depth+1) {
				return false
			}
		}
		return true
	}
	return false
}

func paramByName(fn *ssa.Function, name string) *ssa.Parameter {
	for _, p := range fn.Params {
		if p.Name() == name {
			return p
		}
	}
	return nil
}

// ruleListDiff: structural necessary conditions of a minimal list diff with
// one line of context on each side.
func ruleListDiff(w *World, r *Report, pkg *ssa.Package) {
	fnDiff := w.Method(pkg, "jsonList", "diff")
	// the walk set: the functions of the package the list diff reaches by
	// static calls (the hunk walk and whatever it has been split into); the
	// walkers are those that take the two hash sequences and the common
	// subsequence (three consecutive []interface{} parameters)
	walkSet := []*ssa.Function{}
	{
		seen := map[*ssa.Function]bool{fnDiff: true}
		work := []*ssa.Function{fnDiff}
		for len(work) > 0 {
			f := work[0]
			work = work[1:]
			walkSet = append(walkSet, f)
			withClosures(f, func(g *ssa.Function) {
				allInstrs(g, func(in ssa.Instruction) {
					c, ok := in.(ssa.CallInstruction)
					if !ok {
						return
					}
					sf := staticCallee(c)
					if sf == nil || sf.Blocks == nil || sf.Parent() != nil || fnPkg(sf) != pkg.Pkg || seen[sf] {
						return
					}
					seen[sf] = true
					work = append(work, sf)
				})
			})
		}
	}
	var walkers []*ssa.Function
	for _, f := range walkSet {
		if f != fnDiff && len(seqParams(f)) == 3 {
			walkers = append(walkers, f)
		}
	}
	if len(walkers) == 0 {
		infra("R-LCSDEP: the list diff reaches no function taking the two hash sequences and the common subsequence")
	}
	isWalker := func(f *ssa.Function) bool {
		for _, g := range walkers {
			if g == f {
				return true
			}
		}
		return false
	}
	fnRest := walkers[0]
	r.Fn(fnName(fnDiff))
	for _, f := range walkers {
		r.Fn(fnName(f))
	}
	h := newHunkType(pkg)
	// slot labels of a walker's parameters (names are labels only)
	slotLabels := func(f *ssa.Function) map[int]string {
		labels := map[int]string{}
		seqIdx := seqParams(f)
		if len(seqIdx) == 3 {
			labels[seqIdx[0]], labels[seqIdx[1]], labels[seqIdx[2]] = "aHashes", "bHashes", "commonSequence"
		}
		for i, p := range f.Params {
			if i == 0 || labels[i] != "" {
				continue
			}
			switch {
			case typeName(p.Type()) == "jsonList":
				labels[i] = "b"
			case typeName(p.Type()) == "patchStrategy":
				labels[i] = "strategy"
			case strings.HasPrefix(p.Type().String(), "[]") && strings.HasSuffix(p.Type().String(), ".Option"):
				labels[i] = "options"
			}
		}
		return labels
	}
	// R-LCSDEP
	{
		const rule = "R-LCSDEP"
		d := NewDeriv(w, fnDiff)
		recv, other := fnDiff.Params[0], fnDiff.Params[1]
		var call *ssa.Call
		allInstrs(fnDiff, func(in ssa.Instruction) {
			if c, ok := in.(*ssa.Call); ok && staticCallee(c) != nil && isWalker(staticCallee(c)) {
				call = c
				fnRest = staticCallee(c)
			}
		})
		if call == nil {
			r.Bad(rule, fnName(fnDiff)+"→diffRest", w.Pos(fnDiff.Pos()), "the list diff no longer hands its work to diffRest")
		} else {
			// the three consecutive []interface{} parameters of diffRest are, in
			// order, the receiver's hashes, the argument's hashes and the common
			// subsequence (names are labels only)
			seqIdx := seqParams(fnRest)
			slot := func(name string) ssa.Value {
				k := map[string]int{"aHashes": 0, "bHashes": 1, "commonSequence": 2}[name]
				if len(seqIdx) == 3 && seqIdx[k] < len(call.Call.Args) {
					return call.Call.Args[seqIdx[k]]
				}
				return nil
			}
			pos := w.Pos(call.Pos())
			cs, ah, bh := slot("commonSequence"), slot("aHashes"), slot("bHashes")
			if cs == nil || ah == nil || bh == nil {
				r.Unk(rule, fnName(fnDiff)+":slots", pos, "diffRest has no parameters named commonSequence / aHashes / bHashes")
			} else {
				rc := d.Roots(cs)
				r.Check(rc[recv] && rc[other], rule, fnName(fnDiff)+":common-sequence-depends-on-both-sides", pos,
					"the common subsequence handed to the hunk walk is computed from the hash sequences of both arrays",
					"the common subsequence handed to the hunk walk does not depend on both arrays: it cannot be a longest common subsequence, so the diff is not minimal (or replaces the whole array)")
				ra, rb := d.Roots(ah), d.Roots(bh)
				r.Check(ra[recv] && !ra[other] && rb[other] && !rb[recv], rule, fnName(fnDiff)+":hash-sequences-per-side", pos,
					"aHashes is built from the receiver's elements only, bHashes from the argument's elements only",
					"the per-side hash sequences are mixed up or built from the wrong array")
				// the common subsequence is, on every path, the result of the LCS
				// library over the very sequences the walk compares against
				// (directly, or through helpers all of whose returns are that)
				var isLCS func(v, sa, sb ssa.Value, depth int) (bool, string)
				isLCS = func(v, sa, sb ssa.Value, depth int) (bool, string) {
					v = strip(v)
					if depth > 3 {
						return false, "helper nesting too deep"
					}
					switch x := v.(type) {
					case *ssa.Phi:
						for _, e := range x.Edges {
							if ok, why := isLCS(e, sa, sb, depth); !ok {
								return false, why
							}
						}
						return true, ""
					case *ssa.Call:
						// method chain on the LCS object: follow the receiver
						if x.Call.IsInvoke() {
							if mp := x.Call.Method.Pkg(); mp == nil || !strings.Contains(mp.Path(), "golcs") {
								return false, "result of " + x.Call.Method.FullName()
							}
							return isLCS(x.Call.Value, sa, sb, depth)
						}
						sf := staticCallee(x)
						if sf == nil {
							return false, "result of a dynamic call"
						}
						if pk := fnPkg(sf); pk != nil && strings.Contains(pk.Path(), "golcs") {
							if sf.Signature.Recv() != nil && len(x.Call.Args) > 0 {
								return isLCS(x.Call.Args[0], sa, sb, depth)
							}
							hasA, hasB := false, false
							for _, arg := range x.Call.Args {
								if strip(arg) == strip(sa) {
									hasA = true
								}
								if strip(arg) == strip(sb) {
									hasB = true
								}
							}
							if hasA && hasB {
								return true, ""
							}
							return false, "the LCS is computed over other sequences than the ones the walk compares against"
						}
						if fnPkg(sf) != pkg.Pkg || sf.Blocks == nil {
							return false, "result of " + fnName(sf)
						}
						ia, ib := -1, -1
						for i, arg := range x.Call.Args {
							if strip(arg) == strip(sa) {
								ia = i
							}
							if strip(arg) == strip(sb) {
								ib = i
							}
						}
						if ia < 0 || ib < 0 || ia >= len(sf.Params) || ib >= len(sf.Params) {
							return false, fnName(sf) + " does not receive both hash sequences"
						}
						for _, ret := range returnsOf(sf) {
							if ok, why := isLCS(ret.Results[0], sf.Params[ia], sf.Params[ib], depth+1); !ok {
								return false, "a return of " + fnName(sf) + " is not the LCS: " + why
							}
						}
						return true, ""
					}
					return false, valueName(v)
				}
				sameSeq, whyLCS := isLCS(cs, ah, bh, 0)
				r.Check(sameSeq, rule, fnName(fnDiff)+":lcs-over-the-walked-sequences", pos,
					"the call that computes the common subsequence receives exactly the two hash sequences the hunk walk uses",
					"the common subsequence is not, on every path, the longest common subsequence of the sequences the hunk walk compares against ("+whyLCS+"): common elements are missed and the edit script is not minimal")
				// both hash sequences are made of element hashCodes
				okH := true
				for _, hv := range []ssa.Value{ah, bh} {
					has := false
					for v := range d.Visited(hv) {
						if c, ok := v.(*ssa.Call); ok && isHashCodeCall(c) {
							has = true
						}
						// ... also when a helper of the package builds the sequence (benign B-r1)
						if c, ok := v.(*ssa.Call); ok {
							if g := staticCallee(c); g != nil && g.Blocks != nil && fnPkg(g) == pkg.Pkg && g != fnDiff {
								dg := NewDeriv(w, g)
								for _, ret := range returnsOf(g) {
									for _, res := range ret.Results {
										for v2 := range dg.Visited(res) {
											if c2, ok := v2.(*ssa.Call); ok && isHashCodeCall(c2) {
												has = true
											}
										}
									}
								}
							}
						}
					}
					okH = okH && has
				}
				r.Check(okH, rule, fnName(fnDiff)+":hash-sequences-are-element-hashes", pos, "both sequences consist of the elements' hashCodes", "a hash sequence is not built from the elements' hashCodes")
			}
		}
		// continuation: behind a hunk the walk goes on with the rest of the
		// caller's own sequences — by a call from one walker to a walker
		// (recursion, or a driver loop feeding a step function), or by
		// re-binding the walker's own variables inside a loop
		n := 0
		for _, f := range walkers {
			dr := NewDeriv(w, f)
			fl := slotLabels(f)
			byLabel := map[string]*ssa.Parameter{}
			for i, l := range fl {
				byLabel[l] = f.Params[i]
			}
			withClosures(f, func(cf *ssa.Function) {
				allInstrs(cf, func(in ssa.Instruction) {
					c, ok := in.(*ssa.Call)
					if !ok || staticCallee(c) == nil || !isWalker(staticCallee(c)) {
						return
					}
					g := staticCallee(c)
					n++
					gl := slotLabels(g)
					var idx []int
					for i := range gl {
						idx = append(idx, i)
					}
					sort.Ints(idx)
					for _, i := range idx {
						p := byLabel[gl[i]]
						if p == nil || i >= len(c.Call.Args) {
							continue
						}
						roots := dr.Roots(c.Call.Args[i])
						r.Check(roots[p], rule, fmt.Sprintf("%s→%s[%s]", fnName(f), g.Name(), gl[i]), w.Pos(c.Pos()),
							"the continuation of the walk receives the rest of the caller's own "+gl[i],
							"the continuation of the walk does not receive the caller's own "+gl[i])
					}
				})
			})
		}
		if n == 0 {
			// iterative form: every sequence slot is re-bound, inside a loop, to
			// something derived from itself
			for _, f := range walkers {
				dr := NewDeriv(w, f)
				fl := slotLabels(f)
				var idx []int
				for i := range fl {
					idx = append(idx, i)
				}
				sort.Ints(idx)
				rebound := 0
				for _, i := range idx {
					label := fl[i]
					if label == "strategy" || label == "options" {
						continue
					}
					p := f.Params[i]
					var next []ssa.Value
					var at token.Pos
					withClosures(f, func(cf *ssa.Function) {
						allInstrs(cf, func(in ssa.Instruction) {
							switch y := in.(type) {
							case *ssa.Phi:
								has := false
								for _, e := range y.Edges {
									if strip(e) == ssa.Value(p) {
										has = true
									}
								}
								if has {
									for _, e := range y.Edges {
										if strip(e) != ssa.Value(p) && e != ssa.Value(y) {
											next = append(next, e)
											at = y.Pos()
										}
									}
								}
							case *ssa.Store:
								if strip(y.Val) != ssa.Value(p) {
									return
								}
								cell, ok := y.Addr.(*ssa.Alloc)
								if !ok {
									return
								}
								for _, ref := range *cell.Referrers() {
									if st, ok := ref.(*ssa.Store); ok && st != y && st.Addr == ssa.Value(cell) {
										next = append(next, st.Val)
										at = st.Pos()
									}
								}
							}
						})
					})
					if len(next) == 0 {
						continue
					}
					rebound++
					ok := true
					for _, v := range next {
						if !dr.Roots(v)[p] {
							ok = false
						}
					}
					r.Check(ok, rule, fmt.Sprintf("%s→%s[%s]", fnName(f), f.Name(), label), w.Pos(at),
						"the next round of the walk goes on with the rest of its own "+label,
						"the next round of the walk does not go on with its own "+label)
				}
				if rebound >= 4 {
					n++
				}
			}
		}
		if n == 0 {
			r.Bad(rule, fnName(fnRest)+":continuation", w.Pos(fnRest.Pos()), "the hunk walk no longer continues behind a hunk (neither by a call between the walk functions nor by re-binding its sequences in a loop)")
		}
		// same-kind containers at the same position are diffed recursively, under sameContainerType
		okRec := false
		for _, wf := range walkSet {
			withClosures(wf, func(f *ssa.Function) {
				if wf == fnDiff {
					return
				}
				allInstrs(f, func(in ssa.Instruction) {
					c, ok := in.(*ssa.Call)
					if !ok || !c.Call.IsInvoke() || !methodIs(c.Call.Method, "diff") {
						return
					}
					for _, b := range f.Blocks {
						cond, tE, _, okb := branchEdges(b)
						if !okb {
							continue
						}
						cc, isC := cond.(*ssa.Call)
						if !isC {
							continue
						}
						if sf := staticCallee(cc); sf != nil && w.helperIs(sf, "sameContainerType") && edgeDominatesOrSame(tE, c.Block()) {
							okRec = true
						}
					}
				})
			})
		}
		// the nested diff is kept: from the recursive call every path to the
		// next round of the walk or to a return passes a use that moves the
		// sub-diff into the result (append, assignment, return) — measuring it
		// and then discarding it replaces the container wholesale
		for _, wf := range walkSet {
			if wf == fnDiff {
				continue
			}
			withClosures(wf, func(f *ssa.Function) {
				k := 0
				allInstrs(f, func(in ssa.Instruction) {
					c, ok := in.(*ssa.Call)
					if !ok || !c.Call.IsInvoke() || !methodIs(c.Call.Method, "diff") {
						return
					}
					k++
					consumeBlk := map[*ssa.BasicBlock]bool{}
					consumeEdge := EdgeSet{}
					sameBlock := false
					var mark func(v ssa.Value, depth int)
					mark = func(v ssa.Value, depth int) {
						if v.Referrers() == nil || depth > 2 {
							return
						}
						for _, ref := range *v.Referrers() {
							switch u := ref.(type) {
							case *ssa.Call:
								if b, isB := u.Call.Value.(*ssa.Builtin); isB && b.Name() == "append" {
									consumeBlk[u.Block()] = true
								}
							case *ssa.Store:
								if u.Val == v {
									consumeBlk[u.Block()] = true
								}
							case *ssa.Return:
								consumeBlk[u.Block()] = true
							case *ssa.Phi:
								for i, e := range u.Edges {
									if e == v {
										pred := u.Block().Preds[i]
										for j, sc := range pred.Succs {
											if sc == u.Block() {
												consumeEdge[Edge{pred, j}] = true
											}
										}
									}
								}
							case *ssa.ChangeType:
								mark(u, depth+1)
							case *ssa.Slice:
								mark(u, depth+1)
							}
						}
					}
					mark(c, 0)
					if consumeBlk[c.Block()] {
						sameBlock = true
					}
					lost := ""
					if !sameBlock {
						seen := map[*ssa.BasicBlock]bool{}
						var work []*ssa.BasicBlock
						push := func(from *ssa.BasicBlock) {
							for j, sc := range from.Succs {
								if consumeEdge[Edge{from, j}] || consumeBlk[sc] || seen[sc] {
									continue
								}
								seen[sc] = true
								work = append(work, sc)
							}
						}
						push(c.Block())
						for len(work) > 0 && lost == "" {
							b := work[len(work)-1]
							work = work[:len(work)-1]
							if b == c.Block() {
								lost = "the next round of the walk"
								break
							}
							if _, isRet := b.Instrs[len(b.Instrs)-1].(*ssa.Return); isRet {
								lost = "a return at " + w.Pos(b.Instrs[len(b.Instrs)-1].Pos())
								break
							}
							push(b)
						}
					}
					r.Check(lost == "", rule, fmt.Sprintf("%s:sub-diff-kept#%d", fnName(f), k), w.Pos(c.Pos()),
						"the diff of same-position containers is moved into the result on every path",
						"the diff of same-position containers can be computed and then dropped (a path from the recursive call reaches "+lost+" without using it): the container is replaced wholesale instead of being diffed recursively")
				})
			})
		}
		r.Check(okRec, rule, fnName(fnRest)+":same-kind-recursion", w.Pos(fnRest.Pos()), "containers of the same kind at the same position are diffed recursively (on the sameContainerType-true edge)",
			"same-position containers are no longer diffed recursively: they are replaced wholesale")
		// ... and replaced pairwise only when they are not: a block that moves the element under the first
		// cursor into Remove and the element under the second cursor into Add (one position replaced by
		// another) lies behind the false outcome of the same-kind test — if it can also be reached past that
		// test (a second condition in front of it), same-kind containers are replaced wholesale on those paths
		for _, wf := range walkSet {
			if wf == fnDiff {
				continue
			}
			k := 0
			for _, b := range wf.Blocks {
				stores := map[string]bool{}
				for _, in := range b.Instrs {
					st, ok := in.(*ssa.Store)
					if !ok {
						continue
					}
					fa, ok := st.Addr.(*ssa.FieldAddr)
					if !ok {
						continue
					}
					name := fieldName(fa.X.Type(), fa.Field)
					if name != "Remove" && name != "Add" {
						continue
					}
					if c, isApp := isBuiltinCall(strip(st.Val), "append"); isApp && len(c.Call.Args) == 2 {
						stores[name] = true
					}
				}
				if !stores["Remove"] || !stores["Add"] {
					continue
				}
				k++
				behind := false
				calls := 0
				for _, tb := range wf.Blocks {
					cond, _, fE, okb := branchEdges(tb)
					if !okb {
						continue
					}
					cc, isC := cond.(*ssa.Call)
					if !isC {
						continue
					}
					if sf := staticCallee(cc); sf != nil && w.helperIs(sf, "sameContainerType") {
						calls++
						if edgeDominates(fE, b) {
							behind = true
						}
					}
				}
				key := fmt.Sprintf("%s:pairwise-replacement#%d", fnName(wf), k)
				if calls == 0 {
					r.Ok(rule, key, w.Pos(b.Instrs[0].Pos()), "no branch on the same-kind test in this function: this clause makes no claim (not decided)")
					continue
				}
				r.Check(behind, rule, key, w.Pos(b.Instrs[0].Pos()),
					"one position is replaced by another only behind the false outcome of the same-kind test",
					"the block that replaces the element under one cursor by the element under the other can be reached without the same-kind test having answered false: on those paths containers of the same kind at the same position are replaced wholesale instead of being diffed recursively")
			}
		}
		// ... and a position is moved into a hunk on its own only where there is nothing to pair it with:
		// every append of list[cursor] to Remove (Add) is justified either by a dominating branch whose
		// condition reads the *other* side's cursor and not this one (other side exhausted, or standing on
		// a common element), or by the false outcome of the same-kind test *for the cursors as they stand*
		// (no cursor is stored on any path from that outcome to the append). A drain loop behind one
		// same-kind test (seeded change C06-r) replaces same-kind containers further down the tail.
		for _, wf := range walkSet {
			if wf == fnDiff {
				continue
			}
			oneSidedMoves(w, r, wf)
		}
	}
	// same-kind test looks at kinds only
	{
		const rule = "R-LCSDEP"
		if sct := w.FuncOpt(pkg, "sameContainerType"); sct != nil {
			r.Fn(fnName(sct))
			// the fact: nothing in the test (or in the helpers it calls, other
			// than dispatch) reads the contents of a node — no indexing, ranging,
			// length, or method call on a node; only type assertions / switches
			bad := ""
			disp := w.FuncOpt(pkg, "dispatch")
			seenF := map[*ssa.Function]bool{sct: true}
			workF := []*ssa.Function{sct}
			for len(workF) > 0 {
				f := workF[0]
				workF = workF[1:]
				withClosures(f, func(cf *ssa.Function) {
					allInstrs(cf, func(in ssa.Instruction) {
						flag := func() {
							if bad == "" {
								bad = w.Pos(in.Pos())
							}
						}
						switch y := in.(type) {
						case *ssa.Range:
							flag()
						case *ssa.Lookup:
							flag()
						case *ssa.Index:
							flag()
						case *ssa.IndexAddr:
							if _, isAlloc := y.X.(*ssa.Alloc); !isAlloc {
								if _, isGlobal := y.X.(*ssa.Global); !isGlobal {
									flag()
								}
							}
						case ssa.CallInstruction:
							com := y.Common()
							if com.IsInvoke() {
								flag()
								return
							}
							if bi, ok := com.Value.(*ssa.Builtin); ok {
								if bi.Name() == "len" || bi.Name() == "cap" {
									flag()
								}
								return
							}
							sf := staticCallee(y)
							if sf == nil {
								flag()
								return
							}
							if sf == disp || fnPkg(sf) != pkg.Pkg {
								return
							}
							if sf.Signature.Recv() != nil || sf.Blocks == nil {
								flag() // a method of a node type reads the node
								return
							}
							if !seenF[sf] && len(seenF) < 8 {
								seenF[sf] = true
								workF = append(workF, sf)
							}
						}
					})
				})
			}
			r.Check(bad == "", rule, fnName(sct)+":kinds-only", w.Pos(sct.Pos()), "whether two nodes are containers of the same kind is decided by type assertions only",
				"the same-kind test inspects the containers' contents (at "+bad+"): some same-kind containers at the same position are replaced wholesale instead of being diffed recursively")
		} else {
			r.Bad(rule, "v2.sameContainerType", "-", "sameContainerType not found")
		}
	}
	// R-CTX1
	{
		const rule = "R-CTX1"
		n := 0
		for _, f := range []string{"Before", "After"} {
			var stores []fieldStore
			for _, wf := range walkSet {
				if wf != fnDiff {
					stores = append(stores, h.fieldStores(wf, f)...)
				}
			}
			for i, fs := range stores {
				n++
				key := fmt.Sprintf("%s:%s-store#%d", fnName(fs.in), f, i+1)
				r.Check(oneElemSlice(fs.st.Val, 0), rule, key, w.Pos(fs.st.Pos()), "exactly one line of "+strings.ToLower(f)+" context is recorded",
					"the "+strings.ToLower(f)+" context stored in a list hunk is not a one-element list")
			}
		}
		if n < 3 {
			r.Bad(rule, fnName(fnRest)+":instance-floor", w.Pos(fnRest.Pos()), fmt.Sprintf("only %d context stores found in the list diff", n))
		}
	}
}

// ruleWholeObject: the object diff replaces the whole value only when the
// other side is not an object; two objects are always diffed key by key.
func ruleWholeObject(w *World, r *Report, pkg *ssa.Package, tag, fAdd string) {
	rule := "R-WHOLEOBJ"
	if tag == "lib" {
		rule += "(lib)"
	}
	fn := w.MethodOpt(pkg, "jsonObject", "diff")
	if fn == nil {
		infra("%s: (jsonObject).diff not found", tag)
	}
	r.Fn(fnName(fn))
	h := newHunkType(pkg)
	other := fn.Params[1]
	// the assertion n.(jsonObject) and its miss edge
	var missEdges []Edge
	var asserted ssa.Value
	for _, b := range fn.Blocks {
		for _, in := range b.Instrs {
			ta, ok := in.(*ssa.TypeAssert)
			if !ok || !ta.CommaOk || ta.X != ssa.Value(other) || typeName(ta.AssertedType) != "jsonObject" {
				continue
			}
			for _, ref := range *ta.Referrers() {
				ex, ok := ref.(*ssa.Extract)
				if !ok {
					continue
				}
				if ex.Index == 0 {
					asserted = ex
				}
				if ex.Index == 1 {
					for _, bb := range fn.Blocks {
						if cond, _, fE, okb := branchEdges(bb); okb && cond == ssa.Value(ex) {
							missEdges = append(missEdges, fE)
						}
					}
				}
			}
		}
	}
	if len(missEdges) == 0 {
		r.Unk(rule, fnName(fn)+":type-test", w.Pos(fn.Pos()), "no checked assertion of the argument to jsonObject found")
		return
	}
	n, bad := 0, ""
	for _, fs := range h.fieldStores(fn, fAdd) {
		for _, el := range appendedElems(fs.st.Val) {
			whole := false
			var check func(v ssa.Value, depth int)
			check = func(v ssa.Value, depth int) {
				v = strip(v)
				if v == ssa.Value(other) || (asserted != nil && v == asserted) {
					whole = true
					return
				}
				if depth > 3 {
					return
				}
				switch x := v.(type) {
				case *ssa.Slice:
					if a, ok := x.X.(*ssa.Alloc); ok {
						for _, ref := range *a.Referrers() {
							if ia, ok := ref.(*ssa.IndexAddr); ok {
								for _, r2 := range *ia.Referrers() {
									if st, ok := r2.(*ssa.Store); ok {
										check(st.Val, depth+1)
									}
								}
							}
						}
					}
				case *ssa.Call:
					if sf := staticCallee(x); sf != nil && w.helperIs(sf, "nodeList") && len(x.Call.Args) == 1 {
						check(x.Call.Args[0], depth+1)
					}
				}
			}
			check(el, 0)
			if !whole {
				continue
			}
			n++
			okEdge := false
			for _, e := range missEdges {
				if edgeDominatesOrSame(e, fs.st.Block()) {
					okEdge = true
				}
			}
			if !okEdge {
				bad = w.Pos(fs.st.Pos())
			}
		}
	}
	r.Check(bad == "" && n > 0, rule, fnName(fn)+":whole-value-only-for-non-objects", w.Pos(fn.Pos()),
		fmt.Sprintf("the %d hunks that put the whole argument into %s lie on the edge where the argument is not an object", n, fAdd),
		"a hunk at "+bad+" replaces the receiver by the whole argument although both are objects: objects must be diffed key by key (a merge patch that writes {} over an object changes nothing under RFC 7386)")
}

// ruleIdentProv: the identity of a set member is a projection of the member:
// every value pathIdent puts into the identity it hashes is loaded from the
// candidate object itself (no synthesised stand-ins for missing keys).
func ruleIdentProv(w *World, r *Report, pkg *ssa.Package, tag string) {
	const rule = "R-IDENTPROV"
	// the functions that compute a member's identity for the set patch: the
	// jsonObject methods returning a digest that (jsonSet).patch calls
	setPatch := w.MethodOpt(pkg, "jsonSet", "patch")
	if setPatch == nil {
		infra("%s: (jsonSet).patch not found", tag)
	}
	var fns []*ssa.Function
	seenF := map[*ssa.Function]bool{}
	allInstrs(setPatch, func(in ssa.Instruction) {
		c, ok := in.(*ssa.Call)
		if !ok {
			return
		}
		g := staticCallee(c)
		if g == nil || g.Blocks == nil || fnPkg(g) != pkg.Pkg || g.Signature.Recv() == nil || seenF[g] {
			return
		}
		if typeName(g.Signature.Recv().Type()) != "jsonObject" || g.Signature.Results().Len() != 1 {
			return
		}
		if a, ok := g.Signature.Results().At(0).Type().Underlying().(*types.Array); !ok || a.Len() != 8 {
			return
		}
		seenF[g] = true
		fns = append(fns, g)
	})
	if len(fns) == 0 {
		r.Bad(rule, tag+".(jsonSet).patch:member-identity", w.Pos(setPatch.Pos()), "the set patch computes no identity digest of member objects: keyed hunks cannot find their member")
		return
	}
	for _, fn := range fns {
		r.Fn(fnName(fn))
		d := NewDeriv(w, fn)
		recv := fn.Params[0]
		n := 0
		bad := ""
		stale := ""
		allInstrs(fn, func(in ssa.Instruction) {
			mu, ok := in.(*ssa.MapUpdate)
			if !ok {
				return
			}
			// only maps whose values are nodes / interface{} (the identity), not bookkeeping maps
			if mt, ok := mu.Map.Type().Underlying().(*types.Map); ok {
				if _, isIface := mt.Elem().Underlying().(*types.Interface); !isIface {
					return
				}
			}
			n++
			if !d.HasRoot(mu.Value, recv) {
				bad = w.Pos(mu.Pos())
			}
			// ... and of this member only: the map the identity is collected in starts empty for every
			// candidate — made here, or handed in by the search loop from an allocation inside that loop.
			// A map made once before the loop keeps the entries of earlier candidates for the keys this
			// candidate lacks (seeded change C08-c).
			switch m := strip(mu.Map).(type) {
			case *ssa.MakeMap:
			case *ssa.Call:
				if !freshMapValue(m, 0) {
					stale = "the identity map written at " + w.Pos(mu.Pos()) + " comes from a call that does not make a new map on every return"
				}
			case *ssa.Parameter:
				idx := -1
				for i, p := range fn.Params {
					if p == m {
						idx = i
					}
				}
				allInstrs(setPatch, func(in2 ssa.Instruction) {
					c2, ok := in2.(*ssa.Call)
					if !ok || staticCallee(c2) != fn || idx < 0 {
						return
					}
					args := c2.Call.Args
					if idx >= len(args) {
						return
					}
					av := strip(args[idx])
					isMk := freshMapValue(av, 0)
					l := innermostLoop(loopsOf(setPatch), c2.Block())
					mkIn, _ := av.(ssa.Instruction)
					if !isMk || (l != nil && (mkIn == nil || !l.Blocks[mkIn.Block()])) {
						stale = "the identity map written at " + w.Pos(mu.Pos()) + " is handed in by the search at " + w.Pos(c2.Pos()) + " and is not made afresh for each candidate"
					}
				})
			default:
				stale = "the identity map written at " + w.Pos(mu.Pos()) + " is neither made in the identity function nor a parameter of it"
			}
		})
		r.Check(stale == "", rule, fnName(fn)+":identity-of-this-member-only", w.Pos(fn.Pos()),
			"the map a member's identity is collected in starts empty for every candidate",
			stale+": entries of an earlier candidate stand in for keys this candidate lacks, a keyed hunk can match a member that does not carry the key, and the nested change lands in the wrong object")
		r.Check(bad == "", rule, fnName(fn)+":identity-is-a-projection", w.Pos(fn.Pos()),
			fmt.Sprintf("every value entering the member's identity is loaded from the member itself (%d identity entries built here)", n),
			"a value that does not come from the candidate object enters its identity (at "+bad+"): a keyed hunk can match a member that does not carry the key, and the nested change lands in the wrong object")
	}
}

func isByteType(t types.Type) bool {
	b, ok := t.Underlying().(*types.Basic)
	return ok && (b.Kind() == types.Byte || b.Kind() == types.Uint8)
}

// ruleObjRecurse: for a key present on both sides the object diff always
// reaches the recursive diff of the two values (or skips it only on the true
// edge of their Equals under the caller's options).
func ruleObjRecurse(w *World, r *Report, pkg *ssa.Package, tag string) {
	rule := "R-OBJRECURSE"
	if tag == "lib" {
		rule += "(lib)"
	}
	fn := w.MethodOpt(pkg, "jsonObject", "diff")
	if fn == nil {
		infra("%s: (jsonObject).diff not found", tag)
	}
	r.Fn(fnName(fn))
	lps := loopsOf(fn)
	var call *ssa.Call
	allInstrs(fn, func(in ssa.Instruction) {
		if c, ok := in.(*ssa.Call); ok && c.Call.IsInvoke() && methodIs(c.Call.Method, "diff") {
			call = c
		}
	})
	if call == nil {
		r.Bad(rule, fnName(fn)+":recursion", w.Pos(fn.Pos()), "the object diff no longer recurses into values present on both sides")
		return
	}
	l := innermostLoop(lps, call.Block())
	if l == nil {
		r.Unk(rule, fnName(fn)+":recursion", w.Pos(call.Pos()), "the recursive diff is not inside the loop over keys")
		return
	}
	// the both-present edge: ok == true of the lookup in the other object
	var present *Edge
	for b := range l.Blocks {
		cond, tE, _, okb := branchEdges(b)
		if !okb {
			continue
		}
		if ex, ok := cond.(*ssa.Extract); ok && ex.Index == 1 {
			if lk, ok := ex.Tuple.(*ssa.Lookup); ok && lk.CommaOk && (tE.To() == call.Block() || edgeDominates(tE, call.Block())) {
				e := tE
				present = &e
			}
		}
	}
	if present == nil {
		r.Unk(rule, fnName(fn)+":recursion", w.Pos(call.Pos()), "cannot find the `key present on both sides` edge")
		return
	}
	// accepted skips: true edge of Equals between the two values
	accept := EdgeSet{}
	for b := range l.Blocks {
		cond, tE, _, okb := branchEdges(b)
		if !okb {
			continue
		}
		if c, ok := cond.(*ssa.Call); ok && c.Call.IsInvoke() && c.Call.Method.Name() == "Equals" {
			accept[tE] = true
		}
	}
	// from the present edge, can the header be reached without the call block?
	seen := map[*ssa.BasicBlock]bool{}
	work := []*ssa.BasicBlock{present.To()}
	skipped := false
	for len(work) > 0 {
		b := work[len(work)-1]
		work = work[:len(work)-1]
		if seen[b] || b == call.Block() {
			continue
		}
		seen[b] = true
		for j, nx := range b.Succs {
			if accept[Edge{b, j}] {
				continue
			}
			if nx == l.Header {
				skipped = true
			}
			if l.Blocks[nx] {
				work = append(work, nx)
			}
		}
	}
	if present.To() == call.Block() {
		skipped = false
	}
	r.Check(!skipped, rule, fnName(fn)+":both-present-keys-are-diffed", w.Pos(call.Pos()), "every key present on both sides reaches the recursive diff of its values",
		"a key present on both sides can be passed over without diffing its values (and without an Equals check): unequal values under that key produce no hunk")
	// one-sided keys: from the miss edge of every comma-ok lookup inside a
	// loop over keys, each path back to the loop header appends to the diff
	resT := fn.Signature.Results().At(0).Type()
	emits := func(b *ssa.BasicBlock) bool {
		for _, in := range b.Instrs {
			c, ok := in.(*ssa.Call)
			if !ok {
				continue
			}
			if bi, ok := c.Call.Value.(*ssa.Builtin); ok && bi.Name() == "append" && types.Identical(c.Type(), resT) {
				return true
			}
		}
		return false
	}
	k := 0
	for _, lp := range lps {
		if innermost := innermostLoop(lps, lp.Header); innermost != lp {
			continue
		}
		emitting := false
		for b := range lp.Blocks {
			if emits(b) && innermostLoop(lps, b) == lp {
				emitting = true
			}
		}
		if !emitting {
			continue // a loop that only collects or counts keys
		}
		k++
		// edges on which the key is known to exist on the other side as well
		// (handled by the pass over the other object's keys)
		hit := EdgeSet{}
		for b := range lp.Blocks {
			cond, tE, fE, okb := branchEdges(b)
			if !okb {
				continue
			}
			neg := false
			c := cond
			for {
				u, isU := c.(*ssa.UnOp)
				if !isU || u.Op != token.NOT {
					break
				}
				c = u.X
				neg = !neg
			}
			if ex, ok := c.(*ssa.Extract); ok && ex.Index == 1 {
				if lk, ok := ex.Tuple.(*ssa.Lookup); ok && lk.CommaOk {
					if neg {
						hit[fE] = true
					} else {
						hit[tE] = true
					}
				}
			}
		}
		seen := map[*ssa.BasicBlock]bool{}
		var work []*ssa.BasicBlock
		for j, nx := range lp.Header.Succs {
			if lp.Blocks[nx] && !hit[Edge{lp.Header, j}] {
				work = append(work, nx)
			}
		}
		silent := false
		for len(work) > 0 {
			x := work[len(work)-1]
			work = work[:len(work)-1]
			if seen[x] || emits(x) {
				continue
			}
			seen[x] = true
			for j, nx := range x.Succs {
				if hit[Edge{x, j}] {
					continue
				}
				if nx == lp.Header {
					silent = true
				}
				if lp.Blocks[nx] && nx != lp.Header {
					work = append(work, nx)
				}
			}
		}
		r.Check(!silent, rule, fmt.Sprintf("%s:no-key-passed-over-in-silence#%d", fnName(fn), k), w.Pos(firstPos(lp.Header)),
			"every key this loop visits appends to the diff (a hunk or the sub-diff of its values), unless it is found on the other side as well",
			"a key can be passed over without appending anything to the diff and without having been found on the other side: the two objects differ there but the diff does not say so")
	}
	if k < 1 {
		r.Bad(rule, fnName(fn)+":emitting-loops", w.Pos(fn.Pos()), "no loop of the object diff appends to the diff")
	}
}

// seqParams: indices of the []interface{} parameters of fn, in order.
func seqParams(fn *ssa.Function) []int {
	var out []int
	for i, p := range fn.Params {
		if sl, ok := p.Type().Underlying().(*types.Slice); ok {
			if it, ok := sl.Elem().Underlying().(*types.Interface); ok && it.NumMethods() == 0 {
				out = append(out, i)
			}
		}
	}
	return out
}

// ruleDispatchTable: which option makes dispatch read an array as which
// container — the table the advertised equivalence rests on: SET and
// SetKeys → set, MULTISET → multiset, none of them → list. The table is
// extracted from the returns of dispatch: a return of node type X guarded by
// the true edge of an assertion of an Option element to T, or of a call of a
// generic in-package test instantiated with T (which itself asserts to its
// type parameter), gives T → X; the return guarded by none gives "" → X.
func ruleDispatchTable(w *World, r *Report, pkg *ssa.Package) {
	const rule = "R-DISPATCH"
	fn := w.Func(pkg, "dispatch")
	r.Fn(fnName(fn))
	opt := pkg.Type("Option")
	if opt == nil {
		infra("R-DISPATCH: Option type not found")
	}
	// guards: true edges that establish "options contains a T"
	type guard struct {
		t string
		e Edge
	}
	var guards []guard
	for _, b := range fn.Blocks {
		cond, tE, _, ok := branchEdges(b)
		if !ok {
			continue
		}
		switch x := cond.(type) {
		case *ssa.Extract:
			if ta, ok := x.Tuple.(*ssa.TypeAssert); ok && ta.CommaOk && x.Index == 1 && types.Identical(ta.X.Type(), opt.Type()) {
				guards = append(guards, guard{typeName(ta.AssertedType), tE})
			}
		case *ssa.Call:
			sf := staticCallee(x)
			if sf == nil || fnPkg(sf) != pkg.Pkg || len(sf.TypeArgs()) != 1 {
				continue
			}
			// the instance asserts an Option element to its type argument
			asserts := false
			allInstrs(sf, func(in ssa.Instruction) {
				if ta, ok := in.(*ssa.TypeAssert); ok && types.Identical(ta.X.Type(), opt.Type()) && types.Identical(ta.AssertedType, sf.TypeArgs()[0]) {
					asserts = true
				}
			})
			if asserts {
				guards = append(guards, guard{typeName(sf.TypeArgs()[0]), tE})
			}
		}
	}
	table := map[string]map[string]bool{}
	add := func(k, v string) {
		if table[k] == nil {
			table[k] = map[string]bool{}
		}
		table[k][v] = true
	}
	for _, ret := range returnsOf(fn) {
		mi, ok := ret.Results[0].(*ssa.MakeInterface)
		if !ok {
			continue // the node itself (not an array)
		}
		node := typeName(mi.X.Type())
		guarded := false
		for _, g := range guards {
			if g.e.To() == ret.Block() || edgeDominates(g.e, ret.Block()) {
				add(g.t, node)
				guarded = true
			}
		}
		if !guarded {
			add("", node)
		}
	}
	if len(table) == 0 {
		r.Ok(rule, "v2.dispatch:shape", w.Pos(fn.Pos()), "dispatch does not return the converted array from branches on the option types itself (it is split over helpers): the option -> reading table could not be read off, this rule makes no claim (not decided)")
		return
	}
	want := map[string]string{"setOption": "jsonSet", "setKeysOption": "jsonSet", "multisetOption": "jsonMultiset", "": "jsonList"}
	label := map[string]string{"setOption": "SET", "setKeysOption": "SetKeys", "multisetOption": "MULTISET", "": "no array option"}
	for _, k := range []string{"setOption", "setKeysOption", "multisetOption", ""} {
		got := sortedKeys(table[k])
		r.Check(len(got) == 1 && got[0] == want[k], rule, "v2.dispatch:"+label[k], w.Pos(fn.Pos()),
			fmt.Sprintf("%s makes dispatch read an array as %s", label[k], want[k]),
			fmt.Sprintf("%s makes dispatch read an array as %v, the advertised reading is %s", label[k], got, want[k]))
	}
	for k := range table {
		if _, ok := want[k]; !ok {
			r.Bad(rule, "v2.dispatch:"+k, w.Pos(fn.Pos()), fmt.Sprintf("option %s changes the reading of arrays to %v; no such reading is advertised", k, sortedKeys(table[k])))
		}
	}
}

// ruleBagCount: in the multiset diff the number of copies listed as removed
// (added) is computed from the multiplicities on BOTH sides: the bound of the
// loop that appends copies to Remove / Add derives from the receiver's and
// from the argument's members. A bound that depends on one side only lists
// copies that are present on both sides (the hunk restates common members).
func ruleBagCount(w *World, r *Report, pkg *ssa.Package, tag, fRemove, fAdd string) {
	rule := "R-BAGCOUNT"
	if tag == "lib" {
		rule += "(lib)"
	}
	fn := w.MethodOpt(pkg, "jsonMultiset", "diff")
	if fn == nil {
		infra("%s: (jsonMultiset).diff not found", tag)
	}
	r.Fn(fnName(fn))
	h := newHunkType(pkg)
	d := NewDeriv(w, fn)
	lps := loopsOf(fn)
	recv, other := fn.Params[0], fn.Params[1]
	n := 0
	// the rule is written for the counting shape: multiplicities kept in maps
	// and compared per digest. A diff that is organised differently (e.g. a
	// merge join over sorted tallies, where "only on this side" is a branch,
	// not a count) is not decided by it.
	countsInMaps := false
	allInstrs(fn, func(in ssa.Instruction) {
		if lk, ok := in.(*ssa.Lookup); ok {
			if m, ok := lk.X.Type().Underlying().(*types.Map); ok {
				switch e := m.Elem().Underlying().(type) {
				case *types.Basic:
					if e.Info()&types.IsInteger != 0 {
						countsInMaps = true
					}
				case *types.Struct, *types.Pointer:
					countsInMaps = true
				}
			}
		}
	})
	if !countsInMaps {
		r.Ok(rule, fnName(fn)+":shape", w.Pos(fn.Pos()), "the multiset diff does not keep multiplicities in maps: this rule makes no claim about it (not decided)")
		return
	}
	for _, f := range []string{fRemove, fAdd} {
		k := 0
		for _, fs := range h.fieldStores(fn, f) {
			if fs.in != fn {
				continue
			}
			l := innermostLoop(lps, fs.st.Block())
			if l == nil {
				continue // initialisation
			}
			n++
			k++
			// operands of the conditions under which the loop is left or entered
			roots := rootSet{}
			for b := range l.Blocks {
				leaves := false
				for _, sc := range b.Succs {
					if !l.Blocks[sc] {
						leaves = true
					}
				}
				if !leaves {
					continue
				}
				cond, _, _, ok := branchEdges(b)
				if !ok {
					continue
				}
				if bo, ok := cond.(*ssa.BinOp); ok {
					for rt := range d.Roots(bo.X) {
						roots[rt] = true
					}
					for rt := range d.Roots(bo.Y) {
						roots[rt] = true
					}
				} else {
					for rt := range d.Roots(cond) {
						roots[rt] = true
					}
				}
			}
			key := fmt.Sprintf("%s:%s-copies#%d", fnName(fn), f, k)
			r.Check(roots[recv] && roots[other], rule, key, w.Pos(fs.st.Pos()),
				"the number of copies listed depends on the multiplicities on both sides",
				"the number of copies listed as "+strings.ToLower(f)+"d depends on one side only: copies present on both sides are restated in the hunk")
		}
	}
	if n < 2 {
		r.Bad(rule, tag+":instance-floor", "-", fmt.Sprintf("only %d copy-listing loops found in the multiset diff", n))
	}
}

// wholeValue: v (an element put into a hunk list) is the node `other` as a
// whole — itself, its asserted form, a list literal or nodeList() holding it.
func wholeValue(w *World, v ssa.Value, others map[ssa.Value]bool, depth int) bool {
	v = strip(v)
	if others[v] {
		return true
	}
	if depth > 3 {
		return false
	}
	switch x := v.(type) {
	case *ssa.Slice:
		if a, ok := x.X.(*ssa.Alloc); ok {
			for _, ref := range *a.Referrers() {
				if ia, ok := ref.(*ssa.IndexAddr); ok {
					for _, r2 := range *ia.Referrers() {
						if st, ok := r2.(*ssa.Store); ok && wholeValue(w, st.Val, others, depth+1) {
							return true
						}
					}
				}
			}
		}
	case *ssa.Call:
		if sf := staticCallee(x); sf != nil && w.helperIs(sf, "nodeList") && len(x.Call.Args) == 1 {
			return wholeValue(w, x.Call.Args[0], others, depth+1)
		}
	}
	return false
}

// ruleWholeContainer: the array diffs (list, set, multiset) replace the whole
// receiver by the whole argument only where that is the right answer: on the
// edge where the argument is not an array of the receiver's kind, or under
// merge strategy (where arrays are replaced wholesale by design). A
// replacement hunk — built in place or by a helper that is handed the
// argument — anywhere else restates arrays that should have been diffed
// element by element (equal arrays produce a no-op hunk).
func ruleWholeContainer(w *World, r *Report, pkg *ssa.Package, tag, fAdd string) {
	rule := "R-WHOLEARR"
	if tag == "lib" {
		rule += "(lib)"
	}
	h := newHunkType(pkg)
	n := 0
	for _, t := range []string{"jsonList", "jsonSet", "jsonMultiset"} {
		fn := w.MethodOpt(pkg, t, "diff")
		if fn == nil {
			continue
		}
		r.Fn(fnName(fn))
		other := fn.Params[1]
		others := map[ssa.Value]bool{other: true}
		var okEdges []Edge
		for _, b := range fn.Blocks {
			for _, in := range b.Instrs {
				ta, ok := in.(*ssa.TypeAssert)
				if !ok || !ta.CommaOk || strip(ta.X) != ssa.Value(other) {
					continue
				}
				for _, ref := range *ta.Referrers() {
					ex, ok := ref.(*ssa.Extract)
					if !ok {
						continue
					}
					if ex.Index == 0 {
						others[ex] = true
					}
					if ex.Index == 1 {
						for _, bb := range fn.Blocks {
							if cond, _, fE, okb := branchEdges(bb); okb && cond == ssa.Value(ex) {
								okEdges = append(okEdges, fE)
							}
						}
					}
				}
			}
		}
		missEdgesOnly := append([]Edge{}, okEdges...)
		// merge-strategy edges
		for _, p := range fn.Params {
			if typeName(p.Type()) != "patchStrategy" {
				continue
			}
			for _, b := range fn.Blocks {
				cond, tE, fE, ok := branchEdges(b)
				if !ok {
					continue
				}
				bo, ok := cond.(*ssa.BinOp)
				if !ok || (bo.Op != token.EQL && bo.Op != token.NEQ) || strip(bo.X) != ssa.Value(p) {
					continue
				}
				if s, ok := constString(bo.Y); ok && s == "merge" {
					if bo.Op == token.EQL {
						okEdges = append(okEdges, tE)
					} else {
						okEdges = append(okEdges, fE)
					}
				}
			}
		}
		allowed := func(b *ssa.BasicBlock) bool {
			for _, e := range okEdges {
				if edgeDominatesOrSame(e, b) {
					return true
				}
			}
			return false
		}
		missOnly := func(b *ssa.BasicBlock) bool {
			for _, e := range missEdgesOnly {
				if edgeDominatesOrSame(e, b) {
					return true
				}
			}
			return false
		}
		k := 0
		// (1) replacement hunks built in place
		for _, fs := range h.fieldStores(fn, fAdd) {
			if fs.in != fn {
				continue
			}
			whole := false
			for _, el := range appendedElems(fs.st.Val) {
				if wholeValue(w, el, others, 0) {
					whole = true
				}
			}
			if !whole {
				continue
			}
			n++
			k++
			if !missOnly(fs.st.Block()) {
				r.Check(behindNotEqual(fn, fs.st.Block()), rule, fmt.Sprintf("%s:whole-replacement#%d:only-if-unequal", fnName(fn), k), w.Pos(fs.st.Pos()),
					"where both sides are arrays of this kind the whole-array hunk is built only after Equals has answered false",
					"a hunk replaces the receiver by the whole argument although both are arrays of this kind and without Equals having answered false: an unchanged array is restated as a hunk (a no-op hunk; the merge diff of equal documents is not empty)")
			}
			r.Check(allowed(fs.st.Block()), rule, fmt.Sprintf("%s:whole-replacement#%d", fnName(fn), k), w.Pos(fs.st.Pos()),
				"the hunk that puts the whole argument into "+fAdd+" is built only where the argument is not an array of this kind, or under merge strategy",
				"a hunk replaces the receiver by the whole argument although both are arrays of the same kind and the strategy is not merge: equal or nearly equal arrays are restated instead of diffed")
		}
		// (2) replacement hunks built by a helper that is handed the argument
		allInstrs(fn, func(in ssa.Instruction) {
			c, ok := in.(*ssa.Call)
			if !ok {
				return
			}
			g := staticCallee(c)
			if g == nil || g.Blocks == nil || fnPkg(g) != pkg.Pkg || g == fn || len(c.Call.Args) != len(g.Params) {
				return
			}
			for i, a := range c.Call.Args {
				if !others[strip(a)] {
					continue
				}
				// does g (or a helper it hands the argument on to) build a hunk holding the whole argument,
				// and is every such construction behind an Equals-false edge somewhere on the way?
				var wholeIn func(g *ssa.Function, i, depth int) (builds, unguarded bool)
				wholeIn = func(g *ssa.Function, i, depth int) (builds, unguarded bool) {
					gOthers := map[ssa.Value]bool{g.Params[i]: true}
					for _, fs := range h.fieldStores(g, fAdd) {
						for _, el := range appendedElems(fs.st.Val) {
							if wholeValue(w, el, gOthers, 0) {
								builds = true
								if !behindNotEqual(g, fs.st.Block()) {
									unguarded = true
								}
							}
						}
					}
					if depth >= 3 {
						return
					}
					allInstrs(g, func(in ssa.Instruction) {
						c2, ok := in.(*ssa.Call)
						if !ok {
							return
						}
						g2 := staticCallee(c2)
						if g2 == nil || g2.Blocks == nil || fnPkg(g2) != pkg.Pkg || g2 == g || len(c2.Call.Args) != len(g2.Params) {
							return
						}
						for j, a2 := range c2.Call.Args {
							if strip(a2) != ssa.Value(g.Params[i]) {
								continue
							}
							b2, u2 := wholeIn(g2, j, depth+1)
							if b2 {
								builds = true
								if u2 && !behindNotEqual(g, c2.Block()) {
									unguarded = true
								}
							}
						}
					})
					return
				}
				builds, unguardedInside := wholeIn(g, i, 0)
				if !builds {
					continue
				}
				n++
				k++
				if !missOnly(c.Block()) {
					guarded := behindNotEqual(fn, c.Block()) || !unguardedInside
					r.Check(guarded, rule, fmt.Sprintf("%s:whole-replacement#%d→%s:only-if-unequal", fnName(fn), k, g.Name()), w.Pos(c.Pos()),
						"where both sides are arrays of this kind the whole-array hunk is built only after Equals has answered false (at the call or inside the helper)",
						"the helper "+g.Name()+" replaces the receiver by the whole argument although both are arrays of this kind and without Equals having answered false: an unchanged array is restated as a hunk (a no-op hunk; the merge diff of equal documents is not empty)")
				}
				r.Check(allowed(c.Block()), rule, fmt.Sprintf("%s:whole-replacement#%d→%s", fnName(fn), k, g.Name()), w.Pos(c.Pos()),
					"the helper that replaces the receiver by the whole argument is called only where the argument is not an array of this kind, or under merge strategy",
					"the helper "+g.Name()+", which replaces the receiver by the whole argument, is called although both are arrays of the same kind and the strategy is not merge: equal or nearly equal arrays are restated instead of diffed")
			}
		})
	}
	if n < 3 {
		r.Bad(rule, tag+":instance-floor", "-", fmt.Sprintf("only %d whole-array replacement sites found in the list/set/multiset diffs", n))
	}
}

// ruleHashNoArith — package-wide clause of R-HASHMOVE: nowhere in the library
// is a byte (or word) taken out of a digest fed into integer arithmetic. The
// helpers that fold several digests into one (hashCodes.combine, identity
// hashing) are not hashCode methods, so the per-method clause does not see
// them; an xor/add fold there cancels equal members (two set keys with the
// same value, two copies in a multiset) exactly like one inside hashCode.
func ruleHashNoArith(w *World, r *Report, nt *nodeTypes) {
	const rule = "R-HASHMOVE"
	dig := nt.method(nt.names[0], "hashCode").Signature.Results().At(0).Type()
	isDigest := func(t types.Type) bool {
		if p, ok := t.Underlying().(*types.Pointer); ok {
			t = p.Elem()
		}
		return types.Identical(t.Underlying(), dig.Underlying())
	}
	var fromDigest func(v ssa.Value, depth int) bool
	fromDigest = func(v ssa.Value, depth int) bool {
		if depth > 5 || v == nil {
			return false
		}
		switch x := v.(type) {
		case *ssa.UnOp:
			if x.Op == token.MUL {
				if ia, ok := x.X.(*ssa.IndexAddr); ok && isDigest(ia.X.Type()) {
					return true
				}
				return false
			}
			return fromDigest(x.X, depth+1)
		case *ssa.Index:
			return isDigest(x.X.Type())
		case *ssa.Convert:
			return fromDigest(x.X, depth+1)
		case *ssa.ChangeType:
			return fromDigest(x.X, depth+1)
		case *ssa.Phi:
			for _, e := range x.Edges {
				if fromDigest(e, depth+1) {
					return true
				}
			}
		case *ssa.BinOp:
			return fromDigest(x.X, depth+1) || fromDigest(x.Y, depth+1)
		case *ssa.Call:
			// binary.LittleEndian.Uint64(d[:]) and friends
			if strings.HasPrefix(calleeFullName(x), "(encoding/binary.") {
				for _, a := range x.Call.Args {
					if sl, ok := strip(a).(*ssa.Slice); ok && isDigest(sl.X.Type()) {
						return true
					}
				}
			}
		}
		return false
	}
	bad := ""
	n := 0
	for fn := range w.AllFunctions() {
		if fnPkg(fn) != nt.pkg.Pkg || fn.Blocks == nil {
			continue
		}
		n++
		allInstrs(fn, func(in ssa.Instruction) {
			bo, ok := in.(*ssa.BinOp)
			if !ok {
				return
			}
			switch bo.Op {
			case token.XOR, token.ADD, token.SUB, token.MUL, token.AND, token.OR, token.SHL, token.SHR, token.AND_NOT, token.QUO, token.REM:
			default:
				return
			}
			bt, ok := bo.Type().Underlying().(*types.Basic)
			if !ok || bt.Info()&types.IsInteger == 0 {
				return
			}
			if fromDigest(bo.X, 0) || fromDigest(bo.Y, 0) {
				bad = fmt.Sprintf("%s combines digest bytes with integer arithmetic (%s) at %s", fnName(fn), bo.Op, w.Pos(bo.Pos()))
			}
		})
	}
	r.Check(bad == "", rule, nt.tag+":no-arithmetic-on-digests", "-",
		fmt.Sprintf("none of the %d functions of the package feeds bytes of a digest into integer arithmetic: digests are only moved, sorted, compared and re-hashed", n),
		bad+": digests folded by arithmetic can cancel (equal members, permuted members), so different containers or identities hash alike")
}

// ruleArrayDispatch — R-ARRAYDISPATCH. A document holds arrays in two shapes:
// the raw array the readers build, and the list/set/multiset views that
// dispatch converts it to — and that every patch stores back into the document
// it returns (so the child of an array is a list after the first hunk through
// it). Code on the diff/patch/Equals side may therefore tell arrays apart only
// after dispatch: a type test against the raw array type that does not also
// cover all its dispatched views treats a document differently depending on
// whether an earlier hunk (or an earlier Patch) has touched it. Scope: the
// functions reachable by static calls from the named methods of the node
// types, except dispatch itself.
func ruleArrayDispatch(w *World, r *Report, pkg *ssa.Package, tag string, methods ...string) {
	const rule = "R-ARRAYDISPATCH"
	nt := newNodeTypes(w, pkg, tag)
	disp := w.Func(pkg, "dispatch")
	var raw types.Type
	allInstrs(disp, func(in ssa.Instruction) {
		if ta, ok := in.(*ssa.TypeAssert); ok && raw == nil {
			if _, isSlice := ta.AssertedType.Underlying().(*types.Slice); isSlice {
				raw = ta.AssertedType
			}
		}
	})
	if raw == nil {
		// dispatch split over helpers: look for the assertion in what it calls
		seenD := map[*ssa.Function]bool{disp: true}
		workD := []*ssa.Function{disp}
		for len(workD) > 0 && raw == nil {
			f := workD[0]
			workD = workD[1:]
			allInstrs(f, func(in ssa.Instruction) {
				switch x := in.(type) {
				case *ssa.TypeAssert:
					if _, isSlice := x.AssertedType.Underlying().(*types.Slice); isSlice && raw == nil {
						if _, isIface := x.X.Type().Underlying().(*types.Interface); isIface {
							raw = x.AssertedType
						}
					}
				case ssa.CallInstruction:
					if sf := staticCallee(x); sf != nil && sf.Blocks != nil && fnPkg(sf) == pkg.Pkg && !seenD[sf] {
						seenD[sf] = true
						workD = append(workD, sf)
					}
				}
			})
		}
	}
	if raw == nil {
		r.Ok(rule, tag+":raw-array-type", "-", "the raw array type dispatch converts could not be identified: this rule makes no claim (not decided)")
		return
	}
	views := map[string]bool{}
	for _, t := range nt.names {
		fn := nt.method(t, "Equals")
		rt := fn.Params[0].Type()
		if types.Identical(rt.Underlying(), raw.Underlying()) && !types.Identical(rt, raw) {
			views[typeName(rt)] = true
		}
	}
	seen := map[*ssa.Function]bool{}
	var work []*ssa.Function
	for _, t := range nt.names {
		for _, m := range methods {
			if fn := w.MethodOpt(pkg, t, m); fn != nil && fn.Blocks != nil && !seen[fn] {
				seen[fn] = true
				work = append(work, fn)
			}
		}
	}
	n := 0
	var bad []string
	for len(work) > 0 {
		f := work[0]
		work = work[1:]
		if f == disp {
			continue
		}
		n++
		withClosures(f, func(g *ssa.Function) {
			// asserted types per tested value
			tested := map[ssa.Value]map[string]bool{}
			hasRaw := map[ssa.Value]token.Pos{}
			allInstrs(g, func(in ssa.Instruction) {
				switch x := in.(type) {
				case *ssa.TypeAssert:
					v := strip(x.X)
					if tested[v] == nil {
						tested[v] = map[string]bool{}
					}
					tested[v][typeName(x.AssertedType)] = true
					if types.Identical(x.AssertedType, raw) {
						hasRaw[v] = x.Pos()
					}
				case ssa.CallInstruction:
					sf := staticCallee(x)
					if sf == nil || sf.Blocks == nil || fnPkg(sf) != pkg.Pkg || seen[sf] {
						return
					}
					if sf.Parent() != nil {
						return
					}
					seen[sf] = true
					work = append(work, sf)
				}
			})
			for v, pos := range hasRaw {
				all := true
				for vw := range views {
					if !tested[v][vw] {
						all = false
					}
				}
				if !all {
					bad = append(bad, fmt.Sprintf("%s tests a document node against %s only (at %s)", fnName(g), typeName(raw), w.Pos(pos)))
				}
			}
		})
	}
	sort.Strings(bad)
	r.Check(len(bad) == 0, rule, tag+":arrays-told-apart-after-dispatch["+strings.Join(methods, ",")+"]", "-",
		fmt.Sprintf("none of the %d functions reachable from the %s methods tests a node against the raw array type without its dispatched views %v", n, strings.Join(methods, "/"), sortedKeys(views)),
		strings.Join(bad, "; ")+": an array that an earlier hunk or Patch has stored back as a list/set/multiset no longer takes this branch")
}

// behindNotEqual: block b of fn is reachable only over an edge on which a call
// of Equals (between nodes) has answered false.
func behindNotEqual(fn *ssa.Function, b *ssa.BasicBlock) bool {
	for _, bb := range fn.Blocks {
		cond, tE, fE, ok := branchEdges(bb)
		if !ok {
			continue
		}
		neg := false
		for {
			u, isU := cond.(*ssa.UnOp)
			if !isU || u.Op != token.NOT {
				break
			}
			cond, neg = u.X, !neg
		}
		c, isCall := cond.(*ssa.Call)
		if !isCall {
			continue
		}
		isEq := false
		if c.Call.IsInvoke() {
			isEq = methodIs(c.Call.Method, "Equals") || c.Call.Method.Name() == "Equals"
		} else if sf := staticCallee(c); sf != nil && sf.Signature.Recv() != nil {
			isEq = sf.Name() == "Equals" || theWorld.fnIs(sf, "Equals")
		}
		if !isEq {
			continue
		}
		e := fE
		if neg {
			e = tE
		}
		if edgeDominates(e, b) || (e.To() == b && len(b.Preds) == 1) {
			return true
		}
	}
	return false
}

// ruleChildResult — R-CHILDRESULT. In the container patch implementations
// (object, list) and the leaf patch, the node returned for a hunk whose path
// goes on below this node is this node (updated), never what patching the
// child returned: a success return must not hand back, as the result for the
// parent, the node result of a patch-family call made on something other than
// the function's own node. Returning the child's result drops every sibling of
// the addressed member.
func ruleChildResult(w *World, r *Report, pf *patchFamily) {
	rule := "R-CHILDRESULT"
	if pf.tag == "lib" {
		rule += "(lib)"
	}
	n := 0
	for _, fn := range pf.functions() {
		calls := pf.familyCalls(fn)
		if len(calls) == 0 {
			continue
		}
		r.Fn(fnName(fn))
		var node ssa.Value
		if fn.Signature.Recv() != nil {
			node = fn.Params[0]
		} else if len(fn.Params) > 0 {
			node = fn.Params[0]
		}
		bad := ""
		keepBad := ""
		for _, pc := range calls {
			call, ok := pc.call.(*ssa.Call)
			if !ok {
				continue
			}
			// the node the call patches
			var target ssa.Value
			if call.Call.IsInvoke() {
				target = call.Call.Value
			} else if len(call.Call.Args) > 0 {
				target = call.Call.Args[0]
			}
			if target == nil {
				continue
			}
			sameNode := strip(target) == node // the whole job is delegated (merge strategy): returning its result is fine
			if c, isCall := strip(target).(*ssa.Call); isCall && len(c.Call.Args) >= 1 && strip(c.Call.Args[0]) == node {
				if sf := staticCallee(c); sf != nil && (w.helperIs(sf, "dispatch") || fnPkg(sf) == pf.pkg.Pkg && sameNodeView(sf)) {
					sameNode = true // the same node seen as list / set / multiset
				}
			}
			n++
			// its node result must not be returned
			var res ssa.Value
			for _, ref := range *call.Referrers() {
				if ex, ok := ref.(*ssa.Extract); ok && ex.Index == 0 {
					res = ex
				}
			}
			if res == nil {
				continue
			}
			for _, ret := range returnsOf(fn) {
				if sameNode {
					break
				}
				if flowsTo(res, ret.Results[0], 0) {
					bad = w.Pos(ret.Pos())
				}
			}
			// whether the patched child is kept in this node is decided by looking at the patched child:
			// every branch between the call and the store of its result tests something derived from the call
			_ = NewDeriv
			allInstrs(fn, func(in ssa.Instruction) {
				var stored ssa.Value
				switch x := in.(type) {
				case *ssa.MapUpdate:
					stored = x.Value
				case *ssa.Store:
					if _, isIA := x.Addr.(*ssa.IndexAddr); isIA {
						stored = x.Val
					}
				}
				if stored == nil || !flowsTo(res, stored, 0) {
					return
				}
				// (a) the edges on which the patched child is known not to be void
				var nonVoid []Edge
				conditional := false
				for _, bb := range fn.Blocks {
					cond, tE, fE, ok := branchEdges(bb)
					if !ok || !call.Block().Dominates(bb) {
						continue
					}
					rT := reachFrom(tE.To(), nil)[in.Block()]
					rF := reachFrom(fE.To(), nil)[in.Block()]
					neg := false
					c0 := cond
					for {
						u, isU := c0.(*ssa.UnOp)
						if !isU || u.Op != token.NOT {
							break
						}
						c0, neg = u.X, !neg
					}
					if vc, isCall := c0.(*ssa.Call); isCall && len(vc.Call.Args) == 1 && flowsTo(res, vc.Call.Args[0], 0) {
						if sf := staticCallee(vc); sf != nil && w.helperIs(sf, "isVoid") {
							if neg {
								nonVoid = append(nonVoid, tE)
							} else {
								nonVoid = append(nonVoid, fE)
							}
							continue
						}
					}
					// the error test of the call itself is not a decision about keeping the child
					if bo, isBo := c0.(*ssa.BinOp); isBo {
						if ex, isEx := bo.X.(*ssa.Extract); isEx && ex.Tuple == ssa.Value(call) && isNilConst(bo.Y) {
							continue
						}
					}
					if rT != rF {
						conditional = true
					}
				}
				if len(nonVoid) == 0 {
					if conditional {
						keepBad = fmt.Sprintf("the store of the patched child at %s is conditional, but no test looks at whether the patched child is void", w.Pos(in.Pos()))
					}
					return
				}
				// (b) from such an edge every way out of the function passes the store
				for _, e := range nonVoid {
					seenB := map[*ssa.BasicBlock]bool{}
					work := []*ssa.BasicBlock{e.To()}
					for len(work) > 0 {
						x := work[len(work)-1]
						work = work[:len(work)-1]
						if seenB[x] || x == in.Block() {
							continue
						}
						seenB[x] = true
						if _, isRet := x.Instrs[len(x.Instrs)-1].(*ssa.Return); isRet {
							keepBad = fmt.Sprintf("a patched child that is not void can fail to be stored: from the test at %s a return at %s is reachable without the store at %s", w.Pos(firstPos(e.From)), w.Pos(firstPos(x)), w.Pos(in.Pos()))
						}
						work = append(work, x.Succs...)
					}
				}
			})
		}
		if n > 0 {
			r.Check(keepBad == "", rule, fnName(fn)+":child-kept-by-looking-at-it", w.Pos(fn.Pos()),
				"whether the patched child is stored into this node depends only on tests of what patching the child returned",
				keepBad+": a child that must be kept (an intermediate object created for a deeper hunk) is dropped, or one that must go is kept, depending on the hunk instead of on the outcome")
			r.Check(bad == "", rule, fnName(fn)+":returns-own-node", w.Pos(fn.Pos()),
				"what patching a child returned is stored into this node, not returned in its place",
				"the node returned at "+bad+" is what patching the child returned: the parent is replaced by (a wrapper of) its patched child and every sibling of the addressed member is lost")
		}
	}
}

// flowsTo: value v reaches w through phis and value-preserving conversions only.
func flowsTo(v, w ssa.Value, depth int) bool {
	if depth > 6 {
		return false
	}
	w = strip(w)
	if w == v {
		return true
	}
	if phi, ok := w.(*ssa.Phi); ok {
		for _, e := range phi.Edges {
			if flowsTo(v, e, depth+1) {
				return true
			}
		}
	}
	return false
}

// ruleValuesFresh — R-VALUESFRESH. The value lists of a hunk (Before, Remove,
// Add, After) that a diff function builds are lists of their own: a composite
// literal, the result of nodeList / a helper returning a fresh slice, or an
// accumulation by append onto the field itself. A list that is (a conversion
// of) the receiver or the argument shares the backing array of the document:
// the list patch removes elements of the target in place while it walks the
// hunk's Remove list, so a diff applied exactly as returned (without being
// rendered and read back) sees its expectations shift under it.
func ruleValuesFresh(w *World, r *Report, pkg *ssa.Package, tag string, fields ...string) {
	rule := "R-VALUESFRESH"
	if tag != "v2" {
		rule += "(" + tag + ")"
	}
	h := newHunkType(pkg)
	fr := &freshness{w: w, memo: map[*ssa.Function]int{}}
	n := 0
	for _, fn := range w.FuncsOf(pkg) {
		isDiffFn := false
		for _, p := range fn.Params {
			_ = p
		}
		if fn.Signature.Results().Len() == 1 && typeName(fn.Signature.Results().At(0).Type()) == "Diff" {
			isDiffFn = true
		}
		if fn.Parent() != nil {
			root := fn
			for root.Parent() != nil {
				root = root.Parent()
			}
			isDiffFn = root.Signature.Results().Len() == 1 && typeName(root.Signature.Results().At(0).Type()) == "Diff"
		}
		if !isDiffFn {
			continue
		}
		for _, f := range fields {
			for i, fs := range h.fieldStores(fn, f) {
				n++
				key := fmt.Sprintf("%s:%s-store#%d", fnName(fn), f, i+1)
				v := fs.st.Val
				// accumulation: append(<same field>, ...)
				if c, ok := v.(*ssa.Call); ok {
					if b, isB := c.Call.Value.(*ssa.Builtin); isB && b.Name() == "append" {
						if ld, isLd := c.Call.Args[0].(*ssa.UnOp); isLd && ld.Op == token.MUL {
							if fa, isFA := ld.X.(*ssa.FieldAddr); isFA {
								if fa2, isFA2 := fs.st.Addr.(*ssa.FieldAddr); isFA2 && fa.Field == fa2.Field {
									r.Ok(rule, key, w.Pos(fs.st.Pos()), "the list grows by append onto itself")
									continue
								}
							}
						}
					}
				}
				ok, why := fr.freshPath(v, map[ssa.Value]bool{})
				r.Check(ok, rule, key, w.Pos(fs.st.Pos()), "the hunk's "+f+" list is a list of its own",
					"the hunk's "+f+" list is "+why+": it shares the backing array of a document, and the list patch edits its target in place while walking the hunk, so the diff applied as returned no longer matches")
			}
		}
	}
	if n < 8 {
		r.Bad(rule, tag+":instance-floor", "-", fmt.Sprintf("only %d stores into hunk value lists found in the diff functions", n))
	}
}

// sameNodeView: a package function whose every result is its first argument,
// converted at most (array -> list/set/multiset view), possibly through
// further functions of that kind.
func sameNodeView(fn *ssa.Function) bool {
	return sameNodeViewDepth(fn, 0)
}

func sameNodeViewDepth(fn *ssa.Function, depth int) bool {
	if fn == nil || fn.Blocks == nil || len(fn.Params) == 0 || fn.Signature.Results().Len() != 1 || depth > 3 {
		return false
	}
	p := fn.Params[0]
	var view func(v ssa.Value, d int) bool
	view = func(v ssa.Value, d int) bool {
		if d > 8 {
			return false
		}
		v = strip(v)
		if v == ssa.Value(p) {
			return true
		}
		switch x := v.(type) {
		case *ssa.Phi:
			for _, e := range x.Edges {
				if !view(e, d+1) {
					return false
				}
			}
			return true
		case *ssa.Extract:
			if ta, ok := x.Tuple.(*ssa.TypeAssert); ok && x.Index == 0 {
				return view(ta.X, d+1)
			}
		case *ssa.TypeAssert:
			return view(x.X, d+1)
		case *ssa.Call:
			if sf := staticCallee(x); sf != nil && len(x.Call.Args) >= 1 && fnPkg(sf) == fnPkg(fn) && sameNodeViewDepth(sf, depth+1) {
				return view(x.Call.Args[0], d+1)
			}
		}
		return false
	}
	for _, ret := range returnsOf(fn) {
		if !view(ret.Results[0], 0) {
			return false
		}
	}
	return true
}

// ruleLoopFresh — R-LOOPFRESH. A function that builds one hunk per iteration of
// a loop gives every hunk value lists of its own: a list stored into a hunk
// field inside a loop is allocated inside that loop (or is the input hunk's
// own list). A buffer made before the loop and re-sliced per iteration is
// shared by all the hunks built: they all end up holding the last iteration's
// values.
func ruleLoopFresh(w *World, r *Report, pkg *ssa.Package, tag string, fnNames [][2]string, fields ...string) {
	rule := "R-LOOPFRESH"
	if tag != "v2" {
		rule += "(" + tag + ")"
	}
	h := newHunkType(pkg)
	for _, tm := range fnNames {
		var fn *ssa.Function
		if tm[0] == "" {
			fn = w.FuncOpt(pkg, tm[1])
		} else {
			fn = w.MethodOpt(pkg, tm[0], tm[1])
		}
		if fn == nil || fn.Blocks == nil {
			continue
		}
		r.Fn(fnName(fn))
		lps := loopsOf(fn)
		bad := ""
		n := 0
		for _, f := range fields {
			for _, fs := range h.fieldStores(fn, f) {
				l := innermostLoop(lps, fs.st.Block())
				// the outermost loop containing the store
				for _, l2 := range lps {
					if l2.Blocks[fs.st.Block()] && (l == nil || len(l2.Blocks) > len(l.Blocks)) {
						l = l2
					}
				}
				if l == nil {
					continue
				}
				n++
				// allocation sites of the stored slice
				seen := map[ssa.Value]bool{}
				var walk func(v ssa.Value, depth int)
				walk = func(v ssa.Value, depth int) {
					v = strip(v)
					if v == nil || seen[v] || depth > 12 {
						return
					}
					seen[v] = true
					switch x := v.(type) {
					case *ssa.MakeSlice:
						if !l.Blocks[x.Block()] {
							bad = fmt.Sprintf("the %s list stored at %s is backed by the buffer made at %s, outside the loop that builds the hunks", f, w.Pos(fs.st.Pos()), w.Pos(x.Pos()))
						}
					case *ssa.Slice:
						if al, ok := x.X.(*ssa.Alloc); ok {
							if !l.Blocks[al.Block()] {
								bad = fmt.Sprintf("the %s list stored at %s is backed by an array allocated at %s, outside the loop that builds the hunks", f, w.Pos(fs.st.Pos()), w.Pos(al.Pos()))
							}
							return
						}
						walk(x.X, depth+1)
					case *ssa.Phi:
						for _, e := range x.Edges {
							walk(e, depth+1)
						}
					case *ssa.Call:
						if b, ok := x.Call.Value.(*ssa.Builtin); ok && b.Name() == "append" {
							walk(x.Call.Args[0], depth+1)
						}
					}
				}
				walk(fs.st.Val, 0)
			}
		}
		r.Check(bad == "", rule, fnName(fn)+":per-hunk-lists", w.Pos(fn.Pos()),
			fmt.Sprintf("the %d value lists stored into hunks inside loops are allocated per iteration", n),
			bad+": every hunk built by the loop shares one backing array and ends up with the values of the last one")
	}
}

// ruleHashFoldAll — clause of R-HASHMOVE: a helper that folds a list of
// digests into one (hashCodes.combine) and is reached from the multiset digest
// or from identity hashing writes *every* element of the list into the hash
// input. Multiplicities matter to both callers (a bag with two copies is not
// the bag with one; an identity in which two keys carry the same value is not
// the identity in which one does), so an iteration that can get back to the
// loop header without having written its element (`continue` on a repeated
// digest) makes different bags / identities hash alike. De-duplication for the
// set reading belongs in the set's own hashCode, which this clause does not
// look at.
func ruleHashFoldAll(w *World, r *Report, nt *nodeTypes) {
	const rule = "R-HASHMOVE"
	dig := nt.method(nt.names[0], "hashCode").Signature.Results().At(0).Type()
	isDigestList := func(t types.Type) bool {
		sl, ok := t.Underlying().(*types.Slice)
		return ok && types.Identical(sl.Elem().Underlying(), dig.Underlying())
	}
	// roots: the multiset digest and identity hashing
	var roots []*ssa.Function
	for _, fn := range w.FuncsOf(nt.pkg) {
		if fn.Signature.Recv() != nil && canonFnName(fn) == "hashCode" && typeName(fn.Signature.Recv().Type()) == "jsonMultiset" {
			roots = append(roots, fn)
		}
		if canonFnName(fn) == "ident" {
			roots = append(roots, fn)
		}
	}
	seen := map[*ssa.Function]bool{}
	work := append([]*ssa.Function{}, roots...)
	for len(work) > 0 {
		f := work[0]
		work = work[1:]
		if seen[f] {
			continue
		}
		seen[f] = true
		withClosures(f, func(g *ssa.Function) {
			allInstrs(g, func(in ssa.Instruction) {
				if c, ok := in.(ssa.CallInstruction); ok {
					if sf := staticCallee(c); sf != nil && sf.Blocks != nil && fnPkg(sf) == nt.pkg.Pkg && !seen[sf] {
						work = append(work, sf)
					}
				}
			})
		})
	}
	var fns []*ssa.Function
	for f := range seen {
		fns = append(fns, f)
	}
	sort.Slice(fns, func(i, j int) bool { return fnName(fns[i]) < fnName(fns[j]) })
	n := 0
	for _, fn := range fns {
		if canonFnName(fn) == "hashCode" || canonFnName(fn) == "ident" {
			continue // the callers build their lists themselves; the clause is about the shared fold
		}
		var list ssa.Value
		for _, p := range fn.Params {
			if isDigestList(p.Type()) {
				list = p
			}
		}
		if list == nil {
			continue
		}
		returnsDigest := false
		for i := 0; i < fn.Signature.Results().Len(); i++ {
			if types.Identical(fn.Signature.Results().At(i).Type().Underlying(), dig.Underlying()) {
				returnsDigest = true
			}
		}
		if !returnsDigest {
			continue
		}
		for li, lp := range loopsOf(fn) {
			readsElem := false
			writes := map[*ssa.BasicBlock]bool{}
			for b := range lp.Blocks {
				for _, in := range b.Instrs {
					switch x := in.(type) {
					case *ssa.IndexAddr:
						if strip(x.X) == list {
							readsElem = true
						}
					case *ssa.Index:
						if strip(x.X) == list {
							readsElem = true
						}
					case *ssa.Call:
						isWrite := false
						if bi, ok := x.Call.Value.(*ssa.Builtin); ok && (bi.Name() == "append" || bi.Name() == "copy") {
							isWrite = true
						} else if x.Call.IsInvoke() && x.Call.Method.Name() == "Write" {
							isWrite = true
						} else if sf := staticCallee(x); sf != nil && sf.Name() == "Write" {
							isWrite = true
						}
						if !isWrite {
							continue
						}
						for _, a := range x.Call.Args {
							if sl, ok := a.Type().Underlying().(*types.Slice); ok {
								if bt, ok := sl.Elem().Underlying().(*types.Basic); ok && bt.Kind() == types.Uint8 {
									writes[b] = true
								}
							}
						}
					}
				}
			}
			if !readsElem || len(writes) == 0 {
				continue
			}
			n++
			// can an iteration return to the header without passing a write?
			skip := false
			visited := map[*ssa.BasicBlock]bool{}
			var stack []*ssa.BasicBlock
			for _, sc := range lp.Header.Succs {
				if lp.Blocks[sc] && !writes[sc] {
					stack = append(stack, sc)
				}
			}
			if writes[lp.Header] {
				stack = nil
			}
			for len(stack) > 0 && !skip {
				b := stack[len(stack)-1]
				stack = stack[:len(stack)-1]
				if b == lp.Header {
					skip = true
					break
				}
				if visited[b] {
					continue
				}
				visited[b] = true
				for _, sc := range b.Succs {
					if lp.Blocks[sc] && !writes[sc] {
						stack = append(stack, sc)
					}
				}
			}
			r.Fn(fnName(fn))
			r.Check(!skip, rule, fmt.Sprintf("%s:fold-writes-every-element#%d", fnName(fn), li+1), w.Pos(lp.Header.Instrs[0].Pos()),
				"every iteration over the digests to be folded writes its element into the hash input",
				"an iteration over the digests to be folded can return to the loop header without writing its element into the hash input: repeated digests (two copies in a multiset, two identity keys with the same value) are dropped, so different bags or identities hash alike")
		}
	}
	if n == 0 {
		r.Ok(rule, nt.tag+":fold-writes-every-element", "-", "no shared digest fold reached from the multiset digest or identity hashing: this clause makes no claim (not decided)")
	}
}

// ruleIdentBinds — clause of R-HASHMOVE for identity hashing (SetKeys with
// more than one key; C01 "every array-member object carrying all k", C05, C08).
// The identity of a keyed member is a digest over the values found under the
// key names. Each such value must reach the digest *together with its key*:
// the key string itself (not merely its use as a map index) must flow into the
// returned digest. If only the values do — and the fold sorts them — the
// identity does not say which value belongs to which key, and
// {"a":1,"b":2} and {"a":2,"b":1} are one member.
func ruleIdentBinds(w *World, r *Report, pkg *ssa.Package, tag string) {
	const rule = "R-HASHMOVE"
	n := 0
	for _, fn := range w.FuncsOf(pkg) {
		name := canonFnName(fn)
		if name != "ident" && name != "pathIdent" {
			continue
		}
		if len(fn.Params) == 0 {
			continue
		}
		if _, isMap := fn.Params[0].Type().Underlying().(*types.Map); !isMap {
			continue
		}
		d := NewDeriv(w, fn)
		vis := map[ssa.Value]bool{}
		for _, ret := range returnsOf(fn) {
			for _, res := range ret.Results {
				for v := range d.Visited(res) {
					vis[v] = true
				}
			}
		}
		unbound := ""
		k := 0
		allInstrs(fn, func(in ssa.Instruction) {
			lk, ok := in.(*ssa.Lookup)
			if !ok || strip(lk.X) != ssa.Value(fn.Params[0]) {
				return
			}
			// does the looked-up value reach the digest?
			reaches := vis[lk]
			if lk.Referrers() != nil {
				for _, ref := range *lk.Referrers() {
					if ex, ok := ref.(*ssa.Extract); ok && ex.Index == 0 && vis[ex] {
						reaches = true
					}
				}
			}
			if !reaches {
				return
			}
			if _, isConst := lk.Index.(*ssa.Const); isConst {
				return
			}
			k++
			if !vis[lk.Index] && !vis[strip(lk.Index)] {
				unbound = w.Pos(lk.Pos())
			}
		})
		if k == 0 {
			continue
		}
		n++
		r.Fn(fnName(fn))
		r.Check(unbound == "", rule, fnName(fn)+":keys-bound-to-values", w.Pos(fn.Pos()),
			"every value the identity is built from reaches the digest together with the key it was found under",
			"a value looked up by key (at "+unbound+") reaches the identity digest without its key: the identity does not say which value belongs to which key, so members whose key values are permuted ({\"a\":1,\"b\":2} / {\"a\":2,\"b\":1}) count as the same member")
	}
	if n == 0 {
		r.Ok(rule, tag+":identity-keys-bound", "-", "no identity function that looks values up by key: this clause makes no claim (not decided)")
	}
}

// ruleHunkRaw — R-HUNKRAW (C01 under SET / MULTISET: "any shape", so also an
// array replaced by a non-array). A hunk that replaces a whole array is
// checked, when it is applied, against the target read *without* the set
// options — the hunk's path carries no set marker at its end — i.e. against a
// list. Equals between a list and a set/multiset *view* of the same array is
// false (views are distinct node types), so a diff function of the set or the
// multiset must put the raw array into the hunk, never its own view.
func ruleHunkRaw(w *World, r *Report, pkg *ssa.Package, tag string, fields ...string) {
	rule := "R-HUNKRAW"
	if tag != "v2" {
		rule += "(" + tag + ")"
	}
	if len(fields) == 0 {
		fields = []string{"Remove", "Add"}
	}
	isField := func(n string) bool {
		for _, f := range fields {
			if f == n {
				return true
			}
		}
		return false
	}
	n := 0
	for _, fn := range w.FuncsOf(pkg) {
		if fn.Signature.Recv() == nil || !diffSide(fn) {
			continue
		}
		rt := typeName(fn.Signature.Recv().Type())
		if rt != "jsonSet" && rt != "jsonMultiset" {
			continue
		}
		recv := fn.Params[0]
		d := NewDeriv(w, fn)
		k := 0
		allInstrs(fn, func(in ssa.Instruction) {
			st, ok := in.(*ssa.Store)
			if !ok {
				return
			}
			fa, ok := st.Addr.(*ssa.FieldAddr)
			if !ok {
				return
			}
			name := fieldName(fa.X.Type(), fa.Field)
			if !isField(name) {
				return
			}
			view := ""
			for v := range d.Visited(st.Val) {
				mi, ok := v.(*ssa.MakeInterface)
				if !ok {
					continue
				}
				if strip(mi.X) == ssa.Value(recv) && typeName(mi.X.Type()) == rt {
					view = w.Pos(mi.Pos())
				}
			}
			k++
			n++
			r.Fn(fnName(fn))
			r.Check(view == "", rule, fmt.Sprintf("%s:%s#%d", fnName(fn), name, k), w.Pos(st.Pos()),
				"the hunk value does not contain the receiver as a "+rt+" view",
				"the receiver is stored into the hunk as a "+rt+" view (at "+view+"): when the hunk is applied the target at that path is read as a list (no set marker follows), and a list never Equals a "+rt+" view — the diff of an array and a non-array does not apply to the document it was made from")
		})
		// ... nor hand that view to a package function that stores its argument into a hunk (the shared
		// "replace the whole value" helper; seeded change C01-d)
		kc := 0
		allInstrs(fn, func(in ssa.Instruction) {
			c, ok := in.(*ssa.Call)
			if !ok {
				return
			}
			g := staticCallee(c)
			if g == nil || g.Blocks == nil || fnPkg(g) != pkg.Pkg || g == fn {
				return
			}
			for i, a := range c.Call.Args {
				mi, ok := a.(*ssa.MakeInterface)
				if !ok || strip(mi.X) != ssa.Value(recv) || typeName(mi.X.Type()) != rt {
					continue
				}
				if i >= len(g.Params) {
					continue
				}
				kc++
				n++
				where := hunkStoreOfParam(w, g, i, isField, 0)
				r.Check(where == "", rule, fmt.Sprintf("%s:view-handed-to-%s#%d", fnName(fn), g.Name(), kc), w.Pos(c.Pos()),
					"the "+rt+" view handed to "+g.Name()+" does not end up in a hunk",
					"the receiver is handed to "+g.Name()+" as a "+rt+" view and stored into a hunk there (at "+where+"): when the hunk is applied the target at that path is read as a list (no set marker follows), and a list never Equals a "+rt+" view — the diff of an array and a non-array does not apply to the document it was made from")
			}
		})
	}
	if n == 0 {
		r.Ok(rule, tag+":hunk-values", "-", "no hunk value stores found in the set / multiset diffs: this rule makes no claim (not decided)")
	}
}

// hunkStoreOfParam: position of a store into a hunk value field of g whose value derives from g's
// i-th parameter (also through one further package function), or "".
func hunkStoreOfParam(w *World, g *ssa.Function, i int, isField func(string) bool, depth int) string {
	if depth > 2 || i >= len(g.Params) {
		return ""
	}
	d := NewDeriv(w, g)
	where := ""
	allInstrs(g, func(in ssa.Instruction) {
		switch x := in.(type) {
		case *ssa.Store:
			fa, ok := x.Addr.(*ssa.FieldAddr)
			if !ok || !isField(fieldName(fa.X.Type(), fa.Field)) {
				return
			}
			if d.Visited(x.Val)[g.Params[i]] {
				where = w.Pos(x.Pos())
			}
		case *ssa.Call:
			h := staticCallee(x)
			if h == nil || h.Blocks == nil || fnPkg(h) != fnPkg(g) || h == g {
				return
			}
			for j, a := range x.Call.Args {
				if strip(a) == ssa.Value(g.Params[i]) && j < len(h.Params) {
					if p := hunkStoreOfParam(w, h, j, isField, depth+1); p != "" {
						where = p
					}
				}
			}
		}
	})
	return where
}

// ruleRootPath — R-ROOTPATH (C01, C07). Every exported Diff method starts the
// recursion at the root: the path it hands to the unexported diff is empty. A
// path that starts with an element (`make(Path, 1)`) puts a nil element in
// front of every hunk of that diff; the hunk then addresses nothing in the
// document. The entry points are siblings — the same obligation for each node
// type, so that the one that is only reached after a Patch stored a list/set
// view back into the document (jsonList.Diff and friends, which no test calls)
// cannot drift.
func ruleRootPath(w *World, r *Report, pkg *ssa.Package, tag string) {
	const rule = "R-ROOTPATH"
	n := 0
	for _, tn := range w.Implementers(pkg, "JsonNode") {
		fn := w.MethodOpt(pkg, tn.Obj().Name(), "Diff")
		if fn == nil || fn.Blocks == nil {
			continue
		}
		k := 0
		allInstrs(fn, func(in ssa.Instruction) {
			c, ok := in.(ssa.CallInstruction)
			if !ok {
				return
			}
			for _, a := range c.Common().Args {
				if typeName(a.Type()) != "Path" {
					continue
				}
				k++
				n++
				empty := false
				switch x := strip(a).(type) {
				case *ssa.MakeSlice:
					if l, ok := constInt(x.Len); ok && l == 0 {
						empty = true
					}
				case *ssa.Const:
					empty = x.IsNil()
				case *ssa.Slice:
					if al, ok := x.X.(*ssa.Alloc); ok {
						if at, ok := al.Type().(*types.Pointer).Elem().Underlying().(*types.Array); ok && at.Len() == 0 {
							empty = true
						}
					}
				}
				r.Fn(fnName(fn))
				r.Check(empty, rule, fmt.Sprintf("%s:starts-at-root#%d", fnName(fn), k), w.Pos(c.Pos()),
					"the exported Diff hands an empty path to the recursion",
					"the exported Diff starts the recursion with a path that is not empty: every hunk of that diff carries a leading element that addresses nothing in the document")
			}
		})
	}
	if n < 8 {
		r.Bad(rule, tag+":instance-floor", "-", fmt.Sprintf("only %d Diff entry points with a root path found (one per node type expected)", n))
	}
}

// ruleIdentFallback — R-IDENTFALLBACK (C05, C07, C08 under SetKeys; their
// quantifiers do not require every member to carry the keys). The keyed
// identity of an object is built from the values under the set keys; an object
// that has none of them must not share one constant identity with every other
// such object (set diff keeps one member per identity: `[{}]` and
// `[{"v":1},{}]` would diff as equal). The code says so itself — it falls back
// to the full digest "if no keys are present" — and this rule checks that the
// fallback can be reached: the return of the receiver's full digest behind the
// emptiness test of the collected digests must be feasible under the guard
// facts (a list seeded with a constant is never empty).
func ruleIdentFallback(w *World, r *Report, pkg *ssa.Package, tag string) {
	const rule = "R-IDENTFALLBACK"
	n := 0
	for _, fn := range w.FuncsOf(pkg) {
		if canonFnName(fn) != "ident" || len(fn.Params) == 0 {
			continue
		}
		if _, isMap := fn.Params[0].Type().Underlying().(*types.Map); !isMap {
			continue
		}
		fs := NewFacts(fn, closedEnums(w, pkg))
		k := 0
		for _, ret := range returnsOf(fn) {
			if len(ret.Results) != 1 {
				continue
			}
			c, ok := strip(ret.Results[0]).(*ssa.Call)
			if !ok || !isHashCodeCall(c) {
				continue
			}
			// the full digest of the receiver itself
			recvArg := c.Call.Value
			if !c.Call.IsInvoke() && len(c.Call.Args) > 0 {
				recvArg = c.Call.Args[0]
			}
			if strip(recvArg) != ssa.Value(fn.Params[0]) {
				if mi, ok := recvArg.(*ssa.MakeInterface); !ok || strip(mi.X) != ssa.Value(fn.Params[0]) {
					continue
				}
			}
			k++
			n++
			_, reach := fs.At(ret.Block())
			// a guard `len(x) == 0` on a list that is seeded non-empty and only grows decides itself
			for _, b := range fn.Blocks {
				cond, tE, _, okb := branchEdges(b)
				if !okb || !(tE.To() == ret.Block() && len(ret.Block().Preds) == 1 || edgeDominates(tE, ret.Block())) {
					continue
				}
				bo, okc := cond.(*ssa.BinOp)
				if !okc || bo.Op != token.EQL {
					continue
				}
				if kk, okk := constInt(bo.Y); !okk || kk != 0 {
					continue
				}
				if lc, okl := isBuiltinCall(strip(bo.X), "len"); okl && minLenOf(lc.Call.Args[0], map[ssa.Value]bool{}) >= 1 {
					reach = false
				}
			}
			r.Fn(fnName(fn))
			r.Check(reach, rule, fmt.Sprintf("%s:full-digest-fallback#%d", fnName(fn), k), w.Pos(ret.Pos()),
				"the fallback to the object's full digest is reachable",
				"the fallback to the object's full digest can never be taken (its guard contradicts what is known about the collected digests: the list is seeded with a constant and only grows): every object that has none of the set keys gets the same identity, so the set diff keeps only one of them — `[{}]` against `[{\"v\":1},{}]` diffs as equal")
		}
	}
	if n == 0 {
		r.Ok(rule, tag+":identity-fallback", "-", "no identity function with a full-digest fallback: this rule makes no claim (not decided)")
	}
}

// ruleKeyMiss — R-KEYMISS (C07, C08). The diff side names a keyed member by an
// object holding the member's values under the set keys (newPathSetKeys); the
// patch side recomputes that object from each candidate member (pathIdent) and
// compares digests. For a member that lacks one of the keys the two must do
// the same thing — both leave the key out, or both put the same placeholder —
// or the hunk the diff emits for such a member cannot be applied to the very
// document it was made from. Each side is classified by what it does on the
// miss edge of the lookup: writes into the key object, or skips.
func ruleKeyMiss(w *World, r *Report, pkg *ssa.Package, tag string) {
	const rule = "R-KEYMISS"
	classify := func(fn *ssa.Function) (string, bool) {
		if fn == nil || fn.Blocks == nil {
			return "", false
		}
		verdict := ""
		allInstrs(fn, func(in ssa.Instruction) {
			lk, ok := in.(*ssa.Lookup)
			if !ok || !lk.CommaOk {
				return
			}
			// the ok flag's branch
			for _, ref := range *lk.Referrers() {
				ex, ok := ref.(*ssa.Extract)
				if !ok || ex.Index != 1 || ex.Referrers() == nil {
					continue
				}
				for _, r2 := range *ex.Referrers() {
					iff, ok := r2.(*ssa.If)
					if !ok {
						continue
					}
					_, _, fE, okb := branchEdges(iff.Block())
					if !okb {
						continue
					}
					// what happens on the miss edge before control rejoins the hit side?
					miss := fE.To()
					writes := false
					if len(miss.Preds) == 1 {
						for _, i2 := range miss.Instrs {
							if _, isMU := i2.(*ssa.MapUpdate); isMU {
								writes = true
							}
						}
					}
					if writes {
						verdict = "placeholder"
					} else if verdict == "" {
						verdict = "skip"
					}
				}
			}
		})
		return verdict, verdict != ""
	}
	wfn := w.FuncOpt(pkg, "newPathSetKeys")
	var rfn *ssa.Function
	for _, fn := range w.FuncsOf(pkg) {
		if canonFnName(fn) == "pathIdent" {
			rfn = fn
		}
	}
	wv, ok1 := classify(wfn)
	rv, ok2 := classify(rfn)
	key := tag + ":missing-set-key:diff-path-vs-patch-identity"
	if !ok1 || !ok2 {
		r.Ok(rule, key, "-", "the key-object constructors of the diff side and the patch side were not both recognised: this rule makes no claim (not decided)")
		return
	}
	r.Fn(fnName(wfn))
	r.Fn(fnName(rfn))
	r.Check(wv == rv, rule, key, w.Pos(wfn.Pos()),
		"for a member that lacks a set key the diff side and the patch side build the key object the same way ("+wv+")",
		"for a member that lacks a set key the diff side builds the key object with a "+wv+" and the patch side with a "+rv+": the digests never agree, so the hunk the diff emits for such a member (`@ [{\"id\":null},…]`) cannot be applied to the document it was made from")
}

// minLenOf: a lower bound of len(v) for a slice built from a literal and grown by append only.
func minLenOf(v ssa.Value, seen map[ssa.Value]bool) int64 {
	v = strip(v)
	if seen[v] {
		return 1 << 30 // a cycle contributes nothing new
	}
	seen[v] = true
	switch x := v.(type) {
	case *ssa.Slice:
		if x.Low == nil && x.High == nil {
			if al, ok := x.X.(*ssa.Alloc); ok {
				if at, ok := al.Type().(*types.Pointer).Elem().Underlying().(*types.Array); ok {
					return at.Len()
				}
			}
		}
	case *ssa.MakeSlice:
		if k, ok := constInt(x.Len); ok {
			return k
		}
	case *ssa.Call:
		if c, ok := isBuiltinCall(x, "append"); ok {
			return minLenOf(c.Call.Args[0], seen)
		}
	case *ssa.Phi:
		m := int64(1 << 30)
		for _, e := range x.Edges {
			if l := minLenOf(e, seen); l < m {
				m = l
			}
		}
		if m == 1<<30 {
			return 0
		}
		return m
	}
	return 0
}


// cursorCellOfElem: v is list[load cell] (possibly boxed/converted); returns the cell.
func cursorCellOfElem(v ssa.Value) ssa.Value {
	v = strip(v)
	ld, ok := v.(*ssa.UnOp)
	if !ok || ld.Op != token.MUL {
		return nil
	}
	ia, ok := ld.X.(*ssa.IndexAddr)
	if !ok {
		return nil
	}
	il, ok := stripInt(ia.Index).(*ssa.UnOp)
	if !ok || il.Op != token.MUL {
		return nil
	}
	if al, ok := closureCell(il.X).(*ssa.Alloc); ok {
		return al
	}
	return nil
}

// appendArrayElems: the values of a variadic append's second argument when it is a fresh array literal.
func appendArrayElems(c *ssa.Call) []ssa.Value {
	if len(c.Call.Args) != 2 {
		return nil
	}
	sl, ok := strip(c.Call.Args[1]).(*ssa.Slice)
	if !ok {
		return nil
	}
	al, ok := sl.X.(*ssa.Alloc)
	if !ok {
		return nil
	}
	var out []ssa.Value
	for _, ref := range *al.Referrers() {
		if ia, ok := ref.(*ssa.IndexAddr); ok {
			for _, r2 := range *ia.Referrers() {
				if st, ok := r2.(*ssa.Store); ok && st.Addr == ssa.Value(ia) {
					out = append(out, st.Val)
				}
			}
		}
	}
	return out
}

// cellsReadBy: the home function's cells a condition value reads, through local closures.
func cellsReadBy(v ssa.Value, out map[ssa.Value]bool, seenFn map[*ssa.Function]bool, depth int) {
	if depth > 8 || v == nil {
		return
	}
	switch x := v.(type) {
	case *ssa.UnOp:
		if x.Op == token.MUL {
			if al, ok := closureCell(x.X).(*ssa.Alloc); ok {
				out[al] = true
				return
			}
		}
		cellsReadBy(x.X, out, seenFn, depth+1)
	case *ssa.BinOp:
		cellsReadBy(x.X, out, seenFn, depth+1)
		cellsReadBy(x.Y, out, seenFn, depth+1)
	case *ssa.Phi:
		for _, e := range x.Edges {
			cellsReadBy(e, out, seenFn, depth+1)
		}
	case *ssa.Convert:
		cellsReadBy(x.X, out, seenFn, depth+1)
	case *ssa.ChangeType:
		cellsReadBy(x.X, out, seenFn, depth+1)
	case *ssa.IndexAddr:
		cellsReadBy(x.X, out, seenFn, depth+1)
		cellsReadBy(x.Index, out, seenFn, depth+1)
	case *ssa.Index:
		cellsReadBy(x.X, out, seenFn, depth+1)
		cellsReadBy(x.Index, out, seenFn, depth+1)
	case *ssa.Slice:
		cellsReadBy(x.X, out, seenFn, depth+1)
		cellsReadBy(x.Low, out, seenFn, depth+1)
		cellsReadBy(x.High, out, seenFn, depth+1)
	case *ssa.MakeInterface:
		cellsReadBy(x.X, out, seenFn, depth+1)
	case *ssa.Call:
		for _, a := range x.Call.Args {
			cellsReadBy(a, out, seenFn, depth+1)
		}
		if cf := closureValue(x.Call.Value, 0); cf != nil && cf.Parent() != nil && !seenFn[cf] {
			seenFn[cf] = true
			allInstrs(cf, func(in ssa.Instruction) {
				switch y := in.(type) {
				case *ssa.UnOp:
					if y.Op == token.MUL {
						if al, ok := closureCell(y.X).(*ssa.Alloc); ok {
							out[al] = true
						}
					}
				case *ssa.Call:
					cellsReadBy(y, out, seenFn, depth+1)
				}
			})
		}
	}
}

func oneSidedMoves(w *World, r *Report, wf *ssa.Function) {
	const rule = "R-LCSDEP"
	type move struct {
		st   *ssa.Store
		side string
		cell ssa.Value
	}
	var moves []move
	cells := map[string]map[ssa.Value]bool{"Remove": {}, "Add": {}}
	undecided := false
	for _, b := range wf.Blocks {
		for _, in := range b.Instrs {
			st, ok := in.(*ssa.Store)
			if !ok {
				continue
			}
			fa, ok := st.Addr.(*ssa.FieldAddr)
			if !ok {
				continue
			}
			name := fieldName(fa.X.Type(), fa.Field)
			if name != "Remove" && name != "Add" {
				continue
			}
			c, isApp := isBuiltinCall(strip(st.Val), "append")
			if !isApp {
				continue
			}
			elems := appendArrayElems(c)
			if len(elems) != 1 {
				continue
			}
			cell := cursorCellOfElem(elems[0])
			if cell == nil {
				undecided = true
				continue
			}
			cells[name][cell] = true
			moves = append(moves, move{st, name, cell})
		}
	}
	key0 := fnName(wf) + ":one-sided-move"
	if len(moves) == 0 {
		return
	}
	if undecided || len(cells["Remove"]) != 1 || len(cells["Add"]) != 1 {
		r.Ok(rule, key0, w.Pos(wf.Pos()), "the walk does not move list[cursor] elements with one cursor per side: this clause makes no claim (not decided)")
		return
	}
	var cellOf = map[string]ssa.Value{}
	for side, m := range cells {
		for c := range m {
			cellOf[side] = c
		}
	}
	if cellOf["Remove"] == cellOf["Add"] {
		r.Ok(rule, key0, w.Pos(wf.Pos()), "one cursor for both sides: this clause makes no claim (not decided)")
		return
	}
	isCursorStore := func(in ssa.Instruction) bool {
		st, ok := in.(*ssa.Store)
		if !ok {
			return false
		}
		c := closureCell(st.Addr)
		return c == cellOf["Remove"] || c == cellOf["Add"]
	}
	// cursors stored inside closures: decline (R-CURSOR declines as well)
	inClosure := false
	withClosures(wf, func(f *ssa.Function) {
		if f == wf {
			return
		}
		allInstrs(f, func(in ssa.Instruction) {
			if isCursorStore(in) {
				inClosure = true
			}
		})
	})
	if inClosure {
		r.Ok(rule, key0, w.Pos(wf.Pos()), "the cursors are advanced inside a closure: this clause makes no claim (not decided)")
		return
	}
	dirty := map[*ssa.BasicBlock]bool{}
	for _, b := range wf.Blocks {
		for _, in := range b.Instrs {
			if isCursorStore(in) {
				dirty[b] = true
			}
		}
	}
	type br struct {
		tb       *ssa.BasicBlock
		cond     ssa.Value
		tE, fE   Edge
		reads    map[ssa.Value]bool
		sameKind bool
	}
	var brs []br
	for _, tb := range wf.Blocks {
		cond, tE, fE, ok := branchEdges(tb)
		if !ok {
			continue
		}
		x := br{tb: tb, cond: cond, tE: tE, fE: fE, reads: map[ssa.Value]bool{}}
		cellsReadBy(cond, x.reads, map[*ssa.Function]bool{}, 0)
		if cc, isC := cond.(*ssa.Call); isC {
			if sf := staticCallee(cc); sf != nil && w.helperIs(sf, "sameContainerType") {
				x.sameKind = true
			}
		}
		brs = append(brs, x)
	}
	n := map[string]int{}
	for _, m := range moves {
		n[m.side]++
		key := fmt.Sprintf("%s#%s%d", key0, m.side, n[m.side])
		other := cellOf["Add"]
		if m.side == "Add" {
			other = cellOf["Remove"]
		}
		b := m.st.Block()
		why := ""
		for _, x := range brs {
			if x.sameKind {
				continue
			}
			if x.reads[other] && !x.reads[m.cell] && edgeDominates(exhaustedEdge(x.cond, x.tE, x.fE), b) {
				why = "behind a test of the other side's cursor only (" + w.Pos(x.cond.Pos()) + ")"
				break
			}
		}
		if why == "" {
			for _, x := range brs {
				if !x.sameKind || !edgeDominates(x.fE, b) {
					continue
				}
				// is a cursor stored on some path from the false outcome to this append (not through the test again)?
				seen := map[*ssa.BasicBlock]bool{x.tb: true}
				work := []*ssa.BasicBlock{x.fE.To()}
				stale := false
				for len(work) > 0 && !stale {
					y := work[len(work)-1]
					work = work[:len(work)-1]
					if seen[y] {
						continue
					}
					seen[y] = true
					if y == b {
						for _, in := range b.Instrs {
							if in == ssa.Instruction(m.st) {
								break
							}
							if isCursorStore(in) {
								stale = true
							}
						}
						if dirty[b] {
							// leaving b after a cursor store and coming back to it
							rs := map[*ssa.BasicBlock]bool{x.tb: true}
							ws := append([]*ssa.BasicBlock{}, b.Succs...)
							for len(ws) > 0 {
								z := ws[len(ws)-1]
								ws = ws[:len(ws)-1]
								if rs[z] {
									continue
								}
								rs[z] = true
								if z == b {
									stale = true
									break
								}
								ws = append(ws, z.Succs...)
							}
						}
						continue
					}
					if dirty[y] {
						// can b be reached from here without meeting the test again?
						rs := map[*ssa.BasicBlock]bool{x.tb: true}
						ws := append([]*ssa.BasicBlock{}, y.Succs...)
						for len(ws) > 0 {
							z := ws[len(ws)-1]
							ws = ws[:len(ws)-1]
							if rs[z] {
								continue
							}
							rs[z] = true
							if z == b {
								stale = true
								break
							}
							ws = append(ws, z.Succs...)
						}
					}
					work = append(work, y.Succs...)
				}
				if !stale {
					why = "behind the false outcome of the same-kind test for the cursors as they stand"
					break
				}
			}
		}
		r.Check(why != "", rule, key, w.Pos(m.st.Pos()),
			"an element is moved into "+m.side+" "+why,
			"list[cursor] is moved into "+m.side+" where neither the other side is known to have nothing to pair it with (no dominating test of the other cursor alone) nor the same-kind test has answered false for the cursors as they stand (a cursor is advanced between that test and this append, or there is no such test): a same-kind container standing at the same position further on is replaced wholesale instead of being diffed recursively")
	}
}


// exhaustedEdge: the outcome of a cursor test on which the tested side has nothing (more) to offer at
// this position: the true outcome of a predicate call (endX(), atCommonX()) and of `cursor == n`,
// `cursor >= n`, `cursor > n`; the false outcome of `cursor != n`, `cursor < n`, `cursor <= n`
// (mirrored when the cursor stands on the right).
func exhaustedEdge(cond ssa.Value, tE, fE Edge) Edge {
	bo, ok := cond.(*ssa.BinOp)
	if !ok {
		return tE
	}
	op := bo.Op
	left := map[ssa.Value]bool{}
	cellsReadBy(bo.X, left, map[*ssa.Function]bool{}, 0)
	if len(left) == 0 {
		op = swapOp(op)
	}
	switch op {
	case token.EQL, token.GEQ, token.GTR:
		return tE
	}
	return fE
}


// freshMapValue: v is a map made here and now: a make/literal, or the result of a package function all
// of whose returns are.
func freshMapValue(v ssa.Value, depth int) bool {
	switch x := strip(v).(type) {
	case *ssa.MakeMap:
		return true
	case *ssa.Call:
		g := staticCallee(x)
		if g == nil || g.Blocks == nil || depth > 2 {
			return false
		}
		rets := returnsOf(g)
		if len(rets) == 0 {
			return false
		}
		for _, ret := range rets {
			if len(ret.Results) != 1 || !freshMapValue(ret.Results[0], depth+1) {
				return false
			}
		}
		return true
	}
	return false
}
