#!/bin/bash
# records the non-discharged obligations of the unchanged tree per property (for seedcheck.sh)
for p in "$@"; do ${JDLINT:-/verif/bin/jdlint} -property $p -root /repo -json | python3 -c "
import sys,json
for l in sys.stdin:
    if l.startswith('{'):
        d=json.loads(l); json.dump([[o['rule'],o['construct']] for o in (d['bad'] or [])],open('/tmp/baseline_bad_$p.json','w')); print('$p',len(d['bad'] or []))
"; done
