package main

import (
	"fmt"
	"go/token"
	"go/types"
	"os"
	"sort"

	"golang.org/x/tools/go/ssa"
)

// Purity engine (rule R-PURE).
//
// For every function it computes which of its parameters' memory the function
// may write to, by a fixpoint over the call graph. Abstract storage tokens:
//
//	tFresh        allocated in this function (or returned fresh by a callee)
//	tGlobal       package-level state / unresolved
//	top(k)        the top-level storage parameter #k refers to (the backing
//	              array of a slice, the map, the pointee; for a struct passed
//	              by value: the storage its fields refer to)
//	deep(k)       anything reachable below top(k)
//
// Every reference value v has pts(v) — the storage it refers to directly — and
// deep(v) — everything reachable below that, transitively. Loading an element
// out of a container C yields a value x with pts(x) = deep(C): one level and
// all deeper levels are conflated (over-approximation).
//
// A write is a Store through a slice element / pointer field, a map update or
// delete, copy(), clear(), append onto a re-sliced prefix, or a call that
// mutates one of its arguments (in-package callee by summary; external by the
// frozen table).

const (
	tFresh  = -1
	tGlobal = -2
)

func tTop(k int) int  { return 2 * k }
func tDeep(k int) int { return 2*k + 1 }

type oset map[int]bool

func (a oset) addAll(b oset) {
	for k := range b {
		a[k] = true
	}
}

func (a oset) String() string {
	var ks []int
	for k := range a {
		ks = append(ks, k)
	}
	sort.Ints(ks)
	s := "{"
	for i, k := range ks {
		if i > 0 {
			s += ","
		}
		switch {
		case k == tFresh:
			s += "fresh"
		case k == tGlobal:
			s += "global"
		case k%2 == 0:
			s += fmt.Sprintf("top(%d)", k/2)
		default:
			s += fmt.Sprintf("deep(%d)", k/2)
		}
	}
	return s + "}"
}

type writeSite struct {
	Pos  token.Pos // where it surfaces in the summarised function
	Leaf string    // position of the actual write
	What string
	Via  string
}

type fnSummary struct {
	mutates map[int]*writeSite // token (top/deep/global) -> witness
	retPts  []oset
	retDeep []oset
}

type Purity struct {
	w       *World
	sums    map[*ssa.Function]*fnSummary
	family  map[*ssa.Function]bool
	changed bool
}

// external functions that write through an argument (index into Args,
// receiver first for methods). Everything else outside the analysed packages
// is assumed to read its arguments only (recorded as an assumption).
var externalMutators = map[string][]int{
	"sort.Sort": {0}, "sort.Stable": {0}, "sort.Strings": {0}, "sort.Ints": {0}, "sort.Float64s": {0},
	"sort.Slice": {0}, "sort.SliceStable": {0},
	"slices.Sort": {0}, "slices.SortFunc": {0}, "slices.SortStableFunc": {0}, "slices.Reverse": {0},
	"slices.Delete": {0}, "slices.DeleteFunc": {0}, "slices.Insert": {0}, "slices.Compact": {0}, "slices.CompactFunc": {0}, "slices.Replace": {0},
	"golang.org/x/exp/slices.Sort": {0}, "golang.org/x/exp/slices.SortFunc": {0}, "golang.org/x/exp/slices.SortStableFunc": {0},
	"golang.org/x/exp/slices.Reverse": {0}, "golang.org/x/exp/slices.Delete": {0}, "golang.org/x/exp/slices.Insert": {0},
	"golang.org/x/exp/slices.Compact": {0}, "golang.org/x/exp/slices.CompactFunc": {0}, "golang.org/x/exp/slices.Replace": {0},
	"maps.Copy": {0}, "maps.DeleteFunc": {0}, "golang.org/x/exp/maps.Copy": {0}, "golang.org/x/exp/maps.DeleteFunc": {0}, "golang.org/x/exp/maps.Clear": {0},
	"math/rand.Shuffle": {}, "encoding/json.Unmarshal": {1}, "gopkg.in/yaml.v2.Unmarshal": {1},
	"encoding/binary.Write": {0}, "(encoding/binary.littleEndian).PutUint64": {1},
	"(*bytes.Buffer).Write": {0}, "(*bytes.Buffer).WriteString": {0}, "(*bytes.Buffer).WriteRune": {0}, "(*bytes.Buffer).WriteByte": {0},
	"(*strings.Builder).Write": {0}, "(*strings.Builder).WriteString": {0}, "(*strings.Builder).WriteRune": {0}, "(*strings.Builder).WriteByte": {0},
}

func NewPurity(w *World, family map[*ssa.Function]bool) *Purity {
	return &Purity{w: w, sums: map[*ssa.Function]*fnSummary{}, family: family}
}

func isRefType(t types.Type) bool {
	switch u := t.Underlying().(type) {
	case *types.Slice, *types.Map, *types.Pointer, *types.Interface, *types.Chan, *types.Signature:
		return true
	case *types.Struct:
		for i := 0; i < u.NumFields(); i++ {
			if isRefType(u.Field(i).Type()) {
				return true
			}
		}
	case *types.Array:
		return isRefType(u.Elem())
	case *types.Tuple:
		for i := 0; i < u.Len(); i++ {
			if isRefType(u.At(i).Type()) {
				return true
			}
		}
	}
	return false
}

func (p *Purity) summary(fn *ssa.Function) *fnSummary {
	if s, ok := p.sums[fn]; ok {
		return s
	}
	n := fn.Signature.Results().Len()
	s := &fnSummary{mutates: map[int]*writeSite{}, retPts: make([]oset, n), retDeep: make([]oset, n)}
	for i := 0; i < n; i++ {
		s.retPts[i], s.retDeep[i] = oset{}, oset{}
	}
	p.sums[fn] = s
	p.changed = true
	return s
}

func (p *Purity) inPackages(fn *ssa.Function) bool {
	pk := fnPkg(fn)
	if pk == nil {
		return false
	}
	switch pk.Path() {
	case pathV2, pathLib:
		return true
	}
	return false
}

// Solve computes summaries for everything reachable from entries.
func (p *Purity) Solve(entries []*ssa.Function) {
	work := map[*ssa.Function]bool{}
	var order []*ssa.Function
	var visit func(fn *ssa.Function)
	visit = func(fn *ssa.Function) {
		if fn == nil || work[fn] || fn.Blocks == nil || !p.inPackages(fn) || fn.Parent() != nil {
			return
		}
		work[fn] = true
		order = append(order, fn)
		if p.family[fn] {
			return
		}
		withClosures(fn, func(f *ssa.Function) {
			allInstrs(f, func(in ssa.Instruction) {
				c, ok := in.(ssa.CallInstruction)
				if !ok {
					return
				}
				for _, callee := range p.w.implementations(c) {
					visit(callee)
				}
			})
		})
	}
	for _, e := range entries {
		visit(e)
	}
	sort.Slice(order, func(i, j int) bool { return fnName(order[i]) < fnName(order[j]) })
	for iter := 0; iter < 60; iter++ {
		p.changed = false
		for _, fn := range order {
			p.analyse(fn)
		}
		if !p.changed {
			return
		}
	}
	infra("purity fixpoint did not converge")
}

// fnCtx is the per-function analysis state.
type fnCtx struct {
	p      *Purity
	fn     *ssa.Function
	d      *Deriv // cell resolution only
	stores map[ssa.Value][]ssa.Value
	fstore map[ssa.Value]map[int][]ssa.Value // struct allocs: per-field stores
	copies map[ssa.Value][]ssa.Value         // creation site -> slices whose elements copy() put there
	memoP  map[ssa.Value]oset
	memoD  map[ssa.Value]oset
	actP   map[ssa.Value]bool
	actD   map[ssa.Value]bool
}

func (p *Purity) newCtx(fn *ssa.Function) *fnCtx {
	c := &fnCtx{p: p, fn: fn, d: NewDeriv(p.w, fn), stores: map[ssa.Value][]ssa.Value{}, fstore: map[ssa.Value]map[int][]ssa.Value{}, copies: map[ssa.Value][]ssa.Value{},
		memoP: map[ssa.Value]oset{}, memoD: map[ssa.Value]oset{}, actP: map[ssa.Value]bool{}, actD: map[ssa.Value]bool{}}
	type through struct {
		base ssa.Value
		val  []ssa.Value
	}
	var pending []through
	var copied []through
	withClosures(fn, func(f *ssa.Function) {
		allInstrs(f, func(in ssa.Instruction) {
			switch s := in.(type) {
			case ssa.CallInstruction:
				// copy(dst, src): dst's storage now holds src's elements (shallow: what they refer to is shared)
				if b, ok := s.Common().Value.(*ssa.Builtin); ok && b.Name() == "copy" && len(s.Common().Args) == 2 {
					copied = append(copied, through{c.d.cell(s.Common().Args[0]), []ssa.Value{s.Common().Args[1]}})
				}
			case *ssa.Store:
				c.recordStore(c.d.cell(s.Addr), s.Val, func(base ssa.Value) {
					pending = append(pending, through{base, []ssa.Value{s.Val}})
				})
			case *ssa.MapUpdate:
				pending = append(pending, through{c.d.cell(s.Map), []ssa.Value{s.Value, s.Key}})
			}
		})
	})
	// stores through a value (slice element, map entry, pointee) are filed
	// under every creation site that value may denote
	for _, t := range pending {
		for site := range c.sites(t.base, map[ssa.Value]bool{}) {
			c.stores[site] = append(c.stores[site], t.val...)
		}
	}
	for _, t := range copied {
		for site := range c.sites(t.base, map[ssa.Value]bool{}) {
			c.copies[site] = append(c.copies[site], t.val...)
		}
	}
	return c
}

// recordStore files a store: into a local variable (Alloc, possibly a field
// or an element of a local array/struct), or through a value (callback).
func (c *fnCtx) recordStore(addr ssa.Value, val ssa.Value, through func(base ssa.Value)) {
	switch a := addr.(type) {
	case *ssa.Alloc:
		c.stores[a] = append(c.stores[a], val)
	case *ssa.FieldAddr:
		base := c.d.cell(a.X)
		switch b := base.(type) {
		case *ssa.Alloc:
			if c.fstore[b] == nil {
				c.fstore[b] = map[int][]ssa.Value{}
			}
			c.fstore[b][a.Field] = append(c.fstore[b][a.Field], val)
		case *ssa.FieldAddr, *ssa.IndexAddr:
			c.recordStore(b, val, through)
		default:
			through(base)
		}
	case *ssa.IndexAddr:
		base := c.d.cell(a.X)
		if _, isPtr := a.X.Type().Underlying().(*types.Pointer); isPtr {
			switch b := base.(type) {
			case *ssa.Alloc:
				c.stores[b] = append(c.stores[b], val)
			case *ssa.FieldAddr, *ssa.IndexAddr:
				c.recordStore(b, val, through)
			default:
				through(base)
			}
			return
		}
		through(base)
	default:
		through(addr)
	}
}

// sites: the creation sites (MakeSlice, MakeMap, Alloc, calls, parameters)
// whose storage the reference value v may denote.
func (c *fnCtx) sites(v ssa.Value, seen map[ssa.Value]bool) map[ssa.Value]bool {
	out := map[ssa.Value]bool{}
	var walk func(v ssa.Value)
	walk = func(v ssa.Value) {
		if v == nil {
			return
		}
		v = c.d.cell(v)
		if seen[v] {
			return
		}
		seen[v] = true
		switch x := v.(type) {
		case *ssa.Phi:
			for _, e := range x.Edges {
				walk(e)
			}
		case *ssa.Slice:
			walk(x.X)
		case *ssa.ChangeType:
			walk(x.X)
		case *ssa.Convert:
			walk(x.X)
		case *ssa.MakeInterface:
			walk(x.X)
		case *ssa.ChangeInterface:
			walk(x.X)
		case *ssa.TypeAssert:
			walk(x.X)
		case *ssa.Extract:
			if ta, ok := x.Tuple.(*ssa.TypeAssert); ok {
				walk(ta.X)
			} else {
				out[v] = true
			}
		case *ssa.UnOp:
			if x.Op == token.MUL {
				if al, ok := c.d.cell(x.X).(*ssa.Alloc); ok {
					// local variable: the values assigned to it (variable
					// stores are recorded before through-stores are filed)
					for _, sv := range c.stores[al] {
						walk(sv)
					}
					return
				}
			}
			out[v] = true
		case *ssa.Call:
			out[v] = true
			if b, ok := x.Call.Value.(*ssa.Builtin); ok && b.Name() == "append" {
				walk(x.Call.Args[0]) // may still be the old backing array
			}
		default:
			out[v] = true
		}
	}
	walk(v)
	return out
}

func (p *Purity) analyse(fn *ssa.Function) {
	s := p.summary(fn)
	if p.family[fn] {
		// patch family: by contract mutates the node it is applied to and
		// nothing else (R-PURE/patch checks the bodies); what it returns is
		// the patched node.
		for _, t := range []int{tTop(0), tDeep(0)} {
			if _, ok := s.mutates[t]; !ok {
				s.mutates[t] = &writeSite{Pos: fn.Pos(), Leaf: p.w.Pos(fn.Pos()), What: "patch applies the hunk to its receiver in place"}
				p.changed = true
			}
		}
		for i := range s.retPts {
			for _, t := range []int{tFresh, tTop(0), tDeep(0)} {
				if !s.retPts[i][t] || !s.retDeep[i][t] {
					s.retPts[i][t], s.retDeep[i][t] = true, true
					p.changed = true
				}
			}
		}
		return
	}
	c := p.newCtx(fn)
	record := func(os oset, site *writeSite) {
		if debugPureFn != "" && fnName(fn) == debugPureFn {
			fmt.Printf("WRITE in %s: %v %s @%s via %s\n", debugPureFn, os, site.What, site.Leaf, site.Via)
		}
		for o := range os {
			if o == tFresh {
				continue
			}
			if _, ok := s.mutates[o]; !ok {
				s.mutates[o] = site
				p.changed = true
			}
		}
	}
	withClosures(fn, func(f *ssa.Function) {
		allInstrs(f, func(in ssa.Instruction) {
			switch x := in.(type) {
			case *ssa.Store:
				if tgt := c.storeTarget(x.Addr); tgt != nil {
					record(tgt, &writeSite{Pos: x.Pos(), Leaf: p.w.Pos(x.Pos()), What: "store through " + valueName(storeRoot(x.Addr))})
				}
			case *ssa.MapUpdate:
				record(c.pts(x.Map), &writeSite{Pos: x.Pos(), Leaf: p.w.Pos(x.Pos()), What: "map update"})
			case ssa.CallInstruction:
				c.callWrites(x, record)
			}
		})
	})
	for _, r := range returnsOf(fn) {
		for i, rv := range r.Results {
			if !isRefType(rv.Type()) {
				continue
			}
			pt, dp := c.pts(rv), c.deep(rv)
			if debugPureFn != "" && fnName(fn) == debugPureFn {
				fmt.Printf("RET in %s: #%d %s pts=%v deep=%v\n", debugPureFn, i, rv.Name(), pt, dp)
			}
			for o := range pt {
				if !s.retPts[i][o] {
					s.retPts[i][o] = true
					p.changed = true
				}
			}
			for o := range dp {
				if !s.retDeep[i][o] {
					s.retDeep[i][o] = true
					p.changed = true
				}
			}
		}
	}
}

// storeTarget: tokens of the storage a Store writes; nil for stores into the
// function's own local variables.
func (c *fnCtx) storeTarget(addr ssa.Value) oset {
	addr = c.d.cell(addr)
	switch a := addr.(type) {
	case *ssa.Alloc:
		return nil
	case *ssa.FieldAddr:
		base := c.d.cell(a.X)
		switch base.(type) {
		case *ssa.Alloc, *ssa.FieldAddr, *ssa.IndexAddr:
			return c.storeTarget(base)
		}
		return c.pts(base) // field of a struct behind a pointer value
	case *ssa.IndexAddr:
		if _, isPtr := a.X.Type().Underlying().(*types.Pointer); isPtr {
			base := c.d.cell(a.X)
			switch base.(type) {
			case *ssa.Alloc, *ssa.FieldAddr, *ssa.IndexAddr:
				return c.storeTarget(base)
			}
			return c.pts(base)
		}
		return c.pts(a.X) // element of a slice
	case *ssa.Global:
		return oset{tGlobal: true}
	}
	return c.pts(addr)
}

func (c *fnCtx) paramIndex(p *ssa.Parameter) int {
	for i, q := range c.fn.Params {
		if q == p {
			return i
		}
	}
	return -1
}

func (c *fnCtx) pts(v ssa.Value) oset  { return c.eval(v, false) }
func (c *fnCtx) deep(v ssa.Value) oset { return c.eval(v, true) }

// elem: tokens of a value loaded out of container/pointee C (any level).
func (c *fnCtx) elem(C ssa.Value) oset { return c.deep(C) }

func (c *fnCtx) eval(v ssa.Value, dm bool) oset {
	out := oset{}
	if v == nil {
		return out
	}
	v = c.d.cell(v)
	memo, act := c.memoP, c.actP
	if dm {
		memo, act = c.memoD, c.actD
	}
	if m, ok := memo[v]; ok {
		return m
	}
	if act[v] {
		return out
	}
	act[v] = true
	defer func() { delete(act, v) }()
	if !isRefType(v.Type()) {
		if _, isAddr := v.(*ssa.Alloc); !isAddr {
			memo[v] = out
			return out
		}
	}
	un := func(x ssa.Value) { out.addAll(c.eval(x, dm)) }
	switch x := v.(type) {
	case *ssa.Parameter:
		if i := c.paramIndex(x); i >= 0 {
			if dm {
				out[tDeep(i)] = true
			} else {
				out[tTop(i)] = true
			}
		} else {
			for _, a := range c.closureArgs(x) {
				un(a)
			}
		}
	case *ssa.FreeVar, *ssa.Global:
		out[tGlobal] = true
	case *ssa.Const, *ssa.Function:
	case *ssa.Alloc:
		if !dm {
			out[tFresh] = true
		} else {
			c.storedTokens(x, out)
		}
	case *ssa.MakeSlice, *ssa.MakeMap, *ssa.MakeChan:
		if !dm {
			out[tFresh] = true
		} else {
			c.storedTokens(v, out)
		}
	case *ssa.MakeClosure:
		if !dm {
			out[tFresh] = true
		}
	case *ssa.Phi:
		for _, e := range x.Edges {
			un(e)
		}
	case *ssa.ChangeType:
		un(x.X)
	case *ssa.Convert:
		if isRefType(x.X.Type()) {
			un(x.X)
		} else if !dm {
			out[tFresh] = true
		}
	case *ssa.ChangeInterface:
		un(x.X)
	case *ssa.MakeInterface:
		un(x.X)
	case *ssa.SliceToArrayPointer:
		un(x.X)
	case *ssa.TypeAssert:
		un(x.X)
	case *ssa.Slice:
		if _, isPtr := x.X.Type().Underlying().(*types.Pointer); isPtr {
			out.addAll(c.evalAddr(x.X, dm))
		} else {
			un(x.X)
		}
	case *ssa.Extract:
		switch t := x.Tuple.(type) {
		case *ssa.TypeAssert:
			un(t.X)
		case *ssa.Next:
			if rg, ok := t.Iter.(*ssa.Range); ok {
				out.addAll(c.elem(rg.X))
			}
		case *ssa.Lookup:
			out.addAll(c.elem(t.X))
		case *ssa.Call:
			out.addAll(c.callResult(t, x.Index, dm))
			if dm {
				c.storedTokens(v, out)
			}
		default:
			out[tGlobal] = true
		}
	case *ssa.UnOp:
		if x.Op == token.MUL {
			out.addAll(c.load(x.X, dm))
		} else {
			un(x.X)
		}
	case *ssa.Field:
		un(x.X)
	case *ssa.Index:
		out.addAll(c.elem(x.X))
	case *ssa.Lookup:
		out.addAll(c.elem(x.X))
	case *ssa.FieldAddr, *ssa.IndexAddr:
		out.addAll(c.evalAddr(v, dm))
	case *ssa.Call:
		out.addAll(c.callResult(x, 0, dm))
		if dm {
			c.storedTokens(x, out)
		}
	case *ssa.BinOp:
		if !dm {
			out[tFresh] = true
		}
	default:
		out[tGlobal] = true
	}
	memo[v] = out
	return out
}

// storedTokens: pts ∪ deep of every value stored into the storage rooted at root.
func (c *fnCtx) storedTokens(root ssa.Value, out oset) {
	add := func(sv ssa.Value) {
		if isRefType(sv.Type()) {
			out.addAll(c.pts(sv))
			out.addAll(c.deep(sv))
		}
	}
	for _, sv := range c.stores[root] {
		add(sv)
	}
	for _, svs := range c.fstore[root] {
		for _, sv := range svs {
			add(sv)
		}
	}
	for _, src := range c.copies[root] {
		out.addAll(c.deep(src))
	}
}

// load: tokens of the value read from address addr.
func (c *fnCtx) load(addr ssa.Value, dm bool) oset {
	out := oset{}
	addr = c.d.cell(addr)
	switch a := addr.(type) {
	case *ssa.Alloc:
		// a local variable: the values assigned to it
		for _, sv := range c.stores[a] {
			if isRefType(sv.Type()) {
				out.addAll(c.eval(sv, dm))
			}
		}
		for _, svs := range c.fstore[a] {
			for _, sv := range svs {
				if isRefType(sv.Type()) {
					out.addAll(c.eval(sv, dm))
				}
			}
		}
	case *ssa.FieldAddr:
		base := c.d.cell(a.X)
		if al, ok := base.(*ssa.Alloc); ok {
			// field of a local struct: stores to that field, plus the
			// corresponding part of whole-struct stores
			for _, sv := range c.fstore[al][a.Field] {
				if isRefType(sv.Type()) {
					out.addAll(c.eval(sv, dm))
				}
			}
			for _, sv := range c.stores[al] {
				if isRefType(sv.Type()) {
					out.addAll(c.eval(sv, dm))
				}
			}
			return out
		}
		switch base.(type) {
		case *ssa.FieldAddr, *ssa.IndexAddr:
			return c.load(base, dm)
		}
		out.addAll(c.elem(base)) // through a pointer value
	case *ssa.IndexAddr:
		if _, isPtr := a.X.Type().Underlying().(*types.Pointer); isPtr {
			base := c.d.cell(a.X)
			switch base.(type) {
			case *ssa.Alloc, *ssa.FieldAddr, *ssa.IndexAddr:
				return c.load(base, dm)
			}
			out.addAll(c.elem(base))
			return out
		}
		out.addAll(c.elem(a.X))
	case *ssa.Global:
		out[tGlobal] = true
	default:
		out.addAll(c.elem(addr))
	}
	return out
}

// evalAddr: tokens of the storage an address points into.
func (c *fnCtx) evalAddr(addr ssa.Value, dm bool) oset {
	addr = c.d.cell(addr)
	switch a := addr.(type) {
	case *ssa.Alloc:
		return c.eval(a, dm)
	case *ssa.FieldAddr:
		base := c.d.cell(a.X)
		switch base.(type) {
		case *ssa.Alloc, *ssa.FieldAddr, *ssa.IndexAddr:
			return c.evalAddr(base, dm)
		}
		return c.eval(base, dm)
	case *ssa.IndexAddr:
		if _, isPtr := a.X.Type().Underlying().(*types.Pointer); isPtr {
			return c.evalAddr(a.X, dm)
		}
		return c.eval(a.X, dm)
	}
	return c.eval(addr, dm)
}

func (c *fnCtx) closureArgs(p *ssa.Parameter) []ssa.Value {
	cl := p.Parent()
	idx := -1
	for i, q := range cl.Params {
		if q == p {
			idx = i
		}
	}
	var out []ssa.Value
	withClosures(c.fn, func(f *ssa.Function) {
		allInstrs(f, func(in ssa.Instruction) {
			ci, ok := in.(ssa.CallInstruction)
			if !ok {
				return
			}
			if sf := staticCallee(ci); sf == cl && idx >= 0 && idx < len(ci.Common().Args) {
				out = append(out, ci.Common().Args[idx])
			}
		})
	})
	return out
}

// mapTokens translates a callee-side token set to the caller's tokens.
func (c *fnCtx) mapTokens(call ssa.CallInstruction, callee *ssa.Function, ts oset) oset {
	out := oset{}
	for t := range ts {
		switch {
		case t == tFresh || t == tGlobal:
			out[t] = true
		default:
			arg := c.argFor(call, callee, t/2)
			if arg == nil {
				continue
			}
			if t%2 == 0 {
				out.addAll(c.pts(arg))
			} else {
				out.addAll(c.deep(arg))
			}
		}
	}
	return out
}

// callResult: pts/deep of result #idx of a call.
func (c *fnCtx) callResult(call *ssa.Call, idx int, dm bool) oset {
	out := oset{}
	com := &call.Call
	if b, ok := com.Value.(*ssa.Builtin); ok {
		switch b.Name() {
		case "append":
			if !dm {
				out[tFresh] = true
				out.addAll(c.pts(com.Args[0]))
			} else {
				out.addAll(c.deep(com.Args[0]))
				if len(com.Args) > 1 {
					out.addAll(c.deep(com.Args[1]))
				}
			}
		default:
			if !dm {
				out[tFresh] = true
			}
		}
		return out
	}
	if sf := staticCallee(call); sf != nil && sf.Parent() != nil {
		for _, r := range returnsOf(sf) {
			if idx < len(r.Results) {
				out.addAll(c.eval(r.Results[idx], dm))
			}
		}
		return out
	}
	known := false
	for _, callee := range c.p.w.implementations(call) {
		if callee.Blocks == nil || !c.p.inPackages(callee) {
			continue
		}
		known = true
		s := c.p.summary(callee)
		if idx >= len(s.retPts) {
			continue
		}
		if dm {
			out.addAll(c.mapTokens(call, callee, s.retDeep[idx]))
		} else {
			out.addAll(c.mapTokens(call, callee, s.retPts[idx]))
		}
	}
	if !known {
		// external: fresh, or an alias of / drawn from any reference argument
		if !dm {
			out[tFresh] = true
		}
		args := append([]ssa.Value{}, com.Args...)
		if com.IsInvoke() {
			args = append(args, com.Value)
		}
		for _, a := range args {
			if isRefType(a.Type()) {
				out.addAll(c.pts(a))
				out.addAll(c.deep(a))
			}
		}
	}
	return out
}

// argFor maps a callee parameter index (receiver first) to the call argument.
func (c *fnCtx) argFor(call ssa.CallInstruction, callee *ssa.Function, pi int) ssa.Value {
	com := call.Common()
	if com.IsInvoke() {
		if pi == 0 {
			return com.Value
		}
		if pi-1 < len(com.Args) {
			return com.Args[pi-1]
		}
		return nil
	}
	if pi < len(com.Args) {
		return com.Args[pi]
	}
	return nil
}

func (c *fnCtx) callWrites(call ssa.CallInstruction, record func(oset, *writeSite)) {
	com := call.Common()
	leaf := c.p.w.Pos(call.Pos())
	if b, ok := com.Value.(*ssa.Builtin); ok {
		switch b.Name() {
		case "delete", "copy", "clear":
			record(c.pts(com.Args[0]), &writeSite{Pos: call.Pos(), Leaf: leaf, What: b.Name() + "() on " + valueName(strip(com.Args[0]))})
		case "append":
			if sl, ok := com.Args[0].(*ssa.Slice); ok && sl.High != nil {
				record(c.pts(sl.X), &writeSite{Pos: call.Pos(), Leaf: leaf, What: "append onto a re-sliced prefix overwrites the elements behind it"})
			} else if prefixReslice(c.p.w, com.Args[0], 0, map[ssa.Value]bool{}) {
				// the prefix was cut by a helper (x.drop(), a phi of re-slices):
				// the storage written is whatever the value refers to
				record(c.pts(com.Args[0]), &writeSite{Pos: call.Pos(), Leaf: leaf, What: "append onto a re-sliced prefix (cut by " + valueName(strip(com.Args[0])) + ") overwrites the elements behind it"})
			}
		}
		return
	}
	if sf := staticCallee(call); sf != nil && sf.Parent() != nil {
		return // closure bodies are analysed as part of this function
	}
	name := calleeFullName(call)
	if idxs, ok := externalMutators[name]; ok {
		for _, i := range idxs {
			if i < len(com.Args) {
				record(c.pts(com.Args[i]), &writeSite{Pos: call.Pos(), Leaf: leaf, What: "call to in-place mutator " + name})
			}
		}
		return
	}
	for _, callee := range c.p.w.implementations(call) {
		if callee.Blocks == nil || !c.p.inPackages(callee) {
			continue
		}
		s := c.p.summary(callee)
		for t, site := range s.mutates {
			tg := c.mapTokens(call, callee, oset{t: true})
			via := fnName(callee)
			if site.Via != "" {
				via += " → " + site.Via
			}
			record(tg, &writeSite{Pos: call.Pos(), Leaf: site.Leaf, What: site.What, Via: via})
		}
	}
}

var debugPureFn = os.Getenv("JDLINT_DEBUG_PURE")

func (p *Purity) debugDump() {
	var fns []*ssa.Function
	for f := range p.sums {
		fns = append(fns, f)
	}
	sort.Slice(fns, func(i, j int) bool { return fnName(fns[i]) < fnName(fns[j]) })
	for _, f := range fns {
		s := p.sums[f]
		fmt.Printf("SUM %-40s retPts=%v retDeep=%v mut=", fnName(f), s.retPts, s.retDeep)
		for k, site := range s.mutates {
			fmt.Printf("[%v: %s @%s via %s] ", oset{k: true}, site.What, site.Leaf, site.Via)
		}
		fmt.Println()
	}
}

func pureEntries(w *World, pkg *ssa.Package, nt *nodeTypes) []*ssa.Function {
	var entries []*ssa.Function
	for _, t := range nt.names {
		for _, m := range []string{"Json", "Yaml", "Equals", "Diff"} {
			entries = append(entries, nt.method(t, m))
		}
	}
	for _, tm := range [][2]string{{"DiffElement", "Render"}, {"Diff", "Render"}, {"Diff", "RenderPatch"}, {"Diff", "RenderMerge"}, {"Metadata", "Render"}} {
		entries = append(entries, w.Method(pkg, tm[0], tm[1]))
	}
	return entries
}

// rulePure: the read-only API does not write through its inputs.
func rulePure(w *World, r *Report, pkg *ssa.Package, pf *patchFamily) {
	rulePureEntries(w, r, pkg, pf, nil)
}

// rulePureEntries: only the named entry points ("Type.Method") when only != nil.
func rulePureEntries(w *World, r *Report, pkg *ssa.Package, pf *patchFamily, only map[string]bool) {
	const rule = "R-PURE"
	nt := newNodeTypes(w, pkg, "v2")
	entries := pureEntries(w, pkg, nt)
	if only != nil {
		var sel []*ssa.Function
		for _, e := range entries {
			if e.Signature.Recv() != nil && only[typeName(e.Signature.Recv().Type())+"."+e.Name()] {
				sel = append(sel, e)
			}
		}
		if len(sel) != len(only) {
			infra("R-PURE: %d of %d requested entry points found", len(sel), len(only))
		}
		entries = sel
	}
	family := map[*ssa.Function]bool{}
	for f := range pf.member {
		family[f] = true
	}
	family[pf.driver] = true
	for _, t := range nt.names {
		family[nt.method(t, "Patch")] = true
	}
	p := NewPurity(w, family)
	p.Solve(entries)
	if debugPureFn != "" {
		p.debugDump()
	}
	for _, e := range entries {
		r.Fn(fnName(e))
		s := p.summary(e)
		key := fnName(e)
		pos := w.Pos(e.Pos())
		if len(s.mutates) == 0 {
			r.Ok(rule, key, pos, "no reachable instruction writes memory reachable from the receiver or the arguments")
			continue
		}
		var idxs []int
		for k := range s.mutates {
			idxs = append(idxs, k)
		}
		sort.Ints(idxs)
		k := idxs[len(idxs)-1]
		site := s.mutates[k]
		who := "package-level state"
		if k >= 0 && k/2 < len(e.Params) {
			who = "its " + valueName(e.Params[k/2])
		}
		via := ""
		if site.Via != "" {
			via = " (reached via " + site.Via + ")"
		}
		r.Bad(rule, key, site.Leaf, fmt.Sprintf("may write into memory reachable from %s: %s at %s%s — a later call on the same value sees the change", who, site.What, site.Leaf, via))
	}
	r.Note("R-PURE analysed %d functions reachable from %d read-only entry points", len(p.sums), len(entries))
	if only == nil {
		rulePurePatch(w, r, pf, family)
	}
}

// rulePurePatch: inside the patch family no write goes through the hunk's own
// slices (before/old/new/after/pathAhead): Patch must not damage the diff it
// applies.
func rulePurePatch(w *World, r *Report, pf *patchFamily, fam map[*ssa.Function]bool) {
	const rule = "R-PURE/patch"
	for _, fn := range pf.functions() {
		famNoSelf := map[*ssa.Function]bool{}
		for f := range fam {
			if f != fn {
				famNoSelf[f] = true
			}
		}
		p2 := NewPurity(w, famNoSelf)
		p2.Solve([]*ssa.Function{fn})
		s := p2.summary(fn)
		key := fnName(fn)
		bad := ""
		var ts []int
		for t := range s.mutates {
			ts = append(ts, t)
		}
		sort.Ints(ts)
		for _, t := range ts {
			site := s.mutates[t]
			k := t / 2
			if t < 0 {
				bad = fmt.Sprintf("writes package-level state: %s at %s", site.What, site.Leaf)
				continue
			}
			if k == 0 {
				continue // receiver / node being patched
			}
			if k-1 < len(pf.roles) {
				bad = fmt.Sprintf("writes through the hunk's %s: %s at %s", pf.roles[k-1], site.What, site.Leaf)
			}
		}
		r.Check(bad == "", rule, key, w.Pos(fn.Pos()), "writes only into the node being patched and into fresh storage", bad)
	}
}

// prefixReslice: v may be a slice with its length cut below the length of
// the storage it views (x[:n]), so that an append onto it writes into
// elements its owner still sees: a Slice with a high bound, a phi of such, or
// the result of a function of the analysed packages one of whose returns is
// such a re-slice of a parameter (not of fresh storage).
func prefixReslice(w *World, v ssa.Value, depth int, seen map[ssa.Value]bool) bool {
	v = strip(v)
	if seen[v] || depth > 3 {
		return false
	}
	seen[v] = true
	switch x := v.(type) {
	case *ssa.Slice:
		if x.High != nil {
			return !freshBacking(x.X, 0)
		}
		return prefixReslice(w, x.X, depth, seen)
	case *ssa.Phi:
		for _, e := range x.Edges {
			if prefixReslice(w, e, depth, seen) {
				return true
			}
		}
	case *ssa.Call:
		sf := staticCallee(x)
		if sf == nil || sf.Blocks == nil {
			return false
		}
		if pk := fnPkg(sf); pk == nil || (pk.Path() != pathV2 && pk.Path() != pathLib) {
			return false
		}
		for _, ret := range returnsOf(sf) {
			if len(ret.Results) > 0 && prefixReslice(w, ret.Results[0], depth+1, map[ssa.Value]bool{}) {
				return true
			}
		}
	case *ssa.Extract:
		if c, ok := x.Tuple.(*ssa.Call); ok {
			sf := staticCallee(c)
			if sf == nil || sf.Blocks == nil {
				return false
			}
			if pk := fnPkg(sf); pk == nil || (pk.Path() != pathV2 && pk.Path() != pathLib) {
				return false
			}
			for _, ret := range returnsOf(sf) {
				if x.Index < len(ret.Results) && prefixReslice(w, ret.Results[x.Index], depth+1, map[ssa.Value]bool{}) {
					return true
				}
			}
		}
	}
	return false
}

// freshBacking: v is storage allocated here (make / composite literal /
// append result of such): cutting and appending to it touches nobody else.
func freshBacking(v ssa.Value, depth int) bool {
	v = strip(v)
	if depth > 4 {
		return false
	}
	switch x := v.(type) {
	case *ssa.MakeSlice, *ssa.Alloc:
		return true
	case *ssa.Slice:
		return freshBacking(x.X, depth+1)
	case *ssa.Call:
		if b, ok := x.Call.Value.(*ssa.Builtin); ok && b.Name() == "append" {
			return freshBacking(x.Call.Args[0], depth+1)
		}
	}
	return false
}
